/* specs.h - specification functions.  Plain C (also valid C++), never includes GLM.
 * Included after ll2c_rt.h (u8..u64, bit casts). */
#ifndef VERIF_SPECS_H
#define VERIF_SPECS_H
#include "spec_half.h"
#include "spec_int.h"
#include "spec_pow2.h"
#include "spec_ulp.h"
#include "spec_pack.h"
#include "spec_common.h"
#include "spec_constants.h"
#include "spec_color.h"
#endif
