/* expression-form specification helpers for LOOP INVARIANTS (CBMC loop contracts may not contain function calls).
 * included by the generated C of a function that carries a loop contract (tools/ll2c.py), after ll2c_rt.h.
 * SPEC_ORD32_LV / SPEC_ORD64_LV: the order-preserving map of spec_ulp.h (spec_ord32 / spec_ord64) over an lvalue. */
#ifndef SPEC_LOOPINV_H
#define SPEC_LOOPINV_H
#define SPEC_ORD32_LV(v) ((*(u32 *)&(v) >> 31) ? -(s64)(*(u32 *)&(v) & 0x7fffffffu) : (s64)(*(u32 *)&(v) & 0x7fffffffu))
#define SPEC_ORD64_LV(v) ((*(u64 *)&(v) >> 63) ? -(s64)(*(u64 *)&(v) & 0x7fffffffffffffffull) : (s64)(*(u64 *)&(v) & 0x7fffffffffffffffull))
#define SPEC_ISNAN32_LV(v) ((*(u32 *)&(v) & 0x7fffffffu) > 0x7f800000u)
#define SPEC_ISNAN64_LV(v) ((*(u64 *)&(v) & 0x7fffffffffffffffull) > 0x7ff0000000000000ull)
#define SPEC_ORD32_INF_LV 0x7f800000ll
#define SPEC_ORD64_INF_LV 0x7ff0000000000000ll
#define SPEC_MIN64(a, b) ((a) < (b) ? (a) : (b))
#define SPEC_MAX64(a, b) ((a) > (b) ? (a) : (b))
#endif
