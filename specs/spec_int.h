#ifndef SPEC_INT_H
#define SPEC_INT_H
#endif
