/* spec_int.h - GLSL 4.20 section 8.8 integer functions (as quoted in glm/integer.hpp), written as
 * bit-by-bit loops over a value held in u64 with an explicit width n (8..64).  Independent of GLM. */
#ifndef SPEC_INT_H
#define SPEC_INT_H
static inline u64 spec_mask(unsigned n) { return n >= 64 ? ~0ull : ((1ull << n) - 1ull); }
static inline s64 spec_sx(u64 x, unsigned n) { return n >= 64 ? (s64)x : (s64)((x ^ (1ull << (n - 1))) - (1ull << (n - 1))); }
static inline int spec_popcount(u64 x, unsigned n) {
  int c = 0;
  for (unsigned i = 0; i < n; i++) c += (int)((x >> i) & 1);
  return c;
}
/* index of lowest set bit among the low n bits, -1 if none */
static inline int spec_lsb_index(u64 x, unsigned n) {
  int r = -1;
  for (unsigned i = n; i-- > 0;) if ((x >> i) & 1) r = (int)i;
  return r;
}
/* index of highest set bit among the low n bits, -1 if none */
static inline int spec_msb_index(u64 x, unsigned n) {
  int r = -1;
  for (unsigned i = 0; i < n; i++) if ((x >> i) & 1) r = (int)i;
  return r;
}
/* GLSL findMSB: signed -> for negative values the most significant 0 bit; 0 and -1 give -1 */
static inline int spec_findMSB(u64 x, unsigned n, int is_signed) {
  x &= spec_mask(n);
  if (is_signed && ((x >> (n - 1)) & 1)) return spec_msb_index(~x & spec_mask(n), n);
  return spec_msb_index(x, n);
}
static inline u64 spec_bitreverse(u64 x, unsigned n) {
  u64 r = 0;
  for (unsigned i = 0; i < n; i++) r |= ((x >> i) & 1) << (n - 1 - i);
  return r;
}
/* GLSL bitfieldExtract; requires 0 <= offset, 0 <= bits, offset + bits <= n.  Result as n-bit pattern. */
static inline u64 spec_bitfieldExtract(u64 x, unsigned n, int is_signed, unsigned offset, unsigned bits) {
  if (bits == 0) return 0;
  u64 f = (offset >= 64 ? 0 : (x >> offset)) & spec_mask(bits);
  if (is_signed && ((f >> (bits - 1)) & 1)) f |= ~spec_mask(bits);
  return f & spec_mask(n);
}
static inline u64 spec_bitfieldInsert(u64 base, u64 ins, unsigned n, unsigned offset, unsigned bits) {
  if (bits == 0) return base & spec_mask(n);
  u64 m = spec_mask(bits) << offset;
  return ((base & ~m) | ((ins << offset) & m)) & spec_mask(n);
}
#endif
