/* IEEE-754 binary16, written from the standard (5 exponent bits, bias 15, 10 fraction bits). */
#ifndef SPEC_HALF_H
#define SPEC_HALF_H
static inline int spec_isnan32(float x) { return x != x; }
static inline int spec_isinf32(float x) { return x == __builtin_inff() || x == -__builtin_inff(); }
static inline int spec_isfinite32(float x) { return !spec_isnan32(x) && !spec_isinf32(x); }
static inline float spec_fabs32(float x) { return ll2c_bits_f32(ll2c_f32_bits(x) & 0x7fffffffu); }
static inline int spec_sign32(float x) { return (int)(ll2c_f32_bits(x) >> 31); }
static inline int spec_half_isnan(u16 h) { return (h & 0x7c00) == 0x7c00 && (h & 0x3ff) != 0; }
static inline int spec_half_isinf(u16 h) { return (h & 0x7fff) == 0x7c00; }
/* magnitude of the code k in [0, 0x7c00] as an exact float; k = 0x7c00 gives 65536 = the value the
 * first non-representable binade would start with (used as the "upper neighbour" of the largest half) */
static inline float spec_half_mag(u16 k) {
  u32 e = (k >> 10) & 0x1f, m = k & 0x3ff;
  if (e == 0) return (float)m * 0x1p-24f;                       /* subnormal: m * 2^-24, exact */
  return (float)(1024u + m) * ll2c_bits_f32((e - 25u + 127u) << 23); /* (1+m/1024) * 2^(e-15), exact */
}
/* exact value of a non-NaN half as float (inf for the inf codes) */
static inline float spec_half_value(u16 h) {
  float a = spec_half_isinf(h) ? __builtin_inff() : spec_half_mag((u16)(h & 0x7fff));
  return (h & 0x8000) ? -a : a;
}
static inline int spec_half_exact(u16 h, float f) {
  return (spec_half_isnan(h) && spec_isnan32(f) && spec_sign32(f) == (h >> 15)) ||
         (!spec_half_isnan(h) && ll2c_f32_bits(f) == ll2c_f32_bits(spec_half_value(h)));
}
static inline double spec_dabs(double d) { return d < 0 ? -d : d; }
/* r is a half nearest to the finite float x with |x| < 65520 (either neighbour on a tie) */
static inline int spec_half_nearest(float x, u16 r) {
  u16 k = (u16)(r & 0x7fff);
  double ax = (double)spec_fabs32(x);
  if (k > 0x7bff) return 0;
  double d0 = spec_dabs((double)spec_half_mag(k) - ax);
  double dn = spec_dabs((double)spec_half_mag((u16)(k + 1)) - ax);
  double dp = k > 0 ? spec_dabs((double)spec_half_mag((u16)(k - 1)) - ax) : ax + (double)spec_half_mag(1);
  return d0 <= dn && d0 <= dp;
}
/* the complete float -> half contract of property C07 as one predicate: r is an admissible half for x */
static inline int spec_half_ok(float x, u16 r) {
  return (!(spec_isfinite32(x) && spec_fabs32(x) < 65520.0f) || spec_half_nearest(x, r)) && ((r >> 15) == spec_sign32(x)) &&
         (spec_isnan32(x) || !(spec_fabs32(x) >= 65520.0f) || r == (u16)((spec_sign32(x) << 15) | 0x7c00)) &&
         (spec_isnan32(x) || !(spec_fabs32(x) < 0x1p-25f) || r == (u16)(spec_sign32(x) << 15)) &&
         (!spec_isnan32(x) || spec_half_isnan(r)) && (spec_isnan32(x) || !spec_half_isnan(r));
}
/* ABSTRACT spelling of the same predicate for modular caller proofs: under CBMC an uninterpreted predicate P(x, r).  A caller
 * proof "callee ensures P(in, out)  =>  caller ensures P(x, RESULT)" holds for every P, hence for spec_half_ok, which the
 * kernel's own (enforced) contract establishes.  Natively it IS spec_half_ok, so replays stay meaningful. */
#ifdef LL2C_CBMC
_Bool __CPROVER_uninterpreted_spec_half_ok(u32, u16);
#define SPEC_HALF_OK_ABS(x, r) __CPROVER_uninterpreted_spec_half_ok(ll2c_f32_bits(x), (u16)(r))
_Bool __CPROVER_uninterpreted_spec_half_exact(u16, u32);
#define SPEC_HALF_EXACT_ABS(h, f) __CPROVER_uninterpreted_spec_half_exact((u16)(h), ll2c_f32_bits(f))
#else
#define SPEC_HALF_OK_ABS(x, r) spec_half_ok((x), (u16)(r))
#define SPEC_HALF_EXACT_ABS(h, f) spec_half_exact((u16)(h), (f))
#endif
/* order-preserving map of non-NaN half codes to integers (+0 and -0 both map to 0) */
static inline s32 spec_half_ord(u16 h) { return (h & 0x8000) ? -(s32)(h & 0x7fff) : (s32)(h & 0x7fff); }
#endif
