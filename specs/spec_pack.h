/* spec_pack.h - packed formats of glm/packing.hpp and glm/gtc/packing.hpp (property C06).
 * Written from the format definitions (GLSL 4.20 section 8.4 pack/unpack text as quoted in the GLM doc comments:
 * "round(clamp(c, 0, +1) * 255.0)", "f / 255.0", "first component ... least significant bits"; OpenGL 4.x
 * section 2.3.4.3/2.3.4.4 unsigned 11-bit and 10-bit floats).  Independent of GLM.  Uses spec_mask/spec_sx
 * (spec_int.h) and spec_dabs/spec_isnan32 (spec_half.h).
 *
 * No division, no float multiply of two symbolic values: every product has one constant operand. */
#ifndef SPEC_PACK_H
#define SPEC_PACK_H

/* ---- fields of a packed word: w bits starting at bit off (first component: off = 0) */
static inline u64 spec_ufield(u64 p, unsigned off, unsigned w) { return (p >> off) & spec_mask(w); }
static inline s64 spec_sfield(u64 p, unsigned off, unsigned w) { return spec_sx((p >> off) & spec_mask(w), w); }

/* ---- decoding of normalised codes.  "out is code/m up to the rounding of float arithmetic":
 * |out*m - code| <= m * 2^-22 (two float roundings of relative size 2^-24 each, with a factor 2 of slack);
 * the double product out*m is exact (24 x 16 bits). */
static inline int spec_unorm_decodes(float out, u64 code, u32 m) {
  return spec_dabs((double)out * (double)m - (double)code) <= (double)m * 0x1p-22;
}
/* signed: clamp(code/m, -1, +1): the most negative code decodes like -m */
static inline int spec_snorm_decodes(float out, s64 code, u32 m) {
  s64 c = code < -(s64)m ? -(s64)m : code;
  return spec_dabs((double)out * (double)m - (double)c) <= (double)m * 0x1p-22;
}

/* ---- quantisation of a real x to a normalised code (x not NaN).  Three separate facts so that a failing
 * proof names the part that is wrong.  nearest: within half a quantisation step of x*m, up to the rounding of
 * the one float multiply (m * 2^-23). */
static inline int spec_unorm_low(float x, u64 c) { return !(x <= 0.0f) || c == 0; }
static inline int spec_unorm_high(float x, u64 c, u32 m) { return !(x >= 1.0f) || c == m; }
static inline int spec_unorm_nearest(float x, u64 c, u32 m) {
  return !(x > 0.0f && x < 1.0f) || spec_dabs((double)c - (double)x * (double)m) <= 0.5 + (double)m * 0x1p-23;
}
static inline int spec_snorm_low(float x, s64 c, u32 m) { return !(x <= -1.0f) || c == -(s64)m; }
static inline int spec_snorm_high(float x, s64 c, u32 m) { return !(x >= 1.0f) || c == (s64)m; }
static inline int spec_snorm_nearest(float x, s64 c, u32 m) {
  return !(x > -1.0f && x < 1.0f) || spec_dabs((double)c - (double)x * (double)m) <= 0.5 + (double)m * 0x1p-23;
}

/* ---- bitwise float equality where the property says "equals"; a NaN equals any NaN */
static inline int spec_same32(float a, float b) { return ll2c_f32_bits(a) == ll2c_f32_bits(b) || (a != a && b != b); }

/* ---- unsigned small floats: 5 exponent bits (bias 15), mb mantissa bits (6 for the 11-bit, 5 for the 10-bit
 * format), no sign.  code = e << mb | m. */
static inline u32 spec_sf_exp(u32 code, unsigned mb) { return (code >> mb) & 0x1fu; }
static inline u32 spec_sf_man(u32 code, unsigned mb) { return code & ((1u << mb) - 1u); }
static inline int spec_sf_is_inf(u32 code, unsigned mb) { return spec_sf_exp(code, mb) == 31 && spec_sf_man(code, mb) == 0; }
static inline int spec_sf_is_nan(u32 code, unsigned mb) { return spec_sf_exp(code, mb) == 31 && spec_sf_man(code, mb) != 0; }
static inline int spec_sf_is_finite(u32 code, unsigned mb) { return spec_sf_exp(code, mb) != 31; }
static inline int spec_sf_is_normal(u32 code, unsigned mb) { return spec_sf_exp(code, mb) >= 1 && spec_sf_exp(code, mb) <= 30; }
/* value of a normal code: (1 + m/2^mb) * 2^(e-15), exact in binary32 */
static inline float spec_sf_normal_value(u32 code, unsigned mb) {
  return ll2c_bits_f32(((spec_sf_exp(code, mb) + 112u) << 23) | (spec_sf_man(code, mb) << (23 - mb)));
}
/* largest finite code and its value: 65024 for 11 bits, 64512 for 10 bits */
static inline u32 spec_sf_max_code(unsigned mb) { return (30u << mb) | ((1u << mb) - 1u); }
static inline float spec_sf_max_value(unsigned mb) { return spec_sf_normal_value(spec_sf_max_code(mb), mb); }
/* one mantissa step in the binade of the positive normal float x: 2^(exponent(x) - mb) */
static inline float spec_sf_step(float x, unsigned mb) {
  return ll2c_bits_f32((ll2c_f32_bits(x) & 0x7f800000u) - ((u32)mb << 23));
}
/* x lies in the range in which the format has normal codes: [2^-14, largest finite value] */
static inline int spec_sf_in_normal_range(float x, unsigned mb) { return x >= 0x1p-14f && x <= spec_sf_max_value(mb); }
/* r (the decoded value of the code chosen for x) is within one mantissa step of x */
static inline int spec_sf_within_step(float x, float r, unsigned mb) {
  return spec_dabs((double)r - (double)x) <= (double)spec_sf_step(x, mb);
}
#endif
