/* spec_common.h - specification vocabulary for property C11 (GLSL common functions, ext/scalar_common).
 * Written from the GLSL 4.x wording quoted in glm/common.hpp and glm/ext/scalar_common.hpp and from IEEE-754
 * (binary32: 8 exponent bits, bias 127, 23 fraction bits; binary64: 11, 1023, 52).  Plain C, also valid C++,
 * never includes GLM, needs only ll2c_rt.h.  Every name carries the prefix cspec_ (the other spec headers,
 * edited concurrently, own spec_*).
 *
 * Integer-valuedness, evenness and "half-way" are decided on the bit pattern, never by calling a rounding
 * function; the order relations use only comparisons and additions that are exact for the stated operand
 * range (each such place says why), so no clause depends on how a rounding error falls. */
#ifndef SPEC_COMMON_H
#define SPEC_COMMON_H
#include "ll2c_libm.h" /* LL2C_LIBM_<f>: the libm entry the extracted code calls (uninterpreted under CBMC) */

static inline int cspec_isnan32(float x) { return x != x; }
static inline int cspec_isinf32(float x) { return x == __builtin_inff() || x == -__builtin_inff(); }
static inline int cspec_isfinite32(float x) { return !cspec_isnan32(x) && !cspec_isinf32(x); }
static inline float cspec_fabs32(float x) { return ll2c_bits_f32(ll2c_f32_bits(x) & 0x7fffffffu); }
static inline int cspec_isnan64(double x) { return x != x; }
static inline int cspec_isinf64(double x) { return x == __builtin_inf() || x == -__builtin_inf(); }
static inline int cspec_isfinite64(double x) { return !cspec_isnan64(x) && !cspec_isinf64(x); }
static inline double cspec_fabs64(double x) { return ll2c_bits_f64(ll2c_f64_bits(x) & 0x7fffffffffffffffull); }
/* classification straight from the encoding (for isnan / isinf themselves) */
static inline int cspec_bits_isnan32(u32 b) { return (b & 0x7f800000u) == 0x7f800000u && (b & 0x007fffffu) != 0; }
static inline int cspec_bits_isinf32(u32 b) { return (b & 0x7fffffffu) == 0x7f800000u; }
static inline int cspec_bits_isnan64(u64 b) { return (b & 0x7ff0000000000000ull) == 0x7ff0000000000000ull && (b & 0x000fffffffffffffull) != 0; }
static inline int cspec_bits_isinf64(u64 b) { return (b & 0x7fffffffffffffffull) == 0x7ff0000000000000ull; }
#define CSPEC_NAN32 ll2c_bits_f32(0x7fc00000u)
#define CSPEC_NAN64 ll2c_bits_f64(0x7ff8000000000000ull)

/* S suffix, T float type, U unsigned type of the same width, FB fraction bits, EB exponent bits, BIAS */
#define SPEC_COMMON_FAMILY(S, T, U, BITS, FROMBITS, FB, EB, BIAS)                                                  \
  /* 2^k as T, built from the encoding */                                                                          \
  static inline T cspec_pow2_##S(int k) { return FROMBITS((U)(BIAS + k) << FB); }                                   \
  /* both NaN, or the same bit pattern */                                                                          \
  static inline int cspec_same##S(T a, T b) { return (a != a && b != b) || BITS(a) == BITS(b); }                    \
  /* both NaN, or numerically equal (+0 == -0) */                                                                  \
  static inline int cspec_samev##S(T a, T b) { return (a != a && b != b) || a == b; }                               \
  /* finite and integer-valued */                                                                                  \
  static inline int cspec_isint##S(T r) {                                                                           \
    U m = (U)(BITS(r) << 1) >> 1; /* magnitude bits */                                                             \
    U e = m >> FB;                                                                                                 \
    if (e == (((U)1 << EB) - 1)) return 0;   /* inf, NaN */                                                        \
    if (m == 0) return 1;                    /* +-0 */                                                             \
    if (e < BIAS) return 0;                  /* 0 < |r| < 1 */                                                     \
    if (e >= BIAS + FB) return 1;            /* ulp >= 1 */                                                        \
    return (m & (((U)1 << (BIAS + FB - e)) - 1)) == 0; /* no fraction bit below 2^0 set */                         \
  }                                                                                                                \
  /* finite, integer-valued and even */                                                                            \
  static inline int cspec_iseven##S(T r) {                                                                          \
    U m = (U)(BITS(r) << 1) >> 1;                                                                                  \
    U e = m >> FB;                                                                                                 \
    if (e == (((U)1 << EB) - 1)) return 0;                                                                         \
    if (m == 0) return 1;                                                                                          \
    if (e < BIAS) return 0;                                                                                        \
    if (e >= BIAS + FB + 1) return 1;        /* ulp >= 2 */                                                        \
    U sig = (m & (((U)1 << FB) - 1)) | ((U)1 << FB); /* value = sig * 2^(e - BIAS - FB) */                         \
    return (sig & (((U)1 << (BIAS + FB + 1 - e)) - 1)) == 0; /* no bit below 2^1 set */                            \
  }                                                                                                                \
  /* x lies exactly half-way between two consecutive integers: 2x is an odd integer (x + x is exact) */            \
  static inline int cspec_ishalfway##S(T x) { return cspec_isint##S(x + x) && !cspec_isint##S(x); }                   \
  /* GLSL floor: "nearest integer that is less than or equal to x", i.e. the integer r with r <= x < r + 1.        \
   * |r| >= 2^(FB+1): neighbours are >= 2 apart on the far side and exactly 1 apart at -2^(FB+1) towards zero, so  \
   * r <= x < r + 1 iff x == r.  Otherwise r + 1 is an integer of magnitude <= 2^(FB+1), hence exact. */           \
  static inline int cspec_floor_rel##S(T x, T r) {                                                                  \
    if (!cspec_isint##S(r) || !(r <= x)) return 0;                                                                  \
    if (cspec_fabs##S(r) >= cspec_pow2_##S(FB + 1)) return r == x;                                                   \
    return x < r + (T)1;                                                                                           \
  }                                                                                                                \
  /* GLSL ceil: "nearest integer that is greater than or equal to x": r - 1 < x <= r */                            \
  static inline int cspec_ceil_rel##S(T x, T r) {                                                                   \
    if (!cspec_isint##S(r) || !(r >= x)) return 0;                                                                  \
    if (cspec_fabs##S(r) >= cspec_pow2_##S(FB + 1)) return r == x;                                                   \
    return r - (T)1 < x;                                                                                           \
  }                                                                                                                \
  /* GLSL trunc: "nearest integer to x whose absolute value is not larger than the absolute value of x":           \
   * |r| <= |x| < |r| + 1 and r does not lie on the other side of zero */                                          \
  static inline int cspec_trunc_rel##S(T x, T r) {                                                                  \
    if (!cspec_isint##S(r) || !(cspec_fabs##S(r) <= cspec_fabs##S(x))) return 0;                                      \
    if ((x > 0 && r < 0) || (x < 0 && r > 0)) return 0;                                                            \
    if (cspec_fabs##S(r) >= cspec_pow2_##S(FB + 1)) return r == x;                                                   \
    return cspec_fabs##S(x) < cspec_fabs##S(r) + (T)1;                                                               \
  }                                                                                                                \
  /* r is an integer nearest to the finite x: |r - x| <= 1/2.  |x| >= 2^FB: x is an integer, so r == x.            \
   * Otherwise a nearest integer has |r| <= 2^FB; r -+ 1/2 is exact for |r| < 2^FB, and for |r| == 2^FB the one    \
   * inexact sum lies on the far side of x whichever way it rounds. */                                             \
  static inline int cspec_nearest_rel##S(T x, T r) {                                                                \
    if (!cspec_isint##S(r)) return 0;                                                                               \
    if (cspec_fabs##S(x) >= cspec_pow2_##S(FB)) return r == x;                                                       \
    if (cspec_fabs##S(r) > cspec_pow2_##S(FB)) return 0;                                                             \
    return r - (T)0.5 <= x && x <= r + (T)0.5;                                                                     \
  }                                                                                                                \
  /* IEEE-754 roundToIntegralTowardNegative on the encoding (used inside the fract / mod formulas; the floor       \
   * contract checks it against cspec_floor_rel through the code's result) */                                       \
  static inline T cspec_floor##S(T x) {                                                                             \
    U b = BITS(x);                                                                                                 \
    U m = (U)(b << 1) >> 1;                                                                                        \
    U e = m >> FB;                                                                                                 \
    if (e >= BIAS + FB) return x;            /* integers, inf, NaN */                                              \
    if (e < BIAS) {                          /* |x| < 1 */                                                         \
      if (m == 0) return x;                                                                                        \
      return (b >> (FB + EB)) ? (T)-1 : (T)0;                                                                      \
    }                                                                                                              \
    U mask = ((U)1 << (BIAS + FB - e)) - 1;  /* fraction bits below 2^0 */                                         \
    if ((b & mask) == 0) return x;                                                                                 \
    if (b >> (FB + EB)) b += mask;           /* negative: magnitude up (carry into the exponent is right) */       \
    return FROMBITS(b & ~mask);                                                                                    \
  }                                                                                                                \
  /* GLSL min: "Returns y if y < x; otherwise, it returns x."   max: "Returns y if x < y; otherwise x." */         \
  static inline T cspec_glsl_min##S(T x, T y) { return (y < x) ? y : x; }                                           \
  static inline T cspec_glsl_max##S(T x, T y) { return (x < y) ? y : x; }                                           \
  /* fmin/fmax over up to four operands (pad with NaN): NaN iff every operand is NaN, otherwise a non-NaN          \
   * operand that is <= (>=) every non-NaN operand */                                                              \
  static inline int cspec_fmin_rel##S(T r, T a, T b, T c, T d) {                                                    \
    if (a != a && b != b && c != c && d != d) return r != r;                                                       \
    if (r != r) return 0;                                                                                          \
    return (a != a || r <= a) && (b != b || r <= b) && (c != c || r <= c) && (d != d || r <= d) &&                 \
           (r == a || r == b || r == c || r == d);                                                                 \
  }                                                                                                                \
  static inline int cspec_fmax_rel##S(T r, T a, T b, T c, T d) {                                                    \
    if (a != a && b != b && c != c && d != d) return r != r;                                                       \
    if (r != r) return 0;                                                                                          \
    return (a != a || r >= a) && (b != b || r >= b) && (c != c || r >= c) && (d != d || r >= d) &&                 \
           (r == a || r == b || r == c || r == d);                                                                 \
  }                                                                                                                \
  /* GLSL smoothstep: "t = clamp((x - edge0) / (edge1 - edge0), 0, 1); return t * t * (3 - 2 * t);" with           \
   * clamp = min(max(x, minVal), maxVal);  GLSL mix: "x * (1.0 - a) + y * a" - same precision, same order */       \
  static inline T cspec_smoothstep##S(T e0, T e1, T x) {                                                           \
    T t = cspec_glsl_min##S(cspec_glsl_max##S((x - e0) / (e1 - e0), (T)0), (T)1);                                  \
    return t * t * ((T)3 - (T)2 * t);                                                                              \
  }                                                                                                                \
  static inline T cspec_mix##S(T x, T y, T a) { return x * ((T)1 - a) + y * a; }                                   \
  /* value of fmin / fmax of two operands ("if one of the two arguments is NaN, the value of the other") */        \
  static inline T cspec_fmin2_##S(T a, T b) { return a != a ? b : (b != b ? a : (b < a ? b : a)); }                 \
  static inline T cspec_fmax2_##S(T a, T b) { return a != a ? b : (b != b ? a : (a < b ? b : a)); }

SPEC_COMMON_FAMILY(32, float, u32, ll2c_f32_bits, ll2c_bits_f32, 23, 8, 127)
SPEC_COMMON_FAMILY(64, double, u64, ll2c_f64_bits, ll2c_bits_f64, 52, 11, 1023)

/* the integer r (given exactly as a double, |r| <= 2^32) is nearest to x: r - 1/2 <= x <= r + 1/2, both sums exact */
static inline int cspec_int_nearest(double x, double r) { return r - 0.5 <= x && x <= r + 0.5; }
#endif
