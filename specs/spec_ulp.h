/* spec_ulp.h - counting representable values of IEEE-754 binary32 / binary64.  Written from the standard
 * (sign-magnitude encoding: for non-NaN values of one sign the value order is the order of the magnitude
 * field read as an integer; the two zeros are one point of the value order).  No GLM, valid C and C++.
 *
 * spec_ord32 / spec_ord64: the order-preserving map of the non-NaN values to integers,
 *      -inf < -FLT_MAX < ... < -denorm_min < (-0 = +0) < +denorm_min < ... < +FLT_MAX < +inf
 *   -0x7f800000   ...            -1             0              1        ...  0x7f7fffff  0x7f800000
 * so that "y is the smallest representable value greater than x"  <=>  ord(y) == ord(x) + 1, for every
 * finite x (negative, zero, subnormal, binade boundary, FLT_MAX -> +inf), and "x and y are at most k
 * representable values apart"  <=>  |ord(x) - ord(y)| <= k. */
#ifndef SPEC_ULP_H
#define SPEC_ULP_H
#include "spec_half.h" /* spec_isnan32, spec_isfinite32, spec_fabs32, spec_sign32 */

#define SPEC_ORD32_INF 0x7f800000            /* ord(+inf) = ord(FLT_MAX) + 1 */
#define SPEC_ORD64_INF 0x7ff0000000000000ll  /* ord(+inf) = ord(DBL_MAX) + 1 */

static inline int spec_isnan64(double x) { return x != x; }
static inline int spec_isinf64(double x) { return x == __builtin_inf() || x == -__builtin_inf(); }
static inline int spec_isfinite64(double x) { return !spec_isnan64(x) && !spec_isinf64(x); }
static inline double spec_fabs64(double x) { return ll2c_bits_f64(ll2c_f64_bits(x) & 0x7fffffffffffffffull); }
static inline int spec_sign64(double x) { return (int)(ll2c_f64_bits(x) >> 63); }

static inline s32 spec_ord32(float x) {
  u32 b = ll2c_f32_bits(x);
  s32 m = (s32)(b & 0x7fffffffu);
  return (b >> 31) ? -m : m;
}
static inline s64 spec_ord64(double x) {
  u64 b = ll2c_f64_bits(x);
  s64 m = (s64)(b & 0x7fffffffffffffffull);
  return (b >> 63) ? -m : m;
}
/* number of steps between x and y on the value order (non-NaN x, y); 64-bit so that it cannot overflow:
 * at most 2 * 0x7f800000 for float, at most 2 * 0x7ff0000000000000 < 2^64 for double */
static inline s64 spec_ulpdist32(float x, float y) {
  s64 d = (s64)spec_ord32(x) - (s64)spec_ord32(y);
  return d < 0 ? -d : d;
}
static inline u64 spec_ulpdist64(double x, double y) {
  s64 a = spec_ord64(x), b = spec_ord64(y);
  return a >= b ? (u64)a - (u64)b : (u64)b - (u64)a;
}
/* "x and y are at most k representable values apart" (k >= 0; non-NaN x, y) */
static inline int spec_within_ulps32(float x, float y, s32 k) { return k >= 0 && spec_ulpdist32(x, y) <= (s64)k; }
static inline int spec_within_ulps64(double x, double y, s32 k) { return k >= 0 && spec_ulpdist64(x, y) <= (u64)(s64)k; }
#endif
