/* spec_pow2.h - specification functions for property C18 (power-of-two, multiple and bitfield utilities).
 * Written from the property statement and the doc comments of glm/ext/scalar_integer.hpp, glm/gtc/round.hpp,
 * glm/gtc/bitfield.hpp, glm/gtx/bit.hpp, glm/gtx/integer.hpp - not from the .inl files.  Plain C / C++, no GLM.
 * Needs u8..u64, s8..s64, u128/s128 (ll2c_rt.h) and spec_int.h.
 *
 * Conventions: a "value" is the mathematical value of the argument.  Powers of two: value held in u64
 * (callers only pass positive values), `vb` = number of value bits of the type (width for unsigned types,
 * width-1 for signed ones), so the representable powers of two are 2^0 .. 2^(vb-1).  Multiples: values held in
 * s64 (types up to 32 bit) or s128 (64-bit types) so that no intermediate result can overflow.
 * Bit patterns: held in u64, low n bits significant.  Every loop has a constant bound <= 65. */
#ifndef SPEC_POW2_H
#define SPEC_POW2_H

/* ------------------------------------------------------------------ powers of two */
/* x == 2^k for some 0 <= k < vb */
static inline int spec_is_pow2(u64 x, unsigned vb) {
  int r = 0;
  for (unsigned k = 0; k < vb; k++) if (x == (1ull << k)) r = 1;
  return r;
}
/* smallest 2^k (0 <= k < vb) with 2^k >= x;  0 when there is none (not representable) */
static inline u64 spec_ceil_pow2(u64 x, unsigned vb) {
  u64 r = 0;
  for (unsigned k = vb; k-- > 0;) if ((1ull << k) >= x) r = 1ull << k;
  return r;
}
/* largest 2^k (0 <= k < vb) with 2^k <= x;  0 when there is none (x == 0) */
static inline u64 spec_floor_pow2(u64 x, unsigned vb) {
  u64 r = 0;
  for (unsigned k = 0; k < vb; k++) if ((1ull << k) <= x) r = 1ull << k;
  return r;
}
/* r is a power of two and no power of two 2^0 .. 2^64 is strictly closer to x (ties: either neighbour).  x >= 1; all
 * distances fit u64: |2^k - x| < 2^64 for k <= 63, and 2^64 - x is the two's complement of x. */
static inline int spec_is_nearest_pow2(u64 r, u64 x) {
  int ok = spec_is_pow2(r, 64) && x != 0;
  u64 dr = r > x ? r - x : x - r;
  for (unsigned k = 0; k < 64; k++) {
    u64 p = 1ull << k;
    u64 d = p > x ? p - x : x - p;
    if (d < dr) ok = 0;
  }
  if ((u64)(0 - x) < dr) ok = 0; /* the candidate 2^64 */
  return ok;
}
/* exact integer logarithm: r == floor(log2(x)) for x > 0, i.e. 2^r <= x < 2^(r+1) */
static inline int spec_is_floor_log2(u64 r, u64 x) { return r < 64 && (x >> r) == 1; }

/* ------------------------------------------------------------------ multiples (m > 0) */
/* One family per arithmetic width so that no intermediate result can overflow and the narrow types stay cheap for the
 * solver: suffix _n = int (8/16-bit element types), no suffix = s64 (32-bit types), _w = s128 (64-bit types).
 *  is_multiple(x, m)            m divides x
 *  is_floor_multiple(r, x, m)   r is the largest multiple of m that is <= x
 *  is_ceil_multiple(r, x, m)    r is the smallest multiple of m that is >= x
 *  is_nearest_multiple(r, x, m) r is a multiple of m and no multiple of m is strictly closer to x (ties: either neighbour)
 *  *_fits: is the answer representable in [lo, hi] (lo <= 0 <= hi, the range of the type)?  The largest multiple of m that
 *  is <= hi is hi - hi % m, the smallest one that is >= lo is lo - lo % m (C remainder has the sign of the dividend). */
#define SPEC_MULTIPLE_FAMILY(SUF, T)                                                                                   \
  static inline int spec_is_multiple##SUF(T x, T m) { return x % m == 0; }                                             \
  static inline int spec_is_floor_multiple##SUF(T r, T x, T m) { return r % m == 0 && r <= x && x - r < m; }            \
  static inline int spec_is_ceil_multiple##SUF(T r, T x, T m) { return r % m == 0 && r >= x && r - x < m; }             \
  static inline int spec_is_nearest_multiple##SUF(T r, T x, T m) {                                                     \
    T d = r > x ? r - x : x - r;                                                                                       \
    return r % m == 0 && 2 * d <= m;                                                                                   \
  }                                                                                                                    \
  static inline int spec_ceil_multiple_fits##SUF(T x, T m, T hi) { return x <= hi - hi % m; }                          \
  static inline int spec_floor_multiple_fits##SUF(T x, T m, T lo) { return x >= lo - lo % m; }                         \
  static inline int spec_nearest_multiple_fits##SUF(T x, T m, T lo, T hi) {                                            \
    T rem = ((x % m) + m) % m;     /* distance down to the floor multiple, 0 <= rem < m */                             \
    T up = rem == 0 ? 0 : m - rem; /* distance up to the ceil multiple */                                              \
    return (rem <= up && x - rem >= lo) || (up <= rem && x + up <= hi);                                                \
  }
SPEC_MULTIPLE_FAMILY(_n, s32)
SPEC_MULTIPLE_FAMILY(, s64)
SPEC_MULTIPLE_FAMILY(_w, s128)
/* floored modulus of the gtx_integer doc comment, x - y * floor(x / y), y != 0: r is congruent to x modulo y and lies
 * in [0, y) for y > 0, in (y, 0] for y < 0 */
static inline int spec_is_floor_mod(s64 r, s64 x, s64 y) {
  return (x - r) % y == 0 && (y > 0 ? (r >= 0 && r < y) : (r <= 0 && r > y));
}

/* ------------------------------------------------------------------ bits */
/* position of the k-th set bit (k = 1: the least significant one) among the low n bits of x; -1 if fewer than k are set */
static inline int spec_nth_set_bit(u64 x, unsigned n, int k) {
  int r = -1, c = 0;
  for (unsigned i = 0; i < n; i++)
    if ((x >> i) & 1) {
      c++;
      if (c == k) r = (int)i;
    }
  return r;
}
/* number of leading zero bits of the n-bit pattern x (n for x == 0) */
static inline unsigned spec_nlz(u64 x, unsigned n) {
  unsigned c = 0;
  int seen = 0;
  for (unsigned i = n; i-- > 0;) {
    if ((x >> i) & 1) seen = 1;
    if (!seen) c++;
  }
  return c;
}
/* `count` one bits starting at bit `first` (bits at or above 64 dropped) */
static inline u64 spec_ones(unsigned first, unsigned count) {
  u64 r = 0;
  for (unsigned i = 0; i < 64; i++) if (i >= first && i - first < count) r |= 1ull << i;
  return r;
}
/* rotate the n-bit pattern x by s (0 <= s < n) to the left: bit i moves to bit (i + s) mod n */
static inline u64 spec_rotl(u64 x, unsigned s, unsigned n) {
  u64 r = 0;
  for (unsigned i = 0; i < n; i++) {
    unsigned j = i + s;
    if (j >= n) j -= n;
    r |= ((x >> i) & 1) << j;
  }
  return r;
}
/* ... to the right: bit i moves to bit (i - s) mod n */
static inline u64 spec_rotr(u64 x, unsigned s, unsigned n) {
  u64 r = 0;
  for (unsigned i = 0; i < n; i++) {
    unsigned j = i + n - s;
    if (j >= n) j -= n;
    r |= ((x >> i) & 1) << j;
  }
  return r;
}
/* interleaving of cnt operands of w bits: bit i of operand k (k = 0 .. cnt-1) lands at bit cnt*i + k.  spec_spread is the
 * contribution of operand k; bits landing at or above bit 64 are dropped (3 x 32 bit operands in a 64-bit result). */
static inline u64 spec_spread(u64 x, unsigned w, unsigned cnt, unsigned k) {
  u64 r = 0;
  for (unsigned i = 0; i < w; i++) {
    unsigned p = cnt * i + k;
    if (p < 64) r |= ((x >> i) & 1) << p;
  }
  return r;
}
static inline u64 spec_interleave2(u64 x, u64 y, unsigned w) { return spec_spread(x, w, 2, 0) | spec_spread(y, w, 2, 1); }
static inline u64 spec_interleave3(u64 x, u64 y, u64 z, unsigned w) {
  return spec_spread(x, w, 3, 0) | spec_spread(y, w, 3, 1) | spec_spread(z, w, 3, 2);
}
static inline u64 spec_interleave4(u64 x, u64 y, u64 z, u64 t, unsigned w) {
  return spec_spread(x, w, 4, 0) | spec_spread(y, w, 4, 1) | spec_spread(z, w, 4, 2) | spec_spread(t, w, 4, 3);
}
/* inverse: operand k of an interleaving of cnt operands of w bits */
static inline u64 spec_gather(u64 v, unsigned w, unsigned cnt, unsigned k) {
  u64 r = 0;
  for (unsigned i = 0; i < w; i++) {
    unsigned p = cnt * i + k;
    if (p < 64) r |= ((v >> p) & 1) << i;
  }
  return r;
}

/* ------------------------------------------------------------------ gtx_integer */
/* k! for 0 <= k <= 20 (20! < 2^64) */
static inline u64 spec_factorial(u64 k) {
  u64 r = 1;
  for (u64 i = 2; i <= 20; i++) if (i <= k) r *= i;
  return r;
}
/* x^y for y <= ymax, exact, when the value is representable in int (resp. unsigned int, 32 bit); otherwise the NOFIT
 * value, which no 32-bit result equals.  Before each multiplication |r| <= 2^31 (resp. r < 2^32) and |x| <= 2^31 (resp.
 * x < 2^32), so the 64-bit product is exact; once a partial product leaves the range we have |x| >= 2 and every further
 * product leaves it as well, so stopping there is exact too. */
#define SPEC_IPOW_NOFIT ((s64)0x4000000000000000ll)
#define SPEC_UPOW_NOFIT (~0ull)
static inline s64 spec_ipow_s32(s64 x, u32 y, unsigned ymax) {
  s64 r = 1;
  for (unsigned i = 0; i < ymax; i++)
    if (i < y && r != SPEC_IPOW_NOFIT) {
      r = r * x;
      if (r < -2147483648ll || r > 2147483647ll) r = SPEC_IPOW_NOFIT;
    }
  return r;
}
static inline u64 spec_upow_u32(u64 x, u32 y, unsigned ymax) {
  u64 r = 1;
  for (unsigned i = 0; i < ymax; i++)
    if (i < y && r != SPEC_UPOW_NOFIT) {
      r = r * x;
      if (r > 0xffffffffull) r = SPEC_UPOW_NOFIT;
    }
  return r;
}
/* x multiplied y times in 32-bit wrapping arithmetic (y <= ymax).  Equals x^y exactly whenever the value is
 * representable (spec_ipow_fits_s32 / spec_upow_fits_u32 below): then no partial product wraps either, because partial
 * products of a representable power are representable.  Cross-checked against spec_ipow_s32 / spec_upow_u32 in the
 * self-test.  Used in the contracts because a product of the code's own width is what the solvers can match. */
static inline u32 spec_pow_wrap32(u32 x, u32 y, unsigned ymax) {
  u32 r = 1;
  for (unsigned i = 0; i < ymax; i++) if (i < y) r = r * x;
  return r;
}
/* the same representability question answered from a table of integer roots, for 0 <= y <= 12: x^y fits iff |x| is at
 * most floor(bound^(1/y)); -2^31 is reached only by x = -2^31, y = 1 in this range.  (Cross-checked against spec_ipow_s32 /
 * spec_upow_u32 in the self-test; stated this way the bound on x is explicit, which the solvers need.) */
static inline int spec_upow_fits_u32(u64 x, u32 y) {
  static const u64 root[13] = {0, 4294967295ull, 65535, 1625, 255, 84, 40, 23, 15, 11, 9, 7, 6};
  return y == 0 || (y <= 12 && x <= root[y]);
}
static inline int spec_ipow_fits_s32(s64 x, u32 y) {
  static const s64 root[13] = {0, 2147483647ll, 46340, 1290, 215, 73, 35, 21, 14, 10, 8, 7, 5};
  return y == 0 || (y == 1 && x == -2147483648ll) || (y <= 12 && x <= root[y] && x >= -root[y]);
}
/* r == floor(sqrt(x)), x >= 0 */
static inline int spec_is_floor_sqrt(u64 r, u64 x) { return r <= 0xffffffffull && r * r <= x && (u128)x < ((u128)r + 1) * ((u128)r + 1); }
#endif
