"""rspec.py - specification helpers for kind-R clauses (Python expressions).  Independent of GLM.
Two modes: 'z3' (terms over the reals) and 'num' (floats with a tolerance, for replaying a counterexample
against the real code).  Matrices are lists of columns, M[c][r], as in GLSL/GLM."""
import math, itertools

_UFS = None
_EX = None
_MOD = None
_JOB = None
TOL = 2e-3


def bind(ufs, ex, mod, job):
    global _UFS, _EX, _MOD, _JOB
    _UFS, _EX, _MOD, _JOB = ufs, ex, mod, job


class Num(float):
    """float with tolerant equality, used when a clause is evaluated natively"""

    def _w(self, v):
        return Num(v)

    def __add__(self, o): return Num(float(self) + float(o))
    def __radd__(self, o): return Num(float(o) + float(self))
    def __sub__(self, o): return Num(float(self) - float(o))
    def __rsub__(self, o): return Num(float(o) - float(self))
    def __mul__(self, o): return Num(float(self) * float(o))
    def __rmul__(self, o): return Num(float(o) * float(self))
    def __truediv__(self, o): return Num(float(self) / float(o)) if float(o) != 0 else Num(float('nan'))
    def __rtruediv__(self, o): return Num(float(o) / float(self)) if float(self) != 0 else Num(float('nan'))
    def __neg__(self): return Num(-float(self))

    def __eq__(self, o):
        a, b = float(self), float(o)
        if math.isnan(a) or math.isnan(b):
            return False
        return abs(a - b) <= TOL * (1.0 + max(abs(a), abs(b)))

    def __ne__(self, o): return not self.__eq__(o)
    def __le__(self, o): return float(self) <= float(o) + TOL * (1.0 + max(abs(float(self)), abs(float(o))))
    def __ge__(self, o): return float(self) >= float(o) - TOL * (1.0 + max(abs(float(self)), abs(float(o))))
    def __lt__(self, o): return float(self) < float(o)
    def __gt__(self, o): return float(self) > float(o)
    __hash__ = float.__hash__


def namespace(mode):
    ns = {}
    if mode == 'z3':
        import z3

        def B(x):
            return z3.BoolVal(x) if isinstance(x, bool) else x

        def flat(xs):
            out = []
            for x in xs:
                if isinstance(x, (list, tuple)):
                    out.extend(flat(x))
                else:
                    out.append(B(x))
            return out
        ns['And'] = lambda *xs: z3.And(*flat(xs)) if flat(xs) else z3.BoolVal(True)
        ns['Or'] = lambda *xs: z3.Or(*flat(xs)) if flat(xs) else z3.BoolVal(False)
        ns['Not'] = lambda x: z3.Not(B(x))
        ns['Implies'] = lambda a, b: z3.Implies(B(a), B(b))
        ns['If'] = lambda c, a, b: z3.If(B(c), a, b)
        ns['R'] = lambda x: z3.RealVal(x) if not z3.is_expr(x) else x
        for fn in ('sqrt', 'sin', 'cos', 'tan', 'acos', 'asin', 'atan', 'exp', 'log', 'log2', 'exp2', 'floor'):
            ns[fn] = (lambda fn: (lambda x: _UFS.app(fn, ns['R'](x))))(fn)
        for fn in ('atan2', 'pow'):
            ns[fn] = (lambda fn: (lambda x, y: _UFS.app(fn, ns['R'](x), ns['R'](y))))(fn)
        ns['absr'] = lambda x: z3.If(x >= 0, x, -x)
        ns['fresh'] = lambda name: z3.Real(name)
        ns['flit'] = lambda x, tag='f32': z3.RealVal(_flit(x, tag))   # exact rational of the literal x rounded to float/double
    else:
        def flatn(xs):
            out = []
            for x in xs:
                if isinstance(x, (list, tuple)):
                    out.extend(flatn(x))
                else:
                    out.append(bool(x))
            return out
        ns['And'] = lambda *xs: all(flatn(xs))
        ns['Or'] = lambda *xs: any(flatn(xs))
        ns['Not'] = lambda x: not x
        ns['Implies'] = lambda a, b: (not a) or b
        ns['If'] = lambda c, a, b: a if c else b
        ns['R'] = lambda x: Num(x)

        def safe(f):
            def g(*a):
                try:
                    return Num(f(*[float(x) for x in a]))
                except Exception:
                    return Num(float('nan'))
            return g
        for fn in ('sqrt', 'sin', 'cos', 'tan', 'acos', 'asin', 'atan', 'exp', 'log', 'log2', 'atan2', 'pow', 'floor'):
            ns[fn] = safe(getattr(math, fn))
        ns['exp2'] = safe(lambda x: 2.0 ** x)
        ns['absr'] = lambda x: Num(abs(float(x)))
        ns['fresh'] = lambda name: Num(0.0)
        ns['flit'] = lambda x, tag='f32': Num(float(_flit(x, tag)))
    ns.update({k: v for k, v in globals().items() if k in EXPORT})
    return ns


def _flit(x, tag='f32'):
    """C19: the value of the source literal x (a Python float = the C double literal) after conversion to the element
    type: 'f32' -> nearest binary32 (round to nearest even, as static_cast<float>), 'f64' -> the double itself; exact Fraction"""
    import fractions, struct
    if tag == 'f32':
        x = struct.unpack('<f', struct.pack('<f', x))[0]
    return fractions.Fraction(x)


# ------------------------------------------------------------------ linear algebra (column-major)
def mat(lst, C, R):
    """flat column-major list -> list of C columns of R entries"""
    return [[lst[c * R + r] for r in range(R)] for c in range(C)]


def vec(lst, n=None):
    return list(lst[:n]) if n else list(lst)


def ident(n):
    return [[1 if c == r else 0 for r in range(n)] for c in range(n)]


def ncols(M): return len(M)
def nrows(M): return len(M[0])


def matmul(A, B):
    """(A*B)[c][r] = sum_k A[k][r] * B[c][k]"""
    K = ncols(A)
    assert nrows(B) == K
    return [[sum((A[k][r] * B[c][k] for k in range(1, K)), A[0][r] * B[c][0]) for r in range(nrows(A))] for c in range(ncols(B))]


def matvec(A, v):
    """(A*v)[r] = sum_k A[k][r] * v[k]"""
    return [sum((A[k][r] * v[k] for k in range(1, ncols(A))), A[0][r] * v[0]) for r in range(nrows(A))]


def vecmat(v, A):
    """(v*A)[c] = sum_r v[r] * A[c][r]"""
    return [sum((v[r] * A[c][r] for r in range(1, nrows(A))), v[0] * A[c][0]) for c in range(ncols(A))]


def transpose(A):
    return [[A[c][r] for c in range(ncols(A))] for r in range(nrows(A))]


def madd(A, B): return [[A[c][r] + B[c][r] for r in range(nrows(A))] for c in range(ncols(A))]
def msub(A, B): return [[A[c][r] - B[c][r] for r in range(nrows(A))] for c in range(ncols(A))]
def mscale(A, s): return [[A[c][r] * s for r in range(nrows(A))] for c in range(ncols(A))]


def det(M):
    """Leibniz expansion: sum over permutations of sign * prod M[p(i)][i]"""
    n = ncols(M)
    total = 0
    for perm in itertools.permutations(range(n)):
        sign = 1
        for i in range(n):
            for j in range(i + 1, n):
                if perm[i] > perm[j]:
                    sign = -sign
        term = sign
        for i in range(n):
            term = term * M[perm[i]][i]
        total = total + term
    return total


def eqm(A, B):
    return [A[c][r] == B[c][r] for c in range(ncols(A)) for r in range(nrows(A))]


def eqv(a, b):
    return [x == y for x, y in zip(a, b)]


def dot(a, b):
    return sum((x * y for x, y in zip(a[1:], b[1:])), a[0] * b[0])


def cross(a, b):
    return [a[1] * b[2] - a[2] * b[1], a[2] * b[0] - a[0] * b[2], a[0] * b[1] - a[1] * b[0]]


def norm2(a): return dot(a, a)
def vadd(a, b): return [x + y for x, y in zip(a, b)]
def vsub(a, b): return [x - y for x, y in zip(a, b)]
def vscale(a, s): return [x * s for x in a]
def vneg(a): return [-x for x in a]


# quaternions as (w, x, y, z)
def qmul(p, q):
    pw, px, py, pz = p
    qw, qx, qy, qz = q
    return [pw * qw - px * qx - py * qy - pz * qz,
            pw * qx + px * qw + py * qz - pz * qy,
            pw * qy + py * qw + pz * qx - px * qz,
            pw * qz + pz * qw + px * qy - py * qx]


def qconj(q): return [q[0], -q[1], -q[2], -q[3]]


def qrot_matrix(q):
    """3x3 rotation matrix (columns) of the unit quaternion (w,x,y,z): textbook formula"""
    w, x, y, z = q
    return [[1 - 2 * (y * y + z * z), 2 * (x * y + w * z), 2 * (x * z - w * y)],
            [2 * (x * y - w * z), 1 - 2 * (x * x + z * z), 2 * (y * z + w * x)],
            [2 * (x * z + w * y), 2 * (y * z - w * x), 1 - 2 * (x * x + y * y)]]


def rodrigues(c, s, n):
    """rotation matrix (columns) by angle with cos=c, sin=s about the UNIT axis n: I*c + (1-c) n n^T + s [n]x"""
    x, y, z = n
    t = 1 - c
    return [[c + t * x * x, t * x * y + s * z, t * x * z - s * y],
            [t * x * y - s * z, c + t * y * y, t * y * z + s * x],
            [t * x * z + s * y, t * y * z - s * x, c + t * z * z]]


def embed4(M3):
    """3x3 -> 4x4 with identity padding"""
    out = ident(4)
    for c in range(3):
        for r in range(3):
            out[c][r] = M3[c][r]
    return out


def rotX(c, s): return [[1, 0, 0], [0, c, s], [0, -s, c]]
def rotY(c, s): return [[c, 0, -s], [0, 1, 0], [s, 0, c]]
def rotZ(c, s): return [[c, s, 0], [-s, c, 0], [0, 0, 1]]


def hom(M, p):
    """apply 4x4 M to point p=(x,y,z) -> (x', y', z', w')"""
    return matvec(M, [p[0], p[1], p[2], 1])


# ---- C09: elementary affine matrices (homogeneous coordinates, column vectors, lists of columns)
def vdiv(a, s): return [x / s for x in a]


def translation(v):
    """(n+1)x(n+1) identity whose last column is (v, 1): p -> p + v"""
    n = len(v)
    out = ident(n + 1)
    for r in range(n):
        out[n][r] = v[r]
    return out


def diag(d):
    """diagonal matrix diag(d0, d1, ...)"""
    return [[d[c] if c == r else 0 for r in range(len(d))] for c in range(len(d))]


def shear_elem(n, row, col, k):
    """elementary shear I + k * e_row e_col^T (n x n): coordinate `row` becomes x_row + k * x_col, all others unchanged"""
    out = ident(n)
    out[col][row] = k
    return out


def shear4_doc(p, lx, ly, lz):
    """the 4x4 matrix printed in the documentation of glm::shear (ext/matrix_transform.hpp), row by row:
       [1    l_xy l_xz -(l_xy+l_xz)*p_x]
       [l_yx 1    l_yz -(l_yx+l_yz)*p_y]
       [l_zx l_zy 1    -(l_zx+l_zy)*p_z]
       [0    0    0    1               ]   with l_x = (l_xy, l_xz), l_y = (l_yx, l_yz), l_z = (l_zx, l_zy)"""
    rows = [[1, lx[0], lx[1], -(lx[0] + lx[1]) * p[0]],
            [ly[0], 1, ly[1], -(ly[0] + ly[1]) * p[1]],
            [lz[0], lz[1], 1, -(lz[0] + lz[1]) * p[2]],
            [0, 0, 0, 1]]
    return transpose(rows)


def block(M, n):
    """upper-left n x n block"""
    return [[M[c][r] for r in range(n)] for c in range(n)]


def last_row(p):
    """n x n identity whose last ROW is p (perspective partition of a homogeneous matrix)"""
    n = len(p)
    out = ident(n)
    for c in range(n):
        out[c][n - 1] = p[c]
    return out


def mprod(*Ms):
    """left-to-right matrix product M0 * M1 * ..."""
    out = Ms[0]
    for M in Ms[1:]:
        out = matmul(out, M)
    return out


def ndc_is(c, nx, ny, nz):
    """clip-space point c=(x,y,z,w) is in front of the eye (w > 0) and its perspective divide c.xyz/c.w is the
    normalised device coordinate (nx,ny,nz); stated without division"""
    return [c[3] > 0, c[0] == nx * c[3], c[1] == ny * c[3], c[2] == nz * c[3]]


def proportional(a, b):
    """vectors a and b are linearly dependent: every 2x2 minor a[i]*b[j] - a[j]*b[i] vanishes"""
    return [a[i] * b[j] == a[j] * b[i] for i in range(len(a)) for j in range(i + 1, len(a))]


def minors3(a, b, c):
    """C13: vectors a, b, c (same length n >= 3) are linearly dependent, i.e. c lies in the plane spanned by a and b when
    those are independent: every 3x3 minor of the 3 x n matrix with rows a, b, c vanishes"""
    n = len(a)
    return [det([[a[i], b[i], c[i]], [a[j], b[j], c[j]], [a[k], b[k], c[k]]]) == 0
            for i in range(n) for j in range(i + 1, n) for k in range(j + 1, n)]


def setcol(M, j, v):
    """M with column j replaced by v (Cramer's rule: M x = v  =>  x[j] * det(M) == det(setcol(M, j, v)))"""
    return [list(v) if c == j else list(M[c]) for c in range(ncols(M))]


EXPORT = ['mat', 'vec', 'ident', 'matmul', 'matvec', 'vecmat', 'transpose', 'madd', 'msub', 'mscale', 'det', 'eqm', 'eqv',
          'dot', 'cross', 'norm2', 'vadd', 'vsub', 'vscale', 'vneg', 'qmul', 'qconj', 'qrot_matrix', 'rodrigues', 'embed4',
          'rotX', 'rotY', 'rotZ', 'hom', 'ndc_is', 'proportional', 'setcol', 'ncols', 'nrows',
          'vdiv', 'translation', 'diag', 'shear_elem', 'shear4_doc', 'block', 'last_row', 'mprod', 'minors3', 'flit']
