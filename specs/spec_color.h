/* spec_color.h - specification vocabulary for property C19 (colour spaces).  Plain C, also valid C++, never includes
 * GLM, needs only ll2c_rt.h.  Every name carries the prefix colspec_.
 *
 * YCoCg-R (Malvar & Sullivan, "YCoCg-R: A Color Space with RGB Reversibility and Low Dynamic Range", JVT-I014, 2003),
 * forward lifting steps over the integers (floor = rounding towards minus infinity):
 *      Co = R - B;   t = B + floor(Co / 2);   Cg = G - t;   Y = t + floor(Cg / 2)
 * which gives  t = floor((R + B) / 2),  Y = floor((G + t) / 2).  Written here on mathematical integers held in s64
 * (the callers restrict the operands so that nothing overflows), with the floor spelled out, no shifts. */
#ifndef SPEC_COLOR_H
#define SPEC_COLOR_H

static inline s64 colspec_floor_half(s64 x) { return x >= 0 ? x / 2 : -((-x + 1) / 2); }
static inline s64 colspec_ycocgr_co(s64 r, s64 g, s64 b) { (void)g; return r - b; }
static inline s64 colspec_ycocgr_t(s64 r, s64 g, s64 b) { (void)g; return colspec_floor_half(r + b); }
static inline s64 colspec_ycocgr_cg(s64 r, s64 g, s64 b) { return g - colspec_ycocgr_t(r, g, b); }
static inline s64 colspec_ycocgr_y(s64 r, s64 g, s64 b) { return colspec_floor_half(g + colspec_ycocgr_t(r, g, b)); }

#endif
