"""C12 - geometric functions satisfy Euclidean identities on vec2/3/4 (kind R over the reals + kind F for bit-exact branch facts).

Clauses come from proposed/C12_property.json, the GLSL wording quoted in glm/geometric.hpp and textbook definitions
(Gram-Schmidt, Snell's law in vector form, closest point of a segment = minimiser of the distance); the vocabulary is
specs/rspec.py (dot, cross, norm2, det ...).  Nothing is taken from the .inl files.
"""
from engine import Prop
from shimgen import *

P = Prop('C12', 'geometric functions satisfy Euclidean identities on vec2/3/4')
d = P.driver('c12', ['<glm/glm.hpp>', '<glm/gtx/norm.hpp>', '<glm/gtx/projection.hpp>', '<glm/gtx/perpendicular.hpp>',
                     '<glm/gtx/orthonormalize.hpp>', '<glm/gtx/vector_angle.hpp>', '<glm/gtx/closest_point.hpp>',
                     '<glm/gtx/normal.hpp>', '<glm/gtx/exterior_product.hpp>', '<glm/gtx/mixed_product.hpp>'])
GEO = 'glm/detail/func_geometric.inl'
rcontracts = []
fcontracts = []

# Measured on this machine with VERIF_JOBS=8, load ~20 (z3 5.1 QF_NRA; CBMC 6.11 cadical/minisat race).  > ~25 s: claimed only in the thorough tier.
THOROUGH = set()
for _t in ('f32', 'f64'):
    THOROUGH |= {'glm_dot_bits_v3_' + _t, 'glm_dot_bits_v4_' + _t, 'glm_triangleNormal_' + _t, 'glm_angle_v4_' + _t, 'glm_orthonormalize_vec_' + _t,
                 'glm_orientedAngle3_' + _t, 'glm_orientedAngle3_sign_' + _t, 'glm_closestPointOnLine_inside_orth_3_' + _t, 'glm_refract_unit_v3_' + _t, 'glm_refract_snell_v4_' + _t}
THOROUGH |= {'glm_dot_bits_v2_f32', 'glm_dot_bits_v2_f64', 'glm_refract_tir_v3_f64', 'glm_refract_tir_v4_f64', 'glm_refract_bits_v2_f64',
             'glm_refract_bits_v3_f64', 'glm_refract_bits_v4_f64', 'glm_faceforward_bits_v4_f64'}
# Contracts the portfolio could not decide (UNKNOWN / timeout): not claimed, listed in P.not_covered with the reason.
LEFT_OUT = {}
for _t in ('f32', 'f64'):
    LEFT_OUT['glm_refract_unit_v4_' + _t] = ('|refract(I,N,eta)| == 1 for unit I, N in 4 dimensions: z3 default + nlsat unknown at timeout=300 '
                                            '(it follows on paper from the discharged clauses snell_sines and snell_tangential_part_scaled_by_eta of glm_refract_snell_v4)')
    LEFT_OUT['glm_orthonormalize_mat_' + _t] = ('orthonormalize(mat3): columns orthonormal / Gram-Schmidt spans / orientation: z3 unknown at timeout=120 (~480 s per run), '
                                               'including the generated obligations that the second and third normalisation do not divide by zero when det != 0; '
                                               'the Groebner fallback does not apply (inequality hypotheses)')
    LEFT_OUT['glm_orientedAngle3_sin2_' + _t] = ('orientedAngle(x,y,ref): sin(result)^2 == |cross(x,y)|^2: z3 unknown at timeout=300 '
                                                '(cos(result) == dot, result == +-acos(..) with the sign rule, and sin(result)*dot(ref,cross) >= 0 are discharged)')
    LEFT_OUT['glm_dot_bits_v%d_f64' % (3 if _t == 'f32' else 4)] = (
        'bit-exact evaluation order of dot(dvec3/dvec4): the SAT race needs > 800 s (two copies of the double adders); the float instantiations '
        'glm_dot_bits_v3_f32 / v4_f32 are discharged in the thorough tier, dvec2 too')
LEFT_OUT['glm_closestPointOnLine_inside_orth_3_f64'] = (
    'closestPointOnLine(dvec3), projection strictly inside: (point - result) orthogonal to the segment: z3 unknown at timeout=600 for the double '
    'instantiation only (the float one is discharged in 26 s; the clause follows on paper from the discharged result == a + t (b - a))')
for _t in ('f32', 'f64'):
    for _L in (2, 3):
        LEFT_OUT['glm_closestPointOnLine_inside_min_%d_%s' % (_L, _t)] = (
            'closestPointOnLine, projection strictly inside: "no point of the segment is closer" (and its Pythagoras certificate): z3 unknown at '
            'timeout=300; discharged instead: the result is the foot of the perpendicular (residual orthogonal to the segment, result == a + t (b - a)); '
            'minimality IS discharged for the two clamped cases t <= 0 and t >= 1')


def R(fn, real, **kw):
    rcontracts.append((fn, real, kw))


def F(fn, real, **kw):
    fcontracts.append((fn, real, kw))


def alias(fn, new):
    """the same shim under a second name, so that a family of clauses gets its own contract (own requires, own verdict)"""
    sh = d.shims[fn]
    d.shim(new, sh.ret, sh.ins, sh.body, outs=sh.outs)
    return new


def names(ins):
    return [nm for _, nm in ins]


def V(ins):
    """python list expression of a vector argument"""
    return '[%s]' % ', '.join(names(ins))


def clampr(x):
    return 'If(%s < -1, R(-1), If(%s > 1, R(1), %s))' % (x, x, x)


def par(a, b, L):
    """a parallel to b: all 2x2 minors vanish"""
    return 'And(%s)' % ', '.join('%s[%d] * %s[%d] == %s[%d] * %s[%d]' % (a, i, b, j, a, j, b, i) for i in range(L) for j in range(i + 1, L))


for tag in ('f32', 'f64'):
    T = cpp_type(tag)
    # ------------------------------------------------------------------ scalar (genType) overloads
    sx, sy, sz = [(T, 'x')], [(T, 'x'), (T, 'y')], [(T, 'x'), (T, 'y'), (T, 'z')]
    d.shim('glm_dot_s_' + tag, T, sy, 'return glm::dot(x, y);')
    R('glm_dot_s_' + tag, 'glm::dot(T, T)  ' + GEO, ensures=[('product', 'RESULT == x * y')])
    d.shim('glm_length_s_' + tag, T, sx, 'return glm::length(x);')
    R('glm_length_s_' + tag, 'glm::length(genType)  ' + GEO,
      ensures=[('nonnegative', 'RESULT >= 0'), ('square_is_dot', 'RESULT * RESULT == x * x'), ('is_abs', 'RESULT == absr(x)')])
    d.shim('glm_distance_s_' + tag, T, sy, 'return glm::distance(x, y);')
    R('glm_distance_s_' + tag, 'glm::distance(genType, genType)  ' + GEO,
      ensures=[('nonnegative', 'RESULT >= 0'), ('square_is_norm2_of_difference', 'RESULT * RESULT == (x - y) * (x - y)')])
    sN = [(T, 'n'), (T, 'i'), (T, 'nref')]
    d.shim('glm_faceforward_s_' + tag, T, sN, 'return glm::faceforward(n, i, nref);')
    R('glm_faceforward_s_' + tag, 'glm::faceforward(genType)  ' + GEO,
      ensures=[('n_if_dot_negative_else_minus_n', 'RESULT == If(nref * i < 0, n, -n)')])
    sI = [(T, 'i'), (T, 'n')]
    d.shim('glm_reflect_s_' + tag, T, sI, 'return glm::reflect(i, n);')
    R('glm_reflect_s_' + tag, 'glm::reflect(genType)  ' + GEO,
      ensures=[('formula', 'RESULT == i - 2 * (n * i) * n'),
               ('length_preserved_for_unit_n', 'Implies(n * n == 1, RESULT * RESULT == i * i)')])
    d.shim('glm_reflect_twice_s_' + tag, T, sI, 'return glm::reflect(glm::reflect(i, n), n);')
    R('glm_reflect_twice_s_' + tag, 'glm::reflect(reflect(I,N),N) (genType)  ' + GEO,
      requires=[('n_unit', 'n * n == 1')], ensures=[('involution', 'RESULT == i')])
    sE = [(T, 'i'), (T, 'n'), (T, 'eta')]
    d.shim('glm_refract_s_' + tag, T, sE, 'return glm::refract(i, n, eta);')
    K = '(1 - eta * eta * (1 - (n * i) * (n * i)))'
    R('glm_refract_s_' + tag, 'glm::refract(genType)  ' + GEO,
      ensures=[('formula_when_k_nonnegative', 'Implies(%s >= 0, RESULT == eta * i - (eta * (n * i) + sqrt(%s)) * n)' % (K, K)),
               ('zero_when_k_negative', 'Implies(%s < 0, RESULT == 0)' % K)])
    d.shim('glm_length2_s_' + tag, T, sx, 'return glm::length2(x);')
    R('glm_length2_s_' + tag, 'glm::length2(genType)  glm/gtx/norm.inl', ensures=[('square', 'RESULT == x * x')])
    d.shim('glm_distance2_s_' + tag, T, sy, 'return glm::distance2(x, y);')
    R('glm_distance2_s_' + tag, 'glm::distance2(T, T)  glm/gtx/norm.inl', ensures=[('square_of_difference', 'RESULT == (x - y) * (x - y)')])
    d.shim('glm_angle_s_' + tag, T, sy, 'return glm::angle(x, y);')
    R('glm_angle_s_' + tag, 'glm::angle(genType, genType)  glm/gtx/vector_angle.inl',
      ensures=[('acos_of_clamped_dot', 'RESULT == acos(%s)' % clampr('(x * y)')),
               ('cos_of_result_is_dot_for_unit_arguments', 'Implies(And(x * x == 1, y * y == 1), cos(RESULT) == x * y)')])

    # ------------------------------------------------------------------ vector overloads
    for L in (2, 3, 4):
        a, b, c = vec_ins(L, tag, 'a'), vec_ins(L, tag, 'b'), vec_ins(L, tag, 'c')
        A, B, C = V(a), V(b), V(c)
        mka, mkb, mkc = vec_make(L, tag, 'a'), vec_make(L, tag, 'b'), vec_make(L, tag, 'c')
        sfx = 'v%d_%s' % (L, tag)
        vo = [(T, 'out', L)]
        # dot
        d.shim('glm_dot_' + sfx, T, a + b, 'return glm::dot(%s, %s);' % (mka, mkb))
        R('glm_dot_' + sfx, 'glm::dot(vec%d)  compute_dot  %s' % (L, GEO),
          ensures=[('sum_of_products', 'RESULT == dot(%s, %s)' % (A, B)), ('symmetric', 'RESULT == dot(%s, %s)' % (B, A)),
                   ('cauchy_schwarz', 'RESULT * RESULT <= norm2(%s) * norm2(%s)' % (A, B))])
        # length
        d.shim('glm_length_' + sfx, T, a, 'return glm::length(%s);' % mka)
        R('glm_length_' + sfx, 'glm::length(vec%d)  compute_length  %s' % (L, GEO),
          ensures=[('nonnegative', 'RESULT >= 0'), ('square_is_dot_v_v', 'RESULT * RESULT == norm2(%s)' % A),
                   ('is_sqrt_of_dot_v_v', 'RESULT == sqrt(norm2(%s))' % A),
                   ('zero_only_for_zero_vector', 'Implies(RESULT == 0, And(%s))' % ', '.join('%s == 0' % n for n in names(a)))])
        # distance
        d.shim('glm_distance_' + sfx, T, a + b, 'return glm::distance(%s, %s);' % (mka, mkb))
        R('glm_distance_' + sfx, 'glm::distance(vec%d)  compute_distance  %s' % (L, GEO),
          ensures=[('nonnegative', 'RESULT >= 0'), ('square_is_norm2_of_difference', 'RESULT * RESULT == norm2(vsub(%s, %s))' % (A, B))])
        d.shim('glm_distance_vs_length_' + sfx, 'void', a + b,
               'out[0] = glm::distance(%s, %s); out[1] = glm::length(%s - %s); out[2] = glm::distance(%s, %s);' % (mka, mkb, mka, mkb, mkb, mka),
               outs=[(T, 'out', 3)])
        R('glm_distance_vs_length_' + sfx, 'glm::distance(a,b) vs glm::length(a-b) (vec%d)  %s' % (L, GEO),
          ensures=[('distance_is_length_of_difference', 'out[0] == out[1]'), ('symmetric', 'out[0] == out[2]')])
        # normalize
        d.shim('glm_normalize_' + sfx, 'void', a, 'auto r = glm::normalize(%s); %s' % (mka, vec_store(L, 'r')), outs=vo)
        R('glm_normalize_' + sfx, 'glm::normalize(vec%d)  compute_normalize  %s' % (L, GEO),
          requires=[('nonzero', 'norm2(%s) != 0' % A)],
          ensures=[('unit_length', 'norm2(out) == 1'), ('parallel_to_v', par('out', A, L)), ('same_direction', 'dot(out, %s) > 0' % A),
                   ('is_v_over_length', 'And(eqv(out, vscale(%s, 1 / sqrt(norm2(%s)))))' % (A, A))])
        # faceforward(N, I, Nref)
        d.shim('glm_faceforward_' + sfx, 'void', a + b + c, 'auto r = glm::faceforward(%s, %s, %s); %s' % (mka, mkb, mkc, vec_store(L, 'r')), outs=vo)
        R('glm_faceforward_' + sfx, 'glm::faceforward(vec%d)  compute_faceforward  %s' % (L, GEO),
          ensures=[('n_if_dot_nref_i_negative_else_minus_n', 'If(dot(%s, %s) < 0, And(eqv(out, %s)), And(eqv(out, vneg(%s))))' % (C, B, A, A))])
        # reflect(I, N): a = I, b = N
        d.shim('glm_reflect_' + sfx, 'void', a + b, 'auto r = glm::reflect(%s, %s); %s' % (mka, mkb, vec_store(L, 'r')), outs=vo)
        R('glm_reflect_' + sfx, 'glm::reflect(vec%d)  compute_reflect  %s' % (L, GEO),
          ensures=[('formula', 'And(eqv(out, vsub(%s, vscale(%s, 2 * dot(%s, %s)))))' % (A, B, B, A)),
                   ('length_preserved_for_unit_n', 'Implies(norm2(%s) == 1, norm2(out) == norm2(%s))' % (B, A)),
                   ('normal_component_flipped_for_unit_n', 'Implies(norm2(%s) == 1, dot(out, %s) == -dot(%s, %s))' % (B, B, A, B))])
        d.shim('glm_reflect_twice_' + sfx, 'void', a + b, 'auto r = glm::reflect(glm::reflect(%s, %s), %s); %s' % (mka, mkb, mkb, vec_store(L, 'r')), outs=vo)
        R('glm_reflect_twice_' + sfx, 'glm::reflect(reflect(I,N),N) (vec%d)  %s' % (L, GEO),
          requires=[('n_unit', 'norm2(%s) == 1' % B)], ensures=[('involution', 'And(eqv(out, %s))' % A)])
        # refract(I, N, eta)
        e = [(T, 'eta')]
        d.shim('glm_refract_' + sfx, 'void', a + b + e, 'auto r = glm::refract(%s, %s, eta); %s' % (mka, mkb, vec_store(L, 'r')), outs=vo)
        D = 'dot(%s, %s)' % (B, A)
        K = '(1 - eta * eta * (1 - %s * %s))' % (D, D)
        UNIT = 'And(norm2(%s) == 1, norm2(%s) == 1, %s >= 0)' % (A, B, K)
        R('glm_refract_' + sfx, 'glm::refract(vec%d)  compute_refract  %s' % (L, GEO),
          ensures=[('formula_when_k_nonnegative', 'Implies(%s >= 0, And(eqv(out, vsub(vscale(%s, eta), vscale(%s, eta * %s + sqrt(%s))))))' % (K, A, B, D, K)),
                   ('zero_vector_when_k_negative', 'Implies(%s < 0, And(%s))' % (K, ', '.join('out[%d] == 0' % i for i in range(L))))])
        UNITR = [('i_unit', 'norm2(%s) == 1' % A), ('n_unit', 'norm2(%s) == 1' % B), ('no_total_reflection', '%s >= 0' % K)]
        R(alias('glm_refract_' + sfx, 'glm_refract_snell_' + sfx), 'glm::refract(vec%d)  Snell\'s law  compute_refract  %s' % (L, GEO), requires=UNITR,
          ensures=[('snell_sines', 'eta * eta * (1 - %s * %s) == 1 - dot(%s, out) * dot(%s, out)' % (D, D, B, B)),
                   ('snell_tangential_part_scaled_by_eta', 'And(eqv(vsub(out, vscale(%s, dot(%s, out))), vscale(vsub(%s, vscale(%s, %s)), eta)))' % (B, B, A, B, D)),
                   ('transmitted_side', 'dot(%s, out) <= 0' % B)], timeout=300)
        R(alias('glm_refract_' + sfx, 'glm_refract_unit_' + sfx), 'glm::refract(vec%d)  unit result  compute_refract  %s' % (L, GEO), requires=UNITR,
          ensures=[('unit_length', 'norm2(out) == 1')], timeout=300)
        # gtx/norm: length2, distance2
        d.shim('glm_length2_' + sfx, T, a, 'return glm::length2(%s);' % mka)
        R('glm_length2_' + sfx, 'glm::length2(vec%d)  glm/gtx/norm.inl' % L, ensures=[('is_dot_v_v', 'RESULT == dot(%s, %s)' % (A, A))])
        d.shim('glm_distance2_' + sfx, T, a + b, 'return glm::distance2(%s, %s);' % (mka, mkb))
        R('glm_distance2_' + sfx, 'glm::distance2(vec%d)  glm/gtx/norm.inl' % L,
          ensures=[('is_norm2_of_difference', 'RESULT == norm2(vsub(%s, %s))' % (A, B))])
        d.shim('glm_length2_vs_length_' + sfx, 'void', a, 'out[0] = glm::length2(%s); out[1] = glm::length(%s);' % (mka, mka), outs=[(T, 'out', 2)])
        R('glm_length2_vs_length_' + sfx, 'glm::length2(v) vs glm::length(v) (vec%d)  glm/gtx/norm.inl' % L,
          ensures=[('length2_is_length_squared', 'out[0] == out[1] * out[1]')])
        # gtx/projection, gtx/perpendicular: proj(x, Normal), perp(x, Normal); a = x, b = Normal
        d.shim('glm_proj_' + sfx, 'void', a + b, 'auto r = glm::proj(%s, %s); %s' % (mka, mkb, vec_store(L, 'r')), outs=vo)
        R('glm_proj_' + sfx, 'glm::proj(vec%d)  glm/gtx/projection.inl' % L,
          requires=[('normal_nonzero', 'norm2(%s) != 0' % B)],
          ensures=[('formula', 'And(eqv(out, vscale(%s, dot(%s, %s) / dot(%s, %s))))' % (B, A, B, B, B)),
                   ('parallel_to_normal', par('out', B, L)),
                   ('residual_orthogonal_to_normal', 'dot(vsub(%s, out), %s) == 0' % (A, B))])
        d.shim('glm_perp_' + sfx, 'void', a + b, 'auto r = glm::perp(%s, %s); auto p = glm::proj(%s, %s); %s %s' % (
            mka, mkb, mka, mkb, vec_store(L, 'r'), vec_store(L, 'p', base=L)), outs=[(T, 'out', 2 * L)])
        R('glm_perp_' + sfx, 'glm::perp(vec%d)  glm/gtx/perpendicular.inl' % L,
          requires=[('normal_nonzero', 'norm2(%s) != 0' % B)],
          ensures=[('orthogonal_to_normal', 'dot(out[:%d], %s) == 0' % (L, B)),
                   ('is_x_minus_proj', 'And(eqv(out[:%d], vsub(%s, out[%d:])))' % (L, A, L)),
                   ('formula', 'And(eqv(out[:%d], vsub(%s, vscale(%s, dot(%s, %s) / dot(%s, %s)))))' % (L, A, B, A, B, B, B))])
        # gtx/vector_angle: angle
        d.shim('glm_angle_' + sfx, T, a + b, 'return glm::angle(%s, %s);' % (mka, mkb))
        UN = [('x_unit', 'norm2(%s) == 1' % A), ('y_unit', 'norm2(%s) == 1' % B),
              ('lemma_cauchy_schwarz', 'dot(%s, %s) * dot(%s, %s) <= norm2(%s) * norm2(%s)' % (A, B, A, B, A, B))]
        R('glm_angle_' + sfx, 'glm::angle(vec%d)  glm/gtx/vector_angle.inl' % L, requires=UN,
          ensures=[('acos_of_clamped_dot', 'RESULT == acos(%s)' % clampr('dot(%s, %s)' % (A, B))),
                   ('cos_of_result_is_dot', 'cos(RESULT) == dot(%s, %s)' % (A, B)),
                   ('sin_of_result_nonnegative', 'sin(RESULT) >= 0'), ('nonnegative', 'RESULT >= 0')])

    # ------------------------------------------------------------------ vec3-only
    a, b, c = vec_ins(3, tag, 'a'), vec_ins(3, tag, 'b'), vec_ins(3, tag, 'c')
    A, B, C = V(a), V(b), V(c)
    mka, mkb, mkc = vec_make(3, tag, 'a'), vec_make(3, tag, 'b'), vec_make(3, tag, 'c')
    vo = [(T, 'out', 3)]
    d.shim('glm_cross_' + tag, 'void', a + b, 'auto r = glm::cross(%s, %s); %s' % (mka, mkb, vec_store(3, 'r')), outs=vo)
    R('glm_cross_' + tag, 'glm::cross(vec3)  compute_cross  ' + GEO,
      ensures=[('determinant_formula', 'And(eqv(out, cross(%s, %s)))' % (A, B)),
               ('orthogonal_to_first', 'dot(out, %s) == 0' % A), ('orthogonal_to_second', 'dot(out, %s) == 0' % B),
               ('lagrange_identity', 'norm2(out) == norm2(%s) * norm2(%s) - dot(%s, %s) * dot(%s, %s)' % (A, B, A, B, A, B)),
               ('lemma_lagrange_identity_of_the_textbook_cross', 'norm2(cross(%s, %s)) == norm2(%s) * norm2(%s) - dot(%s, %s) * dot(%s, %s)' % (A, B, A, B, A, B, A, B)),
               ('right_handed', 'det([%s, %s, out]) >= 0' % (A, B))])
    d.shim('glm_cross_both_orders_' + tag, 'void', a + b, 'auto r = glm::cross(%s, %s); auto s = glm::cross(%s, %s); %s %s' % (
        mka, mkb, mkb, mka, vec_store(3, 'r'), vec_store(3, 's', base=3)), outs=[(T, 'out', 6)])
    R('glm_cross_both_orders_' + tag, 'glm::cross(a,b) vs glm::cross(b,a)  ' + GEO,
      ensures=[('anticommutative', 'And(eqv(out[:3], vneg(out[3:])))')])
    d.shim('glm_mixedProduct_' + tag, T, a + b + c, 'return glm::mixedProduct(%s, %s, %s);' % (mka, mkb, mkc))
    R('glm_mixedProduct_' + tag, 'glm::mixedProduct(vec3)  glm/gtx/mixed_product.inl',
      ensures=[('is_determinant', 'RESULT == det([%s, %s, %s])' % (A, B, C)), ('is_dot_cross', 'RESULT == dot(cross(%s, %s), %s)' % (A, B, C))])
    # gtx/norm l1Norm l2Norm lMaxNorm
    AB = '[%s]' % ', '.join('absr(%s)' % n for n in names(a))
    DAB = '[%s]' % ', '.join('absr(%s - %s)' % (y, x) for x, y in zip(names(a), names(b)))
    for nm, ins, mk, ab, what in (('1', a, mka, AB, 'v'), ('2', a + b, mka + ', ' + mkb, DAB, 'b - a')):
        d.shim('glm_l1Norm%s_%s' % (nm, tag), T, ins, 'return glm::l1Norm(%s);' % mk)
        R('glm_l1Norm%s_%s' % (nm, tag), 'glm::l1Norm(vec3%s)  glm/gtx/norm.inl' % (', vec3' if nm == '2' else ''),
          ensures=[('sum_of_absolute_values', 'RESULT == %s[0] + %s[1] + %s[2]' % (ab, ab, ab))])
        d.shim('glm_lMaxNorm%s_%s' % (nm, tag), T, ins, 'return glm::lMaxNorm(%s);' % mk)
        R('glm_lMaxNorm%s_%s' % (nm, tag), 'glm::lMaxNorm(vec3%s)  glm/gtx/norm.inl' % (', vec3' if nm == '2' else ''),
          ensures=[('upper_bound_of_absolute_values', 'And(RESULT >= %s[0], RESULT >= %s[1], RESULT >= %s[2])' % (ab, ab, ab)),
                   ('attained', 'Or(RESULT == %s[0], RESULT == %s[1], RESULT == %s[2])' % (ab, ab, ab))])
        d.shim('glm_l2Norm%s_%s' % (nm, tag), T, ins, 'return glm::l2Norm(%s);' % mk)
        sq = 'norm2(%s)' % A if nm == '1' else 'norm2(vsub(%s, %s))' % (B, A)
        R('glm_l2Norm%s_%s' % (nm, tag), 'glm::l2Norm(vec3%s)  glm/gtx/norm.inl' % (', vec3' if nm == '2' else ''),
          ensures=[('nonnegative', 'RESULT >= 0'), ('square_is_sum_of_squares', 'RESULT * RESULT == %s' % sq)])
    # gtx/orthonormalize(x, y): Gram-Schmidt step of x against the unit vector y
    d.shim('glm_orthonormalize_vec_' + tag, 'void', a + b, 'auto r = glm::orthonormalize(%s, %s); %s' % (mka, mkb, vec_store(3, 'r')), outs=vo)
    R('glm_orthonormalize_vec_' + tag, 'glm::orthonormalize(vec3 x, vec3 y)  glm/gtx/orthonormalize.inl',
      requires=[('y_unit', 'norm2(%s) == 1' % B), ('x_not_parallel_to_y', 'norm2(cross(%s, %s)) != 0' % (A, B))],
      ensures=[('unit_length', 'norm2(out) == 1'), ('orthogonal_to_y', 'dot(out, %s) == 0' % B),
               ('in_span_of_x_and_y', 'det([out, %s, %s]) == 0' % (A, B)), ('keeps_side_of_x', 'dot(out, %s) > 0' % A)], timeout=300)
    m = mat_ins(3, 3, tag, 'm')
    M = 'mat([%s], 3, 3)' % ', '.join(names(m))
    d.shim('glm_orthonormalize_mat_' + tag, 'void', m, 'auto r = glm::orthonormalize(%s); %s' % (mat_make(3, 3, tag, 'm'), mat_store(3, 3, 'r')), outs=[(T, 'out', 9)])
    O = 'mat(out, 3, 3)'
    R('glm_orthonormalize_mat_' + tag, 'glm::orthonormalize(mat3)  glm/gtx/orthonormalize.inl',
      requires=[('nonsingular', 'det(%s) != 0' % M)],
      ensures=[('columns_orthonormal', 'And(eqm(matmul(transpose(%s), %s), ident(3)))' % (O, O)),
               ('first_column_keeps_direction', 'And(%s, dot(%s[0], %s[0]) > 0)' % (par(O + '[0]', M + '[0]', 3), O, M)),
               ('second_column_in_span_of_first_two', 'And(det([%s[1], %s[0], %s[1]]) == 0, dot(%s[1], %s[1]) > 0)' % (O, M, M, O, M)),
               ('orientation_preserved', 'det(%s) * det(%s) > 0' % (O, M))])
    # gtx/vector_angle orientedAngle(vec3 x, y, ref)
    d.shim('glm_orientedAngle3_' + tag, T, a + b + c, 'return glm::orientedAngle(%s, %s, %s);' % (mka, mkb, mkc))
    ANG = 'acos(%s)' % clampr('dot(%s, %s)' % (A, B))
    PAR = [('cos_is_even', 'cos(-%s) == cos(%s)' % (ANG, ANG)), ('sin_is_odd', 'sin(-%s) == -sin(%s)' % (ANG, ANG))]
    UN = [('x_unit', 'norm2(%s) == 1' % A), ('y_unit', 'norm2(%s) == 1' % B),
          ('lemma_lagrange_identity', 'norm2(cross(%s, %s)) == norm2(%s) * norm2(%s) - dot(%s, %s) * dot(%s, %s)' % (A, B, A, B, A, B, A, B))]
    R('glm_orientedAngle3_' + tag, 'glm::orientedAngle(vec3, vec3, ref)  glm/gtx/vector_angle.inl', requires=UN + PAR,
      ensures=[('cos_of_result_is_dot', 'cos(RESULT) == dot(%s, %s)' % (A, B)),
               ('magnitude_is_unsigned_angle', 'Or(RESULT == %s, RESULT == -%s)' % (ANG, ANG)),
               ('negative_iff_reference_axis_opposes_cross', 'RESULT == If(dot(%s, cross(%s, %s)) < 0, -%s, %s)' % (C, A, B, ANG, ANG))])
    R(alias('glm_orientedAngle3_' + tag, 'glm_orientedAngle3_sign_' + tag), 'glm::orientedAngle(vec3, vec3, ref)  sign of the sine  glm/gtx/vector_angle.inl', requires=UN + PAR,
      ensures=[('sign_follows_reference_axis', 'sin(RESULT) * dot(%s, cross(%s, %s)) >= 0' % (C, A, B))], timeout=300)
    R(alias('glm_orientedAngle3_' + tag, 'glm_orientedAngle3_sin2_' + tag), 'glm::orientedAngle(vec3, vec3, ref)  sine  glm/gtx/vector_angle.inl', requires=UN + PAR,
      ensures=[('sin_squared_is_norm2_of_cross', 'sin(RESULT) * sin(RESULT) == norm2(cross(%s, %s))' % (A, B))], timeout=300)
    # gtx/normal triangleNormal
    NRM = 'cross(vsub(%s, %s), vsub(%s, %s))' % (B, A, C, A)
    d.shim('glm_triangleNormal_' + tag, 'void', a + b + c, 'auto r = glm::triangleNormal(%s, %s, %s); %s' % (mka, mkb, mkc, vec_store(3, 'r')), outs=vo)
    R('glm_triangleNormal_' + tag, 'glm::triangleNormal(vec3 p1, p2, p3)  glm/gtx/normal.inl',
      requires=[('nondegenerate_triangle', 'norm2(%s) != 0' % NRM)],
      ensures=[('unit_length', 'norm2(out) == 1'),
               ('orthogonal_to_edges', 'And(dot(out, vsub(%s, %s)) == 0, dot(out, vsub(%s, %s)) == 0, dot(out, vsub(%s, %s)) == 0)' % (B, A, C, A, C, B)),
               ('right_hand_rule_p1_p2_p3', 'dot(out, %s) > 0' % NRM)])
    # gtx/closest_point closestPointOnLine(point, a, b): a = point, b = segment start, c = segment end
    for L in (3, 2):
        p, s0, s1 = vec_ins(L, tag, 'p'), vec_ins(L, tag, 'a'), vec_ins(L, tag, 'b')
        Pp, S0, S1 = V(p), V(s0), V(s1)
        d.shim('glm_closestPointOnLine%d_%s' % (L, tag), 'void', p + s0 + s1, 'auto r = glm::closestPointOnLine(%s, %s, %s); %s' % (
            vec_make(L, tag, 'p'), vec_make(L, tag, 'a'), vec_make(L, tag, 'b'), vec_store(L, 'r')), outs=[(T, 'out', L)])
        DIR = 'vsub(%s, %s)' % (S1, S0)
        PD = 'dot(vsub(%s, %s), %s)' % (Pp, S0, DIR)     # (p - a).(b - a); the textbook parameter is t = PD / |b - a|^2
        DD = 'norm2(%s)' % DIR
        base = 'glm_closestPointOnLine%d_%s' % (L, tag)
        real = 'glm::closestPointOnLine(vec%d)  glm/gtx/closest_point.inl' % L
        ND = [('segment_not_degenerate', '%s != 0' % DD)]
        R(base, real, requires=ND,
          ensures=[('on_the_line', par('vsub(out, %s)' % S0, DIR, L)),
                   ('within_the_segment', 'And(dot(vsub(out, %s), %s) >= 0, dot(vsub(out, %s), %s) <= %s)' % (S0, DIR, S0, DIR, DD)),
                   ('clamps_to_a_when_t_le_0', 'Implies(%s <= 0, And(eqv(out, %s)))' % (PD, S0)),
                   ('clamps_to_b_when_t_ge_1', 'Implies(%s >= %s, And(eqv(out, %s)))' % (PD, DD, S1))], timeout=300)
        CLOSER = ('no_point_of_the_segment_is_closer', 'Implies(And(fresh("s") >= 0, fresh("s") <= 1), norm2(vsub(%s, out)) <= norm2(vsub(%s, vadd(%s, vscale(%s, fresh("s"))))))' % (Pp, Pp, S0, DIR))
        INS = ND + [('projection_strictly_inside', 'And(%s > 0, %s < %s)' % (PD, PD, DD))]
        R(alias(base, base.replace('Line', 'Line_inside_')), real + '  (0 < t < 1)', requires=INS,
          ensures=[('is_a_plus_t_times_direction', 'And(eqv(vscale(out, %s), vadd(vscale(%s, %s), vscale(%s, %s))))' % (DD, S0, DD, DIR, PD))], timeout=300)
        R(alias(base, base.replace('Line', 'Line_inside_orth_')), real + '  (0 < t < 1)', requires=INS,
          ensures=[('residual_orthogonal_to_segment', 'dot(vsub(%s, out), %s) == 0' % (Pp, DIR))], timeout=600)
        # Pythagoras: |p - (a + s d)|^2 - |p - out|^2 = (s - t)^2 |d|^2 for every real s (multiplied by |d|^2 > 0): out is the unique minimiser
        R(alias(base, base.replace('Line', 'Line_inside_min_')), real + '  (0 < t < 1) minimality', requires=INS,
          ensures=[('distance_excess_is_a_square', '(norm2(vsub(%s, vadd(%s, vscale(%s, fresh("s"))))) - norm2(vsub(%s, out))) * %s == (fresh("s") * %s - %s) * (fresh("s") * %s - %s)' % (
              Pp, S0, DIR, Pp, DD, DD, PD, DD, PD)), CLOSER], timeout=300)
        R(alias(base, base.replace('Line', 'Line_before_')), real + '  (t <= 0)', requires=ND + [('projection_before_a', '%s <= 0' % PD)], ensures=[CLOSER], timeout=300)
        R(alias(base, base.replace('Line', 'Line_after_')), real + '  (t >= 1)', requires=ND + [('projection_after_b', '%s >= %s' % (PD, DD))], ensures=[CLOSER], timeout=300)
    # ------------------------------------------------------------------ vec2-only
    a, b = vec_ins(2, tag, 'a'), vec_ins(2, tag, 'b')
    A, B = V(a), V(b)
    mka, mkb = vec_make(2, tag, 'a'), vec_make(2, tag, 'b')
    d.shim('glm_cross2_' + tag, T, a + b, 'return glm::cross(%s, %s);' % (mka, mkb))
    R('glm_cross2_' + tag, 'glm::cross(vec2, vec2)  glm/gtx/exterior_product.inl', ensures=[('is_2x2_determinant', 'RESULT == det([%s, %s])' % (A, B))])
    d.shim('glm_orientedAngle2_' + tag, T, a + b, 'return glm::orientedAngle(%s, %s);' % (mka, mkb))
    ANG = 'acos(%s)' % clampr('dot(%s, %s)' % (A, B))
    PAR = [('cos_is_even', 'cos(-%s) == cos(%s)' % (ANG, ANG)), ('sin_is_odd', 'sin(-%s) == -sin(%s)' % (ANG, ANG))]
    UN = [('x_unit', 'norm2(%s) == 1' % A), ('y_unit', 'norm2(%s) == 1' % B)]
    R('glm_orientedAngle2_' + tag, 'glm::orientedAngle(vec2, vec2)  glm/gtx/vector_angle.inl', requires=UN + PAR,
      ensures=[('cos_of_result_is_dot', 'cos(RESULT) == dot(%s, %s)' % (A, B)),
               ('sin_of_result_is_2d_cross_product', 'sin(RESULT) == det([%s, %s])' % (A, B)),
               ('magnitude_is_unsigned_angle', 'Or(RESULT == %s, RESULT == -%s)' % (ANG, ANG))])

# ---------------------------------------------------------------------- kind F: bit-exact branch facts (float, and double where cheap)
for tag, bits, one, ut in (('f32', 'll2c_f32_bits', '1.0f', 'u32'), ('f64', 'll2c_f64_bits', '1.0', 'u64')):
    T = cpp_type(tag)
    SIGN = '0x80000000u' if tag == 'f32' else '0x8000000000000000ull'
    zero = '0.0f' if tag == 'f32' else '0.0'

    def neg_bits(x):
        return '(%s(%s) ^ %s)' % (bits, x, SIGN)

    W = '32' if tag == 'f32' else '64'

    def fm(x, y):
        return 'SPEC_FMUL%s(%s, %s)' % (W, x, y)

    def same(x, y):
        """bitwise equal, any NaN equal to any NaN"""
        return '((%s != %s && %s != %s) || %s(%s) == %s(%s))' % (x, x, y, y, bits, x, bits, y)

    def fdot(xs, ys):
        """GLSL dot in GLM's evaluation order: (x + y) + z, and (x + y) + (z + w) for vec4"""
        ps = [fm(x, y) for x, y in zip(xs, ys)]
        if len(ps) == 4:
            return '((%s + %s) + (%s + %s))' % tuple(ps)
        r = ps[0]
        for q in ps[1:]:
            r = '(%s + %s)' % (r, q)
        return r

    def kexpr(dt):
        """k = 1.0 - eta * eta * (1.0 - dot(N, I) * dot(N, I)) of the GLSL text, every product through the same abstraction as the code"""
        return '(%s - %s)' % (one, fm(fm('eta', 'eta'), '(%s - %s)' % (one, fm(dt, dt))))

    UF = ('fmul', 'sqrt')
    # Two kinds of refract contracts.
    #  *_bits_*: float products and sqrt are abstracted (code and clause alike, SPEC_FMUL) as uninterpreted functions, fmul
    #            commutative: the clause holds for every interpretation, in particular IEEE; a FAILURE may carry inputs that do not
    #            reproduce natively.  SAT/SMT cannot prove two separately encoded IEEE multipliers equivalent (probed: minisat,
    #            cadical, kissat 4.0.1, z3: no answer in 10 CPU minutes for the scalar overload).
    #  *_tir_*:  no abstraction; the clause is restricted to a region in which total internal reflection is certain whatever the
    #            rounding (|dot(N,I)| <= 1/2 and |eta| >= 2 give k <= -2): decidable by SAT, counterexamples are real inputs.
    # scalar overloads
    d.shim('glm_refract_bits_s_' + tag, T, [(T, 'n'), (T, 'i'), (T, 'eta')], 'return glm::refract(i, n, eta);')
    F('glm_refract_bits_s_' + tag, 'glm::refract(genType)  total internal reflection  ' + GEO, uf_float=UF,
      ensures=[('exact_zero_when_float_k_negative', '!(%s < %s) || %s(RESULT) == 0' % (kexpr(fm('n', 'i')), zero, bits))])
    d.shim('glm_refract_tir_s_' + tag, 'void', [(T, 'n'), (T, 'i'), (T, 'eta')], 'out[0] = glm::refract(i, n, eta); out[1] = glm::dot(n, i);', outs=[(T, 'out', 2)])
    REGION = '(out[%d] >= -0.5 && out[%d] <= 0.5 && (eta >= 2 || eta <= -2))'
    F('glm_refract_tir_s_' + tag, 'glm::refract(genType)  certain total internal reflection  ' + GEO,
      ensures=[('exact_zero_when_abs_dot_le_half_and_abs_eta_ge_2', '!%s || %s(out[0]) == 0' % (REGION % (1, 1), bits))])
    d.shim('glm_faceforward_bits_s_' + tag, 'void', [(T, 'nref'), (T, 'i'), (T, 'n')], 'out[0] = glm::faceforward(n, i, nref); out[1] = glm::dot(nref, i);', outs=[(T, 'out', 2)])
    F('glm_faceforward_bits_s_' + tag, 'glm::faceforward(genType)  sign test  ' + GEO,
      ensures=[('n_bitwise_when_float_dot_negative', '!(out[1] < %s) || %s(out[0]) == %s(n)' % (zero, bits, bits)),
               ('minus_n_bitwise_otherwise', '(out[1] < %s) || (n != n ? out[0] != out[0] : %s(out[0]) == %s)' % (zero, bits, neg_bits('n')))])
    d.shim('glm_dot_bits_s_' + tag, T, [(T, 'x'), (T, 'y')], 'return glm::dot(x, y);')
    F('glm_dot_bits_s_' + tag, 'glm::dot(T, T)  bit-exact  ' + GEO, uf_float=('fmul',), ensures=[('is_the_float_product', same('RESULT', fm('x', 'y')))])
    for L in (2, 3, 4):
        vn, vi, vr = vec_ins(L, tag, 'n'), vec_ins(L, tag, 'i'), vec_ins(L, tag, 'r')
        sfx = 'v%d_%s' % (L, tag)
        mkn, mki, mkr = vec_make(L, tag, 'n'), vec_make(L, tag, 'i'), vec_make(L, tag, 'r')
        # dot, bit-exact: the float sum of the float products in the order (x + y) + z  /  (x + y) + (z + w)
        d.shim('glm_dot_bits_' + sfx, T, vn + vi, 'return glm::dot(%s, %s);' % (mkn, mki))
        F('glm_dot_bits_' + sfx, 'glm::dot(vec%d)  bit-exact  compute_dot  %s' % (L, GEO), uf_float=('fmul',),
          ensures=[('is_the_float_sum_of_float_products', same('RESULT', fdot(names(vn), names(vi))))])
        # refract(I, N, eta); out[L] = glm::dot(N, I), merged by clang with the dot inside refract (see below), pinned by glm_dot_bits_*
        d.shim('glm_refract_bits_' + sfx, 'void', vn + vi + [(T, 'eta')], 'auto r = glm::refract(%s, %s, eta); %s out[%d] = glm::dot(%s, %s);' % (
            mki, mkn, vec_store(L, 'r'), L, mkn, mki), outs=[(T, 'out', L + 1)])
        F('glm_refract_bits_' + sfx, 'glm::refract(vec%d)  total internal reflection  compute_refract  %s' % (L, GEO), uf_float=UF,
          ensures=[('exact_zero_vector_when_float_k_negative', '!(%s < %s) || (%s)' % (
              kexpr('out[%d]' % L), zero, ' && '.join('%s(out[%d]) == 0' % (bits, i) for i in range(L))))])
        # The *_tir_* and faceforward shims also store glm::dot of the same arguments: after inlining clang merges it with the dot
        # computed inside refract / faceforward (if it did not, the solver would have to prove two float multipliers equivalent and
        # time out -> UNDECIDED, never a wrong verdict), so the branch condition of the clause is the extracted dot itself, whose
        # bit-exact value is pinned by glm_dot_bits_*.
        d.shim('glm_refract_tir_' + sfx, 'void', vn + vi + [(T, 'eta')], 'auto r = glm::refract(%s, %s, eta); %s out[%d] = glm::dot(%s, %s);' % (
            mki, mkn, vec_store(L, 'r'), L, mkn, mki), outs=[(T, 'out', L + 1)])
        F('glm_refract_tir_' + sfx, 'glm::refract(vec%d)  certain total internal reflection  compute_refract  %s' % (L, GEO),
          ensures=[('exact_zero_vector_when_abs_dot_le_half_and_abs_eta_ge_2', '!%s || (%s)' % (
              REGION % (L, L), ' && '.join('%s(out[%d]) == 0' % (bits, i) for i in range(L))))])
        # faceforward(N, I, Nref); r = Nref
        d.shim('glm_faceforward_bits_' + sfx, 'void', vr + vi + vn, 'auto r = glm::faceforward(%s, %s, %s); %s out[%d] = glm::dot(%s, %s);' % (
            mkn, mki, mkr, vec_store(L, 'r'), L, mkr, mki), outs=[(T, 'out', L + 1)])
        DT = 'out[%d]' % L
        F('glm_faceforward_bits_' + sfx, 'glm::faceforward(vec%d)  sign test  compute_faceforward  %s' % (L, GEO),
          ensures=[('n_bitwise_when_float_dot_negative', '!(%s < %s) || (%s)' % (DT, zero, ' && '.join('%s(out[%d]) == %s(%s)' % (bits, i, bits, n) for i, n in enumerate(names(vn))))),
                   ('minus_n_bitwise_otherwise', '(%s < %s) || (%s)' % (DT, zero, ' && '.join(
                       '(%s != %s ? out[%d] != out[%d] : %s(out[%d]) == %s)' % (n, n, i, i, bits, i, neg_bits(n)) for i, n in enumerate(names(vn)))))])

flat = P.build(d, 'flat', defines=['GLM_ENABLE_EXPERIMENTAL'])
for fn, real, kw in rcontracts:
    if fn in LEFT_OUT:
        continue
    kw.setdefault('timeout', 120)
    kw.setdefault('tier', 'thorough' if fn in THOROUGH else 'quick')
    P.contract(fn, real, kind='R', **kw)
for fn, real, kw in fcontracts:
    if fn in LEFT_OUT:
        continue
    kw.setdefault('timeout', 900 if fn in THOROUGH else 300)
    kw.setdefault('unwind', 2)
    kw.setdefault('backends', ('sat',))
    kw.setdefault('tier', 'thorough' if fn in THOROUGH else 'quick')
    P.contract(fn, real, kind='F', **kw)

# The same identities under the SIMD configuration (aligned vec4 -> glm/simd/geometric.h kernels; C03 re-enforces every contract of this module
# at three ISA levels, here the vec4/float real-arithmetic contracts are kept in this property's own per-change tier at SSE2 and AVX2+FMA, whose
# dot kernels differ: mul + shuffles/adds, and dpps)
import copy as _copy, re as _re
for _isa, _fl in (('sse2', ['-msse2']), ('avx2fma', ['-mavx2', '-mfma'])):
    _sb = P.build(d, 'flat', defines=['GLM_ENABLE_EXPERIMENTAL', 'GLM_FORCE_INTRINSICS', 'GLM_FORCE_DEFAULT_ALIGNED_GENTYPES'], flags=_fl, tag='c12_simd_' + _isa)
    _sb.only = set()
    for _c in list(P.contracts):
        if _c.build == flat.tag and _c.kind == 'R' and _c.tier == 'quick' and _re.search(r'_v4_f32$', _c.fn) and _c.sig is None and not _re.search(r'faceforward|refract', _c.fn):  # those two: bit-level sign tests, compared bitwise in C03
            _c2 = _copy.copy(_c)
            _c2.build = _sb.tag
            _c2.real = '[GLM_FORCE_INTRINSICS, aligned, %s] %s' % (_isa, _c.real)
            _sb.only.add(_c.fn)
            for _u in _c.uses:
                _sb.only.add(_u)
            P.contracts.append(_c2)

# An aligned float vec3 is a __m128 whose 4th lane is not part of the value but is reachable through the public API (vec3(1) / d leaves 1/0 there): the
# geometric functions of a vec3 with finite components must not depend on it.  Padding-lane family shared with C03 (props/padfam.py), here at SSE2 for
# the functions this property names (seeds C03, C12_3: dot(vec3) masking one operand only).
from padfam import add_pad_family
add_pad_family(P, 'c12', {'sse2': ['-msse2']}, ['GLM_FORCE_INTRINSICS', 'GLM_FORCE_DEFAULT_ALIGNED_GENTYPES'],
               only=('dot', 'length', 'length2', 'distance', 'normalize', 'cross', 'reflect', 'faceforward', 'div_then_dot'), quick_isas=('sse2',))

P.level_text = ('over the reals (machine arithmetic treated as mathematical): the real-valued function computed by the code clang '
                'extracts from /repo satisfies the Euclidean identities of the property statement for all real inputs in the stated '
                'domain; plus bit-exact CBMC contracts (all float/double bit patterns) for the branch selection of faceforward, the '
                'exact +0 vector of refract whenever the float k is negative, and the evaluation order of dot')
P.level_note = ('trusted: clang-14 lowering, tools/ll2smt.py symbolic execution, z3 nlsat, sympy polynomial identity / Groebner (only glm_orthonormalize_vec_*), '
                'rspec.py (dot, cross, Leibniz det), the ground axioms of sqrt / sin / cos / acos; for kind F: ll2c (T-checked), CBMC float model; in the '
                '*_bits_* refract/dot contracts float products and sqrt are abstracted, in code and clause alike, by (commutative) uninterpreted '
                'functions: a proof holds for every interpretation, hence for IEEE; in the faceforward/refract F contracts the branch condition is '
                'GLM\'s own dot stored by the same shim (merged by clang with the inlined one) whose value is pinned by glm_dot_bits_*. '
                'R obligations are blind to rounding, overflow/underflow of squared norms, NaN/Inf and cancellation in cross')
P.technique = ('contracts over the reals on mechanically extracted LLVM IR: symbolic execution + z3 QF_NRA / sympy Groebner, '
               'CBMC contracts for bit-exact branch facts')
P.design_ref = 'DESIGN.md sections 5 and 6 C12'
P.assumptions = ['machine arithmetic treated as mathematical (IEEE float/double identified with the reals)',
                 'cos(-t) == cos(t) and sin(-t) == -sin(t) at t = acos(clamp(dot(x,y),-1,1)) (orientedAngle: parity of cos and sin)',
                 'angle / orientedAngle: arguments are unit vectors (documented: "Parameters need to be normalized")',
                 'lemma used as a requires of angle(vecL): Cauchy-Schwarz dot(x,y)^2 <= |x|^2 |y|^2 (valid for all reals; itself discharged as '
                 'obligation glm_dot_vL.cauchy_schwarz)',
                 'lemma used as a requires of orientedAngle(vec3): Lagrange identity |x cross y|^2 == |x|^2 |y|^2 - dot(x,y)^2 (valid for all reals; itself '
                 'discharged as obligation glm_cross.lemma_lagrange_identity_of_the_textbook_cross)',
                 'orthonormalize(x, y): y is a unit vector and x is not parallel to y (the unit-length requirement is NOT documented by GLM; '
                 'for non-unit y the result is not orthogonal to y, see proposed/C12_report.md)',
                 'refract Snell clauses: I and N unit vectors and k >= 0 (GLSL: "the input parameters for the incident vector I and the surface normal N '
                 'must already be normalized")',
                 'normalize / proj / perp / triangleNormal / closestPointOnLine: non-degenerate arguments (v != 0, Normal != 0, non-collinear triangle, a != b)']
P.not_covered = ['float cancellation in cross, rounding of every formula (R is exact-real)',
                 'overflow/underflow of squared norms (excluded by the property domain)',
                 'lxNorm (pow with a run-time exponent: uninterpreted)',
                 'the angle lies in [0, pi]: only cos(result) == dot, sin(result) >= 0 and result >= 0 are provable with an uninterpreted acos',
                 'aligned/SIMD specialisations (func_geometric_simd.inl; not compiled in the default configuration)',
                 'refract, k >= 0 branch bit-exactly (only the real-valued formula, kind R)']
for k, v in sorted(LEFT_OUT.items()):
    P.not_covered.append('%s: %s' % (k, v))
