"""C01 - vector functions/operators equal the scalar overload applied per component.
Relational contracts: the vector instantiation (extracted code) against the scalar overload (extracted code) on
component i; libm calls are uninterpreted functions, so "same call on same bits" is what is proved."""
from engine import Prop
from shimgen import *

P = Prop('C01', 'Vector functions/operators equal the scalar overload applied per component')
INCL = ['<glm/glm.hpp>', '<glm/ext/vector_common.hpp>', '<glm/ext/scalar_common.hpp>', '<glm/ext/vector_reciprocal.hpp>',
        '<glm/ext/scalar_reciprocal.hpp>', '<glm/ext/vector_relational.hpp>', '<glm/ext/scalar_relational.hpp>',
        '<glm/ext/matrix_common.hpp>', '<glm/ext/matrix_relational.hpp>']
drivers = {}
contracts = []


def drv(name):
    if name not in drivers:
        drivers[name] = P.driver('c01_' + name, INCL)
    return drivers[name]


def beq(tag, a, b):
    """identical values: same bit pattern, or both NaN (NaN payload/sign is not part of any property)"""
    if tag == 'f32':
        return '(ll2c_f32_bits(%s) == ll2c_f32_bits(%s) || (%s != %s && %s != %s))' % (a, b, a, a, b, b)
    if tag == 'f64':
        return '(ll2c_f64_bits(%s) == ll2c_f64_bits(%s) || (%s != %s && %s != %s))' % (a, b, a, a, b, b)
    return '%s == %s' % (a, b)


def tier_for(tag, L, Q):
    if Q != 'glm::defaultp':
        return 'thorough'
    return 'quick' if tag in ('f32', 'i32', 'u32', 'bool') else 'thorough'


QUALS = [('glm::defaultp', ''), ('glm::mediump', '_mp'), ('glm::lowp', '_lp')]


def add_fn(group, fname, tags, shapes, rtag=None, real=None, scalar_name=None, quals=None, requires=None, nobits=False):
    """shapes: list of argument-shape strings, e.g. 'v', 'vv', 'vs', 'sv', 'vvv', 'vss', 'vvs', 'ssv'
    ('v' = vector argument, 's' = scalar broadcast).  rtag: result element tag (default same as argument)"""
    d = drv(group)
    for tag in tags:
        T = cpp_type(tag)
        rt = rtag or tag
        RT = cpp_type(rt)
        for shape in shapes:
            n = len(shape)
            names = 'abcd'[:n]
            sname = 'glm_%s_%s_s%d' % (fname, tag, n)
            if sname not in d.shims:
                d.shim(sname, RT, [(T, nm) for nm in names], 'return glm::%s(%s);' % (scalar_name or fname, ', '.join(names)))
            for (Q, qs) in (quals or QUALS[:1]):
                for L in (1, 2, 3, 4):
                    vname = 'glm_%s_%s_%s_v%d%s' % (fname, tag, shape, L, qs)
                    ins = []
                    call_args = []
                    for nm, sh in zip(names, shape):
                        if sh == 'v':
                            ins += vec_ins(L, tag, nm)
                            call_args.append(vec_make(L, tag, nm, Q))
                        else:
                            ins.append((T, nm))
                            call_args.append(nm)
                    d.shim(vname, 'void', ins, 'auto r = glm::%s(%s); %s' % (fname, ', '.join(call_args), vec_store(L, 'r')),
                           outs=[(RT, 'out', L)])
                    ens = []
                    for i in range(L):
                        sargs = ', '.join(('%s%d' % (nm, i)) if sh == 'v' else nm for nm, sh in zip(names, shape))
                        e_ = beq(rt, 'out[%d]' % i, '%s(%s)' % (sname, sargs))
                        if fname in ('fmin', 'fmax', 'fclamp'):
                            # std::fmin/fmax leave the sign of a zero result unspecified for (+0, -0) (C11 F.10.9.2, LLVM minnum):
                            # the vector and scalar overloads nest the calls differently, so a zero result is compared by value
                            e_ = '(%s || (out[%d] == 0 && %s(%s) == 0))' % (e_, i, sname, sargs)
                        ens.append(('comp%d_is_scalar_overload' % i, e_))
                    contracts.append((vname, '%s  glm::%s(%s) on vec<%d,%s,%s> vs scalar overload' % (real or '', fname, shape, L, T, Q.split('::')[1]),
                                      dict(ensures=ens, uses=[sname], tier=tier_for(tag, L, Q), build=group, requires=requires or [])))


FL = ['f32', 'f64']
SI = ['i8', 'i16', 'i32', 'i64']
UI = ['u8', 'u16', 'u32', 'u64']

# ---------------------------------------------------------------- func_common
FC = 'glm/detail/func_common.inl'
for f in ('abs', 'sign', 'floor', 'trunc', 'round', 'roundEven', 'ceil', 'fract'):
    add_fn('common', f, FL, ['v'], real=FC, quals=QUALS if f in ('abs', 'floor') else None)
add_fn('common', 'abs', ['i32', 'i64', 'i16', 'i8'], ['v'], real=FC)
add_fn('common', 'sign', ['i32', 'i64'], ['v'], real=FC)
add_fn('common', 'mod', FL, ['vv', 'vs'], real=FC)
add_fn('common', 'min', FL + ['i32', 'u32'], ['vv', 'vs'], real=FC)
add_fn('common', 'max', FL + ['i32', 'u32'], ['vv', 'vs'], real=FC)
add_fn('common', 'clamp', FL + ['i32', 'u32'], ['vvv', 'vss'], real=FC)
add_fn('common', 'mix', FL, ['vvv', 'vvs'], real=FC)
add_fn('common', 'step', FL, ['vv', 'sv'], real=FC)
add_fn('common', 'smoothstep', FL, ['vvv', 'ssv'], real=FC)
# fma: the vector overload computes a * b + c (two roundings) while the scalar overload calls std::fma (one rounding): the
# property only asks for agreement within rounding for this composite formula, so no bitwise clause is claimed (not_covered)
add_fn('common', 'isnan', FL, ['v'], rtag='bool', real=FC)
add_fn('common', 'isinf', FL, ['v'], rtag='bool', real=FC)
add_fn('common', 'floatBitsToInt', ['f32'], ['v'], rtag='i32', real=FC)
add_fn('common', 'floatBitsToUint', ['f32'], ['v'], rtag='u32', real=FC)
add_fn('common', 'intBitsToFloat', ['i32'], ['v'], rtag='f32', real=FC)
add_fn('common', 'uintBitsToFloat', ['u32'], ['v'], rtag='f32', real=FC)
# ---------------------------------------------------------------- exponential / trigonometric
FE = 'glm/detail/func_exponential.inl'
for f in ('exp', 'log', 'exp2', 'log2', 'sqrt', 'inversesqrt'):
    add_fn('exptrig', f, FL, ['v'], real=FE, quals=QUALS[:2] if f == 'inversesqrt' else None)
add_fn('exptrig', 'pow', FL, ['vv'], real=FE)
FT = 'glm/detail/func_trigonometric.inl'
for f in ('radians', 'degrees', 'sin', 'cos', 'tan', 'asin', 'acos', 'atan', 'sinh', 'cosh', 'tanh', 'asinh', 'acosh', 'atanh'):
    add_fn('exptrig', f, FL, ['v'], real=FT)
add_fn('exptrig', 'atan', FL, ['vv'], real=FT)
for f in ('sec', 'csc', 'cot', 'asec', 'acsc', 'acot', 'sech', 'csch', 'coth', 'asech', 'acsch', 'acoth'):
    add_fn('exptrig', f, ['f32'], ['v'], real='glm/ext/vector_reciprocal.inl')
# ---------------------------------------------------------------- ext/vector_common
EC = 'glm/ext/vector_common.inl'
add_fn('extcommon', 'fmin', FL, ['vv', 'vs', 'vvv', 'vvvv'], real=EC)
add_fn('extcommon', 'fmax', FL, ['vv', 'vs', 'vvv', 'vvvv'], real=EC)
add_fn('extcommon', 'fclamp', FL, ['vvv', 'vss'], real=EC)
add_fn('extcommon', 'min', ['f32', 'i32'], ['vvv', 'vvvv'], real=EC)
add_fn('extcommon', 'max', ['f32', 'i32'], ['vvv', 'vvvv'], real=EC)
for f in ('clamp', 'repeat', 'mirrorClamp', 'mirrorRepeat'):
    add_fn('extcommon', f, ['f32'], ['v'], real=EC)
add_fn('extcommon', 'iround', ['f32'], ['v'], rtag='i32', real=EC)
add_fn('extcommon', 'uround', ['f32'], ['v'], rtag='u32', real=EC)

# ---------------------------------------------------------------- operators (the scalar "overload" is the built-in operator)
TV = {1: 'glm/detail/type_vec1.inl', 2: 'glm/detail/type_vec2.inl', 3: 'glm/detail/type_vec3.inl', 4: 'glm/detail/type_vec4.inl'}


def cexpr_binop(tag, op, a, b):
    if tag in FLOAT_TYPES:
        # same abstraction as the extracted code (uf_float): "the same IEEE operation on the same operands"
        return 'SPEC_F%s%s(%s, %s)' % ({'+': 'ADD', '-': 'SUB', '*': 'MUL', '/': 'DIV'}[op], '32' if tag == 'f32' else '64', a, b)
    cpp, n, sg = INT_TYPES[tag]
    U = 'u%d' % n
    W = 'u%d' % max(n, 32)
    S = 's%d' % max(n, 32)
    sa, sb = '(%s)(s%d)%s' % (S, n, a), '(%s)(s%d)%s' % (S, n, b)
    if op in ('+', '-', '*', '&', '|', '^'):
        return '(%s)((%s)%s %s (%s)%s)' % (U, W, a, op, W, b)
    if op in ('/', '%'):
        # same relational abstraction as the extracted code (integer division/remainder as an uninterpreted function)
        return '(%s)LL2C_UFI(%s%s, %d, (u64)%s, (u64)%s)' % (U, 's' if sg else 'u', 'div' if op == '/' else 'rem', n, a, b)
    if op == '<<':
        return '(%s)((%s)%s << %s)' % (U, W, a, b)
    if op == '>>':
        return '(%s)(%s >> %s)' % (U, sa, b) if sg else '(%s)(%s >> %s)' % (U, a, b)
    raise ValueError(op)


def op_requires(tag, op, bnames):
    if tag in FLOAT_TYPES:
        return []
    cpp, n, sg = INT_TYPES[tag]
    r = []
    if op in ('/', '%'):
        r.append(('divisor_nonzero', ' && '.join('%s != 0' % b for b in bnames)))
    if op in ('<<', '>>'):
        r.append(('shift_count_in_range', ' && '.join('%s < %d' % (b, n) for b in bnames)))
    return r


OPNAME = {'+': 'add', '-': 'sub', '*': 'mul', '/': 'div', '%': 'mod', '&': 'and', '|': 'or', '^': 'xor', '<<': 'shl', '>>': 'shr'}
for tag in ['f32', 'f64', 'i32', 'u32', 'i8', 'u16', 'i64', 'u64']:
    d = drv('ops_' + tag)
    T = cpp_type(tag)
    ops = ['+', '-', '*', '/'] + ([] if tag in FLOAT_TYPES else ['%', '&', '|', '^', '<<', '>>'])
    for op in ops:
        for L in (1, 2, 3, 4):
            for form in ('vv', 'vs', 'sv', 'v1', '1v', 'asg_vv', 'asg_vs'):
                if form in ('v1', '1v') and L == 1:
                    continue
                if form == 'v1' and L == 3 and op == '+':
                    continue  # vec3 + vec1 does not compile (type_vec3.inl operator+=(vec<1,U,Q>) passes a vec1 to compute_vec_add<3>)
                name = 'glm_op_%s_%s_%s_v%d' % (OPNAME[op], tag, form, L)
                if form == 'vv' or form == 'asg_vv':
                    ins = vec_ins(L, tag, 'a') + vec_ins(L, tag, 'b')
                    lhs, rhs = vec_make(L, tag, 'a'), vec_make(L, tag, 'b')
                    A = ['a%d' % i for i in range(L)]
                    B = ['b%d' % i for i in range(L)]
                elif form in ('vs', 'asg_vs'):
                    ins = vec_ins(L, tag, 'a') + [(T, 'b')]
                    lhs, rhs = vec_make(L, tag, 'a'), 'b'
                    A = ['a%d' % i for i in range(L)]
                    B = ['b'] * L
                elif form == 'sv':
                    ins = [(T, 'a')] + vec_ins(L, tag, 'b')
                    lhs, rhs = 'a', vec_make(L, tag, 'b')
                    A = ['a'] * L
                    B = ['b%d' % i for i in range(L)]
                elif form == 'v1':
                    ins = vec_ins(L, tag, 'a') + [(T, 'b')]
                    lhs, rhs = vec_make(L, tag, 'a'), '%s(b)' % vec_t(1, tag)
                    A = ['a%d' % i for i in range(L)]
                    B = ['b'] * L
                else:
                    ins = [(T, 'a')] + vec_ins(L, tag, 'b')
                    lhs, rhs = '%s(a)' % vec_t(1, tag), vec_make(L, tag, 'b')
                    A = ['a'] * L
                    B = ['b%d' % i for i in range(L)]
                if form.startswith('asg'):
                    body = 'auto r = %s; r %s= %s; %s' % (lhs, op, rhs, vec_store(L, 'r'))
                else:
                    body = 'auto r = %s %s %s; %s' % (lhs, op, rhs, vec_store(L, 'r'))
                d.shim(name, 'void', ins, body, outs=[(T, 'out', L)])
                ens = [('comp%d' % i, beq(tag, 'out[%d]' % i, cexpr_binop(tag, op, A[i], B[i]))) for i in range(L)]
                req = op_requires(tag, op, sorted(set(B)))
                quick = tag in ('f32', 'i32', 'u32') and form in ('vv', 'vs', 'sv', 'asg_vv')
                contracts.append((name, '%s  operator%s%s (%s) on vec<%d,%s>' % (TV[L], op, '=' if form.startswith('asg') else '', form, L, T),
                                  dict(ensures=ens, requires=req, tier='quick' if quick else 'thorough', build='ops_' + tag,
                                       backends=('sat',) if op not in ('*', '/', '%') or tag in FLOAT_TYPES else ('z3', 'sat'))))
    # unary minus, bitwise not, ++/--
    for L in (1, 2, 3, 4):
        ins = vec_ins(L, tag, 'a')
        A = ['a%d' % i for i in range(L)]
        name = 'glm_op_neg_%s_v%d' % (tag, L)
        d.shim(name, 'void', ins, 'auto r = -%s; %s' % (vec_make(L, tag, 'a'), vec_store(L, 'r')), outs=[(T, 'out', L)])
        neg = (lambda a: '(-%s)' % a) if tag in FLOAT_TYPES else (lambda a: '(u%d)(0 - (u%d)%s)' % (INT_TYPES[tag][1], max(32, INT_TYPES[tag][1]), a))
        contracts.append((name, '%s  unary operator- on vec<%d,%s>' % (TV[L], L, T),
                          dict(ensures=[('comp%d' % i, beq(tag, 'out[%d]' % i, neg(A[i]))) for i in range(L)],
                               tier='quick' if tag in ('f32', 'i32') else 'thorough', build='ops_' + tag)))
        if tag not in FLOAT_TYPES:
            name = 'glm_op_not_%s_v%d' % (tag, L)
            d.shim(name, 'void', ins, 'auto r = ~%s; %s' % (vec_make(L, tag, 'a'), vec_store(L, 'r')), outs=[(T, 'out', L)])
            contracts.append((name, '%s  operator~ on vec<%d,%s>' % (TV[L], L, T),
                              dict(ensures=[('comp%d' % i, 'out[%d] == (u%d)~%s' % (i, INT_TYPES[tag][1], A[i])) for i in range(L)],
                                   tier='quick' if tag in ('i32', 'u32') else 'thorough', build='ops_' + tag)))
        for nm, opx, one in (('preinc', '++r', '+'), ('predec', '--r', '-'), ('postinc', 'r++', '+'), ('postdec', 'r--', '-')):
            name = 'glm_op_%s_%s_v%d' % (nm, tag, L)
            d.shim(name, 'void', ins, 'auto r = %s; %s; %s' % (vec_make(L, tag, 'a'), opx, vec_store(L, 'r')), outs=[(T, 'out', L)])
            one_e = (lambda a: 'SPEC_F%s%s(%s, 1.0%s)' % ('ADD' if one == '+' else 'SUB', '32' if tag == 'f32' else '64', a, 'f' if tag == 'f32' else '')) if tag in FLOAT_TYPES else \
                (lambda a: '(u%d)((u%d)%s %s 1)' % (INT_TYPES[tag][1], max(32, INT_TYPES[tag][1]), a, one))
            contracts.append((name, '%s  operator%s on vec<%d,%s>' % (TV[L], opx.replace('r', ''), L, T),
                              dict(ensures=[('comp%d' % i, beq(tag, 'out[%d]' % i, one_e(A[i]))) for i in range(L)],
                                   tier='quick' if tag in ('f32', 'i32') else 'thorough', build='ops_' + tag)))

# ---------------------------------------------------------------- relational functions (vector only in GLSL: scalar meaning = C comparison)
d = drv('rel')
REL = {'lessThan': '<', 'lessThanEqual': '<=', 'greaterThan': '>', 'greaterThanEqual': '>=', 'equal': '==', 'notEqual': '!='}
for tag in ['f32', 'f64', 'i32', 'u32', 'i64', 'u8']:
    T = cpp_type(tag)
    for fn, op in REL.items():
        for L in (1, 2, 3, 4):
            name = 'glm_%s_%s_v%d' % (fn, tag, L)
            d.shim(name, 'void', vec_ins(L, tag, 'a') + vec_ins(L, tag, 'b'),
                   'auto r = glm::%s(%s, %s); %s' % (fn, vec_make(L, tag, 'a'), vec_make(L, tag, 'b'), vec_store(L, 'r')), outs=[('bool', 'out', L)])
            if tag in FLOAT_TYPES or not INT_TYPES[tag][2]:
                cmp_ = lambda i: '(a%d %s b%d)' % (i, op, i)
            else:
                n = INT_TYPES[tag][1]
                cmp_ = lambda i: '((s%d)a%d %s (s%d)b%d)' % (n, i, op, n, i)
            contracts.append((name, 'glm/detail/func_vector_relational.inl  glm::%s on vec<%d,%s>' % (fn, L, T),
                              dict(ensures=[('comp%d' % i, 'out[%d] == (u8)%s' % (i, cmp_(i))) for i in range(L)],
                                   tier='quick' if tag in ('f32', 'i32', 'u32') else 'thorough', build='rel')))
for L in (1, 2, 3, 4):
    ins = [('bool', 'a%d' % i) for i in range(L)]
    mk = 'glm::vec<%d, bool>(%s)' % (L, ', '.join('a%d' % i for i in range(L)))
    dom = [('bools_are_0_or_1', ' && '.join('a%d <= 1' % i for i in range(L)))]
    d.shim('glm_any_v%d' % L, 'bool', ins, 'return glm::any(%s);' % mk)
    contracts.append(('glm_any_v%d' % L, 'glm/detail/func_vector_relational.inl  glm::any(bvec%d)' % L,
                      dict(requires=dom, ensures=[('is_or', 'RESULT == (u8)(%s)' % ' || '.join('a%d' % i for i in range(L)))], build='rel')))
    d.shim('glm_all_v%d' % L, 'bool', ins, 'return glm::all(%s);' % mk)
    contracts.append(('glm_all_v%d' % L, 'glm/detail/func_vector_relational.inl  glm::all(bvec%d)' % L,
                      dict(requires=dom, ensures=[('is_and', 'RESULT == (u8)(%s)' % ' && '.join('a%d' % i for i in range(L)))], build='rel')))
    d.shim('glm_not_v%d' % L, 'void', ins, 'auto r = glm::not_(%s); %s' % (mk, vec_store(L, 'r')), outs=[('bool', 'out', L)])
    contracts.append(('glm_not_v%d' % L, 'glm/detail/func_vector_relational.inl  glm::not_(bvec%d)' % L,
                      dict(requires=dom, ensures=[('comp%d' % i, 'out[%d] == (u8)!a%d' % (i, i)) for i in range(L)], build='rel')))
    # mix with a boolean selector: selection, bitwise
    for tag in ('f32', 'i32'):
        T = cpp_type(tag)
        name = 'glm_mix_bool_%s_v%d' % (tag, L)
        d.shim(name, 'void', vec_ins(L, tag, 'x') + vec_ins(L, tag, 'y') + [('bool', 's%d' % i) for i in range(L)],
               'auto r = glm::mix(%s, %s, glm::vec<%d, bool>(%s)); %s' % (vec_make(L, tag, 'x'), vec_make(L, tag, 'y'), L,
                                                                             ', '.join('s%d' % i for i in range(L)), vec_store(L, 'r')), outs=[(T, 'out', L)])
        contracts.append((name, 'glm/detail/func_common.inl  glm::mix(vec<%d,%s>, vec, bvec)' % (L, T),
                          dict(requires=[('bools_are_0_or_1', ' && '.join('s%d <= 1' % i for i in range(L)))],
                               ensures=[('comp%d_selects' % i, beq(tag, 'out[%d]' % i, '(s%d ? y%d : x%d)' % (i, i, i))) for i in range(L)], build='rel')))

# ---------------------------------------------------------------- matrix versions act per element (abs, mix, equal)
d = drv('mat')
for (Cn, Rn) in ((2, 2), (2, 3), (3, 3), (4, 3), (4, 4)):
    tag = 'f32'
    ins = mat_ins(Cn, Rn, tag, 'm')
    names = [nm for _, nm in ins]
    if 'glm_abs_f32_s1' not in d.shims:
        d.shim('glm_abs_f32_s1', 'float', [('float', 'a')], 'return glm::abs(a);')
        d.shim('glm_mix_f32_s3', 'float', [('float', 'a'), ('float', 'b'), ('float', 'c')], 'return glm::mix(a, b, c);')
    name = 'glm_abs_mat%dx%d' % (Cn, Rn)
    d.shim(name, 'void', ins, 'auto r = glm::abs(%s); %s' % (mat_make(Cn, Rn, tag, 'm'), mat_store(Cn, Rn, 'r')), outs=[('float', 'out', Cn * Rn)])
    contracts.append((name, 'glm/ext/matrix_common.inl  glm::abs(mat%dx%d)' % (Cn, Rn),
                      dict(ensures=[('elem%d' % i, beq(tag, 'out[%d]' % i, 'glm_abs_f32_s1(%s)' % names[i])) for i in range(Cn * Rn)],
                           uses=['glm_abs_f32_s1'], build='mat')))
    insb = mat_ins(Cn, Rn, tag, 'n')
    nb = [nm for _, nm in insb]
    name = 'glm_mix_mat%dx%d_scalar' % (Cn, Rn)
    d.shim(name, 'void', ins + insb + [('float', 't')],
           'auto r = glm::mix(%s, %s, t); %s' % (mat_make(Cn, Rn, tag, 'm'), mat_make(Cn, Rn, tag, 'n'), mat_store(Cn, Rn, 'r')), outs=[('float', 'out', Cn * Rn)])
    contracts.append((name, 'glm/ext/matrix_common.inl  glm::mix(mat%dx%d, mat, scalar)' % (Cn, Rn),
                      dict(ensures=[('elem%d' % i, beq(tag, 'out[%d]' % i, 'glm_mix_f32_s3(%s, %s, t)' % (names[i], nb[i]))) for i in range(Cn * Rn)],
                           uses=['glm_mix_f32_s3'], build='mat')))
    name = 'glm_equal_mat%dx%d' % (Cn, Rn)
    d.shim(name, 'void', ins + insb, 'auto r = glm::equal(%s, %s); %s' % (mat_make(Cn, Rn, tag, 'm'), mat_make(Cn, Rn, tag, 'n'), vec_store(Cn, 'r')),
           outs=[('bool', 'out', Cn)])
    contracts.append((name, 'glm/ext/matrix_relational.inl  glm::equal(mat%dx%d, mat) (per column: all rows equal)' % (Cn, Rn),
                      dict(ensures=[('col%d' % c, 'out[%d] == (u8)(%s)' % (c, ' && '.join('(m%d%d == n%d%d)' % (c, r, c, r) for r in range(Rn)))) for c in range(Cn)],
                           build='mat')))

for name, drv_ in drivers.items():
    P.build(drv_, 'flat', tag=name)
for fn, real, kw in contracts:
    P.contract(fn, real.strip(), unwind=kw.pop('unwind', 2), uf_float=('fmul', 'fdiv', 'fadd', 'fsub', 'sqrt', 'fmod', 'frem', 'iudiv', 'iurem', 'isdiv', 'isrem'), timeout=120, **kw)

P.level_text = ('for every generated (function x argument shape x length 1..4 x element type x qualifier) instantiation, component i of the '
                'vector result is proved bit-identical to the scalar overload (or built-in operator) applied to component i, for all argument '
                'values including NaN, infinities, signed zeros and integer extremes; CBMC on the extracted code of both overloads')
P.level_note = ('libm calls (sin, exp, pow, ...) are uninterpreted functions: proved is "same function applied to the same bits"; '
                'NaN results compared as bit patterns produced by CBMC canonical NaN on both sides; only the generated instantiation table is covered')
P.technique = 'relational CBMC code contracts (DFCC enforce) between extracted vector and scalar instantiations; SAT bit-precise'
P.design_ref = 'DESIGN.md section 6 C01'
P.assumptions = ['instantiation table = the shim list in the evidence; SIMD specialisations are property C03']
P.not_covered = ['fma: vector overload is a*b+c, scalar overload is std::fma - agreement within rounding only (not a bitwise fact)', 'operator+(vec3, vec1): this overload does not compile in the pinned tree (type_vec3.inl:236), so it has no behaviour to verify', 'lowp inversesqrt relative error < 2^-8 (needs floating error analysis)', 'gtx/component_wise reductions', 'functions outside the table']
