"""C19 - colour-space conversions are mutually inverse and range-preserving.

Where each top-level ensures comes from (never from the code):
  sRGB      IEC 61966-2-1 (the reference the GLM headers cite): C_srgb = 12.92 C_lin for C_lin < 0.0031308, else
            1.055 C_lin^(1/2.4) - 0.055; C_lin = C_srgb / 12.92 for C_srgb <= 0.04045, else ((C_srgb + 0.055) / 1.055)^2.4;
            the property statement: 0 and 1 are fixed points, alpha is untouched.
  YCoCg     Malvar/Sullivan: Y = R/4 + G/2 + B/4, Co = R/2 - B/2, Cg = -R/4 + G/2 - B/4; R = Y + Co - Cg, G = Y + Cg,
            B = Y - Co - Cg.  YCoCg-R: Co = R - B, t = B + floor(Co/2), Cg = G - t, Y = t + floor(Cg/2) and back.
  HSV       Smith 1978 / Foley-van Dam: V = max, S = (max - min)/max, H = 60 (G - B)/delta (mod 360) if max = R,
            120 + 60 (B - R)/delta if max = G, 240 + 60 (R - G)/delta if max = B; back: i = floor(H/60), f = H/60 - i,
            p = V(1-S), q = V(1-Sf), t = V(1-S(1-f)), (V,t,p) (q,V,p) (p,V,t) (p,q,V) (t,p,V) (V,p,q) for i = 0..5.
  saturation  Haeberli, "Matrix operations for image processing": M(s) = s I + (1 - s) 1 w^T, w = luminance weights
            (Rec. 709: 0.2126, 0.7152, 0.0722) -> grey levels are fixed, M(1) = I, M(0) = projection on luminance.
  luminosity  documentation of glm::luminosity: "associating ratios (0.33, 0.59, 0.11) to RGB canals".

Two kinds of contracts:
  kind F (CBMC, every bit pattern): integer YCoCg-R lifting, alpha / zero / one of the sRGB curves, grey branches of HSV,
         luminosity as the float dot product with the three documented weights.
  kind R (z3 over the reals on the extracted IR): the linear maps, the linear sRGB segment, the HSV sector formulas.
Float literals are the exact rationals of their bit patterns (helper flit(x, tag) of specs/rspec.py = the literal x rounded
to the element type), decimal constants of the textbook (12.92, 0.055, ...) are exact decimals; where the two differ the
clause is an inequality with an explicit tolerance ("to within the accuracy of the transfer-curve constants")."""
from engine import Prop
from shimgen import *

P = Prop('C19', 'Colour-space conversions are mutually inverse and range-preserving')
d = P.driver('c19', ['<glm/glm.hpp>', '<glm/gtc/color_space.hpp>', '<glm/gtx/color_space.hpp>', '<glm/gtx/color_space_YCoCg.hpp>'])
rcontracts, fcontracts = [], []
GTC = 'glm/gtc/color_space.inl'
GTX = 'glm/gtx/color_space.inl'
YCC = 'glm/gtx/color_space_YCoCg.inl'

# contracts that are known to be out of reach of the solvers (kept as documentation, never run): name -> reason
LEFT_OUT = {}
# measured with VERIF_JOBS=8 on the shared machine: luminosity_bits f32 19..75 s, f64 320 s (timeout 900); YCoCgR2rgb_i64 67 s
THOROUGH = {'glm_luminosity_bits_f32', 'glm_luminosity_bits_f64', 'glm_YCoCgR2rgb_i64'}


def doc_luminosity_weights():
    """the three ratios printed in the documentation comment of glm::luminosity (glm/gtx/color_space.hpp of the tree under
    verification): 'Compute color luminosity associating ratios (0.33, 0.59, 0.11) to RGB canals.'"""
    import os, re
    repo = os.environ.get('VERIF_REPO', '/repo')
    m = re.search(r'luminosity associating ratios \(([0-9.]+), ([0-9.]+), ([0-9.]+)\) to RGB', open(os.path.join(repo, 'glm/gtx/color_space.hpp')).read())
    if not m:
        raise RuntimeError('C19: the documentation of glm::luminosity no longer states its three ratios')
    return [float(x) for x in m.groups()]


DOC_LUMINOSITY_WEIGHTS = doc_luminosity_weights()


def R(fn, real, **kw):
    rcontracts.append((fn, real, kw))


def F(fn, real, **kw):
    fcontracts.append((fn, real, kw))


def names(ins):
    return [n for _, n in ins]


def lst(xs):
    return '[%s]' % ', '.join(xs)


# ======================================================================================================================
# 1. gtx/color_space_YCoCg - integer YCoCg-R lifting (kind F, all bit patterns)
# ======================================================================================================================
for tag, (cpp, n, sg) in INT_TYPES.items():
    c = vec_ins(3, tag, 'c')
    mk = vec_make(3, tag, 'c')
    S = 's%d' % n
    d.shim('glm_YCoCgR_roundtrip_' + tag, 'void', c, 'auto r = glm::YCoCgR2rgb(glm::rgb2YCoCgR(%s)); %s' % (mk, vec_store(3, 'r')), outs=[(cpp, 'out', 3)])
    d.shim('glm_YCoCgR_roundtrip_inv_' + tag, 'void', c, 'auto r = glm::rgb2YCoCgR(glm::YCoCgR2rgb(%s)); %s' % (mk, vec_store(3, 'r')), outs=[(cpp, 'out', 3)])
    d.shim('glm_rgb2YCoCgR_' + tag, 'void', c, 'auto r = glm::rgb2YCoCgR(%s); %s' % (mk, vec_store(3, 'r')), outs=[(cpp, 'out', 3)])
    d.shim('glm_YCoCgR2rgb_' + tag, 'void', c, 'auto r = glm::YCoCgR2rgb(%s); %s' % (mk, vec_store(3, 'r')), outs=[(cpp, 'out', 3)])
    ident3 = [('component_%d_restored' % i, 'out[%d] == c%d' % (i, i)) for i in range(3)]
    sem = 'two\'s complement wrap-around' if sg else 'unsigned arithmetic modulo 2^%d' % n
    # every triple of the element type (for signed types: with the wrap-around the hardware performs; see *_depth_* below)
    F('glm_YCoCgR_roundtrip_' + tag, 'glm::YCoCgR2rgb(glm::rgb2YCoCgR(vec<3,%s>))  compute_YCoCgR<T,Q,true>  %s  [all 2^%d triples, %s]' % (cpp, YCC, 3 * n, sem),
      ensures=ident3)
    F('glm_YCoCgR_roundtrip_inv_' + tag, 'glm::rgb2YCoCgR(glm::YCoCgR2rgb(vec<3,%s>))  compute_YCoCgR<T,Q,true>  %s  [all 2^%d triples, %s]' % (cpp, YCC, 3 * n, sem),
      ensures=ident3)
    if sg:
        # colour depth of a signed element type: n-1 bits per channel (0 .. 2^(n-1)-1).  No step overflows (nsw overflow = poison
        # -> nondeterministic value under poison_flags), the round trip is the identity and the intermediate triple is the
        # YCoCg-R triple of the paper, Y within the colour depth again ("low dynamic range").
        depth = [('channels_within_colour_depth_%d_bits' % (n - 1), ' && '.join('(%s)c%d >= 0' % (S, i) for i in range(3)))]
        args = ', '.join('(s64)(%s)c%d' % (S, i) for i in range(3))
        d.shim('glm_YCoCgR_roundtrip_depth_' + tag, 'void', c, 'auto r = glm::YCoCgR2rgb(glm::rgb2YCoCgR(%s)); %s' % (mk, vec_store(3, 'r')), outs=[(cpp, 'out', 3)])
        F('glm_YCoCgR_roundtrip_depth_' + tag, 'glm::YCoCgR2rgb(glm::rgb2YCoCgR(vec<3,%s>))  %s  [%d-bit colour depth, signed overflow = poison]' % (cpp, YCC, n - 1),
          requires=depth, ensures=ident3, poison_flags=True)
        # (the specification functions compute r + b on s64, so for the 64-bit type the value clauses stop at 62 bits)
        vdepth = depth if n < 64 else [('channels_within_62_bits', ' && '.join('(s64)c%d >= 0 && (s64)c%d < ((s64)1 << 62)' % (i, i) for i in range(3)))]
        F('glm_rgb2YCoCgR_' + tag, 'glm::rgb2YCoCgR(vec<3,%s>)  compute_YCoCgR<T,Q,true>  %s  [%d-bit colour depth, signed overflow = poison]' % (cpp, YCC, min(n - 1, 62)),
          requires=vdepth, poison_flags=True,
          ensures=[('Y_is_floor_of_g_plus_floor_of_r_plus_b_halved_halved', '(s64)(%s)out[0] == colspec_ycocgr_y(%s)' % (S, args)),
                   ('Co_is_r_minus_b', '(s64)(%s)out[1] == colspec_ycocgr_co(%s)' % (S, args)),
                   ('Cg_is_g_minus_floor_of_r_plus_b_halved', '(s64)(%s)out[2] == colspec_ycocgr_cg(%s)' % (S, args)),
                   ('Y_within_colour_depth', '(%s)out[0] >= 0' % S)])
        # the inverse on every triple that is the image of a colour of that depth is covered by the round trip; on its own:
        # G = Cg + t, B = t - floor(Co/2), R = B + Co with t = Y - floor(Cg/2), for small operands (no overflow)
        small = ' && '.join('(%s)c%d >= %d && (%s)c%d <= %d' % (S, i, -(1 << (n - 3)), S, i, (1 << (n - 3)) - 1) for i in range(3))
        T_ = '((s64)(%s)c0 - colspec_floor_half((s64)(%s)c2))' % (S, S)
        F('glm_YCoCgR2rgb_' + tag, 'glm::YCoCgR2rgb(vec<3,%s>)  compute_YCoCgR<T,Q,true>  %s  [|Y|,|Co|,|Cg| < 2^%d, signed overflow = poison]' % (cpp, YCC, n - 3),
          requires=[('operands_small_enough_not_to_overflow', small)], poison_flags=True,
          ensures=[('G_is_Cg_plus_t', '(s64)(%s)out[1] == (s64)(%s)c2 + %s' % (S, S, T_)),
                   ('B_is_t_minus_floor_half_Co', '(s64)(%s)out[2] == %s - colspec_floor_half((s64)(%s)c1)' % (S, T_, S)),
                   ('R_is_B_plus_Co', '(s64)(%s)out[0] == %s - colspec_floor_half((s64)(%s)c1) + (s64)(%s)c1' % (S, T_, S, S))])
    else:
        # unsigned element types cannot hold negative Co / Cg: the intermediate triple is the YCoCg-R triple of the paper exactly when
        # R >= B and G >= floor((R + B) / 2) (then Co, Cg >= 0); stated for n-1 bit channels so that the specification's r + b fits
        U = 'u%d' % n
        nb = min(n - 1, 62)     # the specification adds r + b on s64
        top = '((u64)1 << %d)' % nb
        args = ', '.join('(s64)c%d' % i for i in range(3))
        F('glm_rgb2YCoCgR_' + tag, 'glm::rgb2YCoCgR(vec<3,%s>)  compute_YCoCgR<T,Q,true>  %s  [Co, Cg >= 0, channels < 2^%d]' % (cpp, YCC, nb),
          requires=[('channels_below_2_pow_%d' % nb, ' && '.join('(u64)c%d < %s' % (i, top) for i in range(3))),
                    ('Co_and_Cg_representable_as_unsigned', 'c0 >= c2 && (s64)c1 >= colspec_ycocgr_t(%s)' % args)],
          ensures=[('Y_is_floor_of_g_plus_floor_of_r_plus_b_halved_halved', '(s64)out[0] == colspec_ycocgr_y(%s)' % args),
                   ('Co_is_r_minus_b', '(s64)out[1] == colspec_ycocgr_co(%s)' % args),
                   ('Cg_is_g_minus_floor_of_r_plus_b_halved', '(s64)out[2] == colspec_ycocgr_cg(%s)' % args)])
        T_ = '((s64)c0 - colspec_floor_half((s64)c2))'
        F('glm_YCoCgR2rgb_' + tag, 'glm::YCoCgR2rgb(vec<3,%s>)  compute_YCoCgR<T,Q,true>  %s  [Y, Co, Cg < 2^%d, no negative intermediate]' % (cpp, YCC, n - 2),
          requires=[('operands_below_2_pow_%d' % (n - 2), ' && '.join('(u64)c%d < ((u64)1 << %d)' % (i, n - 2) for i in range(3))),
                    ('t_and_B_not_negative', '%s >= colspec_floor_half((s64)c1)' % T_)],
          ensures=[('G_is_Cg_plus_t', '(s64)out[1] == (s64)c2 + %s' % T_),
                   ('B_is_t_minus_floor_half_Co', '(s64)out[2] == %s - colspec_floor_half((s64)c1)' % T_),
                   ('R_is_B_plus_Co', '(s64)out[0] == %s - colspec_floor_half((s64)c1) + (s64)c1' % T_)])

# ======================================================================================================================
# float / double instantiations
# ======================================================================================================================
for tag, bits, pw, one, zero in (('f32', 'll2c_f32_bits', 'LL2C_LIBM_powf', '1.0f', '0.0f'), ('f64', 'll2c_f64_bits', 'LL2C_LIBM_pow', '1.0', '0.0')):
    T = cpp_type(tag)
    sfxc = 'f' if tag == 'f32' else ''
    W = '32' if tag == 'f32' else '64'

    def L(x):
        """exact rational of the literal x after conversion to T (kind R clauses)"""
        return "flit(%r, '%s')" % (x, tag)

    def CL(x):
        """the same literal in a kind F clause"""
        return '%r%s' % (x, sfxc)

    EPS = L(2.0 ** -23 if tag == 'f32' else 2.0 ** -52)   # glm::epsilon<T>() = std::numeric_limits<T>::epsilon()

    def same(x, y):
        return '%s(%s) == %s(%s)' % (bits, x, bits, y)

    def fm(x, y):
        return 'SPEC_FMUL%s(%s, %s)' % (W, x, y)

    c3, c4 = vec_ins(3, tag, 'c'), vec_ins(4, tag, 'c')
    C3, C4 = names(c3), names(c4)
    mk3, mk4 = vec_make(3, tag, 'c'), vec_make(4, tag, 'c')

    def shim_v(name, Ln, ins, call):
        d.shim(name, 'void', ins, 'auto r = %s; %s' % (call, vec_store(Ln, 'r')), outs=[(T, 'out', Ln)])

    # ------------------------------------------------------------------------------------------------------------------
    # 2. gtx/color_space_YCoCg, float: linear maps (kind R)
    # ------------------------------------------------------------------------------------------------------------------
    shim_v('glm_rgb2YCoCg_' + tag, 3, c3, 'glm::rgb2YCoCg(%s)' % mk3)
    shim_v('glm_YCoCg2rgb_' + tag, 3, c3, 'glm::YCoCg2rgb(%s)' % mk3)
    shim_v('glm_YCoCg_roundtrip_' + tag, 3, c3, 'glm::YCoCg2rgb(glm::rgb2YCoCg(%s))' % mk3)
    shim_v('glm_YCoCg_roundtrip_inv_' + tag, 3, c3, 'glm::rgb2YCoCg(glm::YCoCg2rgb(%s))' % mk3)
    shim_v('glm_rgb2YCoCgR_' + tag, 3, c3, 'glm::rgb2YCoCgR(%s)' % mk3)
    shim_v('glm_YCoCgR2rgb_' + tag, 3, c3, 'glm::YCoCgR2rgb(%s)' % mk3)
    shim_v('glm_YCoCgR_roundtrip_' + tag, 3, c3, 'glm::YCoCgR2rgb(glm::rgb2YCoCgR(%s))' % mk3)
    shim_v('glm_YCoCgR_roundtrip_inv_' + tag, 3, c3, 'glm::rgb2YCoCgR(glm::YCoCgR2rgb(%s))' % mk3)
    IDENT = [('is_identity', 'And(eqv(out, %s))' % lst(C3))]
    INCUBE = 'And([And(x >= 0, x <= 1) for x in %s])' % lst(C3)
    R('glm_rgb2YCoCg_' + tag, 'glm::rgb2YCoCg(vec3)  ' + YCC,
      ensures=[('Y_is_quarter_r_half_g_quarter_b', 'out[0] == c0 / 4 + c1 / 2 + c2 / 4'),
               ('Co_is_half_r_minus_half_b', 'out[1] == c0 / 2 - c2 / 2'),
               ('Cg_is_half_g_minus_quarter_r_minus_quarter_b', 'out[2] == c1 / 2 - c0 / 4 - c2 / 4'),
               ('rgb_cube_maps_into_0_1_times_half_box', 'Implies(%s, And(out[0] >= 0, out[0] <= 1, 2 * out[1] >= -1, 2 * out[1] <= 1, 2 * out[2] >= -1, 2 * out[2] <= 1))' % INCUBE)])
    R('glm_YCoCg2rgb_' + tag, 'glm::YCoCg2rgb(vec3)  ' + YCC,
      ensures=[('R_is_Y_plus_Co_minus_Cg', 'out[0] == c0 + c1 - c2'), ('G_is_Y_plus_Cg', 'out[1] == c0 + c2'),
               ('B_is_Y_minus_Co_minus_Cg', 'out[2] == c0 - c1 - c2')])
    R('glm_YCoCg_roundtrip_' + tag, 'glm::YCoCg2rgb(glm::rgb2YCoCg(vec3))  ' + YCC, ensures=IDENT)
    R('glm_YCoCg_roundtrip_inv_' + tag, 'glm::rgb2YCoCg(glm::YCoCg2rgb(vec3))  ' + YCC, ensures=IDENT)
    R('glm_rgb2YCoCgR_' + tag, 'glm::rgb2YCoCgR(vec3)  compute_YCoCgR<T,Q,false>  ' + YCC,
      ensures=[('Y_is_quarter_r_half_g_quarter_b', 'out[0] == c0 / 4 + c1 / 2 + c2 / 4'),
               ('Co_is_r_minus_b', 'out[1] == c0 - c2'),
               ('Cg_is_g_minus_mean_of_r_and_b', 'out[2] == c1 - (c0 + c2) / 2'),
               ('rgb_cube_maps_into_0_1_times_unit_box', 'Implies(%s, And(out[0] >= 0, out[0] <= 1, out[1] >= -1, out[1] <= 1, out[2] >= -1, out[2] <= 1))' % INCUBE)])
    R('glm_YCoCgR2rgb_' + tag, 'glm::YCoCgR2rgb(vec3)  compute_YCoCgR<T,Q,false>  ' + YCC,
      ensures=[('G_is_Y_plus_half_Cg', 'out[1] == c0 + c2 / 2'), ('B_is_Y_minus_half_Cg_minus_half_Co', 'out[2] == c0 - c2 / 2 - c1 / 2'),
               ('R_is_B_plus_Co', 'out[0] == c0 - c2 / 2 + c1 / 2')])
    R('glm_YCoCgR_roundtrip_' + tag, 'glm::YCoCgR2rgb(glm::rgb2YCoCgR(vec3))  ' + YCC, ensures=IDENT)
    R('glm_YCoCgR_roundtrip_inv_' + tag, 'glm::rgb2YCoCgR(glm::YCoCgR2rgb(vec3))  ' + YCC, ensures=IDENT)

    # ------------------------------------------------------------------------------------------------------------------
    # 3. gtx/color_space: luminosity, saturation
    # ------------------------------------------------------------------------------------------------------------------
    LW = DOC_LUMINOSITY_WEIGHTS      # documentation of glm::luminosity
    d.shim('glm_luminosity_' + tag, T, c3, 'return glm::luminosity(%s);' % mk3)
    R('glm_luminosity_' + tag, 'glm::luminosity(vec3)  ' + GTX,
      ensures=[('is_dot_with_the_documented_weights', 'RESULT == dot(%s, %s)' % (lst(C3), lst(L(w) for w in LW))),
               # "preserve grey levels": luminosity(v, v, v) = v, to the accuracy of three two-digit weights rounded to T
               ('grey_level_preserved_to_1e_minus_6_relative', 'Implies(And(c0 == c1, c1 == c2), absr(RESULT - c0) <= absr(c0) / 10**6)')])
    d.shim('glm_luminosity_bits_' + tag, T, c3, 'return glm::luminosity(%s);' % mk3)
    F('glm_luminosity_bits_' + tag, 'glm::luminosity(vec3)  bit-exact  ' + GTX, uf_float=('fmul',),
      ensures=[('is_the_float_sum_of_the_three_weighted_channels',
                '(RESULT != RESULT) || ' + same('RESULT', '((%s + %s) + %s)' % tuple(fm(c, CL(w)) for c, w in zip(C3, LW))))])

    SW = [0.2126, 0.7152, 0.0722]    # Rec. 709 luminance weights
    WV = lst(L(w) for w in SW)
    sat_in = [(T, 's')]
    d.shim('glm_saturation_matrix_' + tag, 'void', sat_in, 'auto r = glm::saturation(s); %s' % mat_store(4, 4, 'r'), outs=[(T, 'out', 16)])
    M = 'mat(out, 4, 4)'
    LUMA_PROJ = '[[%s] * 3, [%s] * 3, [%s] * 3]' % tuple(L(w) for w in SW)      # column c = (w_c, w_c, w_c)
    # float: the three binary32 weights sum to exactly 1; double: the three binary64 weights sum to 1 - 2^-54.6 (4.2e-17)
    if tag == 'f32':
        GREYROW = 'And([%s[0][r] + %s[1][r] + %s[2][r] == 1 for r in range(3)])' % (M, M, M)
    else:
        GREYROW = 'And([absr(%s[0][r] + %s[1][r] + %s[2][r] - 1) <= absr(1 - s) / 10**16 for r in range(3)])' % (M, M, M)
    R('glm_saturation_matrix_' + tag, 'glm::saturation(s) -> mat4  ' + GTX,
      ensures=[('is_s_times_identity_plus_one_minus_s_times_rec709_luma_projection',
                'And(eqm(%s, embed4(madd(mscale(ident(3), s), mscale(%s, 1 - s)))))' % (M, LUMA_PROJ)),
               ('rows_sum_to_one_so_grey_is_fixed' + ('' if tag == 'f32' else '_to_1e_minus_16'), GREYROW),
               ('identity_at_s_1', 'Implies(s == 1, And(eqm(%s, ident(4))))' % M),
               ('all_channels_equal_luma_at_s_0', 'Implies(s == 0, And([And(%s[c][0] == %s[c][1], %s[c][1] == %s[c][2]) for c in range(3)]))' % (M, M, M, M))])
    LUMA3 = 'dot(%s, %s)' % (lst(C3), WV)
    for Ln, cin, Cn, mk in ((3, c3, C3, mk3), (4, c4, C4, mk4)):
        nm = 'glm_saturation_v%d_%s' % (Ln, tag)
        shim_v(nm, Ln, sat_in + cin, 'glm::saturation(s, %s)' % mk)
        if tag == 'f32':
            grey = 'Implies(And(c0 == c1, c1 == c2), And(out[0] == c0, out[1] == c0, out[2] == c0))'
        else:
            grey = 'Implies(And(c0 == c1, c1 == c2), And([absr(out[i] - c0) <= absr((1 - s) * c0) / 10**16 for i in range(3)]))'
        ens = [('is_s_times_colour_plus_one_minus_s_times_rec709_luma', 'And([out[i] == s * %s[i] + (1 - s) * %s for i in range(3)])' % (lst(Cn[:3]), LUMA3)),
               ('grey_is_fixed_for_any_s' + ('' if tag == 'f32' else '_to_1e_minus_16'), grey),
               ('identity_at_s_1', 'Implies(s == 1, And(eqv(out, %s)))' % lst(Cn))]
        if Ln == 4:
            ens.append(('alpha_untouched', 'out[3] == c3'))
        R(nm, 'glm::saturation(s, vec%d)  %s' % (Ln, GTX), ensures=ens)

    # ------------------------------------------------------------------------------------------------------------------
    # 4. gtx/color_space: hsvColor / rgbColor
    # ------------------------------------------------------------------------------------------------------------------
    MAX = 'If(And(c0 >= c1, c0 >= c2), c0, If(c1 >= c2, c1, c2))'
    MIN = 'If(And(c0 <= c1, c0 <= c2), c0, If(c1 <= c2, c1, c2))'
    DELTA = '(%s - %s)' % (MAX, MIN)
    CUBE = [('rgb_cube', 'And([And(x >= 0, x <= 1) for x in %s])' % lst(C3))]
    NONGREY = [('not_grey', 'Not(And(c0 == c1, c1 == c2))')]
    shim_v('glm_hsvColor_' + tag, 3, c3, 'glm::hsvColor(%s)' % mk3)
    R('glm_hsvColor_' + tag, 'glm::hsvColor(vec3)  non-grey colours of the RGB cube  ' + GTX, requires=CUBE + NONGREY,
      ensures=[('value_is_max_channel', 'out[2] == %s' % MAX),
               ('saturation_in_unit_interval', 'And(out[1] >= 0, out[1] <= 1)'),
               ('saturation_is_max_minus_min_over_max_unless_black_to_epsilon', 'Implies(%s > %s, out[1] * %s == %s)' % (MAX, EPS, MAX, DELTA)),
               ('hue_in_0_360', 'And(out[0] >= 0, out[0] < 360)'),
               ('hue_red_sector', 'Implies(And(%s > %s, c0 == %s), Or(out[0] * %s == 60 * (c1 - c2), (out[0] - 360) * %s == 60 * (c1 - c2)))' % (
                   MAX, EPS, MAX, DELTA, DELTA)),
               ('hue_green_sector', 'Implies(And(%s > %s, c1 == %s, c0 < %s - %s), out[0] * %s == 120 * %s + 60 * (c2 - c0))' % (
                   MAX, EPS, MAX, MAX, EPS, DELTA, DELTA)),
               ('hue_blue_sector', 'Implies(And(%s > %s, c2 == %s, c0 < %s - %s, c1 < %s - %s), out[0] * %s == 240 * %s + 60 * (c0 - c1))' % (
                   MAX, EPS, MAX, MAX, EPS, MAX, EPS, DELTA, DELTA))])
    # grey colours, bit-exact (kind F): saturation exactly 0, value = the grey level, and the hue is a number
    d.shim('glm_hsvColor_grey_' + tag, 'void', c3, 'auto r = glm::hsvColor(%s); %s' % (mk3, vec_store(3, 'r')), outs=[(T, 'out', 3)])
    F('glm_hsvColor_grey_' + tag, 'glm::hsvColor(vec3)  grey colours of the RGB cube  ' + GTX,
      requires=[('grey_level_in_unit_interval', 'c0 == c1 && c1 == c2 && c0 >= %s && c0 <= %s' % (zero, one))],
      ensures=[('saturation_is_zero', 'out[1] == %s' % zero), ('value_is_the_grey_level', 'out[2] == c0'),
               ('hue_is_a_number', 'out[0] == out[0]')])
    h3 = [(T, 'h'), (T, 's'), (T, 'v')]
    mkh = '%s(h, s, v)' % vec_t(3, tag)
    d.shim('glm_rgbColor_grey_' + tag, 'void', h3, 'auto r = glm::rgbColor(%s); %s' % (mkh, vec_store(3, 'r')), outs=[(T, 'out', 3)])
    F('glm_rgbColor_grey_' + tag, 'glm::rgbColor(vec3)  saturation 0  ' + GTX,
      ensures=[('zero_saturation_gives_v_v_v_bitwise', '!(s == %s) || (%s)' % (zero, ' && '.join(same('out[%d]' % i, 'v') for i in range(3))))])
    shim_v('glm_rgbColor_' + tag, 3, h3, 'glm::rgbColor(%s)' % mkh)
    K = L(1.0 / 60.0)   # T(1) / T(60): 1/60 correctly rounded to T (0x1.111112p-6f / 0x1.1111111111111p-6)
    SECT = 'floor(h * %s)' % K
    FRAC = '(h * %s - %s)' % (K, SECT)
    p_, q_, t_ = 'v * (1 - s)', 'v * (1 - s * %s)' % FRAC, 'v * (1 - s * (1 - %s))' % FRAC
    TABLE = [('v', t_, p_), (q_, 'v', p_), (p_, 'v', t_), (p_, q_, 'v'), (t_, p_, 'v'), ('v', p_, q_)]
    HSVDOM = [('hue_in_0_360', 'And(h >= 0, h < 360)'), ('saturation_in_unit_interval', 'And(s >= 0, s <= 1)'), ('value_in_unit_interval', 'And(v >= 0, v <= 1)')]
    R('glm_rgbColor_' + tag, 'glm::rgbColor(vec3)  ' + GTX, requires=HSVDOM,
      ensures=[('zero_saturation_gives_v_v_v', 'Implies(s == 0, And(eqv(out, [v, v, v])))')] +
              [('sector_%d_textbook_formula' % i, 'Implies(And(%s == %d, s > %s), And(eqv(out, [%s, %s, %s])))' % ((SECT, i, EPS) + TABLE[i])) for i in range(6)] +
              [('channels_in_unit_interval', 'And([And(x >= 0, x <= 1) for x in out])')])
    shim_v('glm_hsv_roundtrip_' + tag, 3, c3, 'glm::rgbColor(glm::hsvColor(%s))' % mk3)
    R('glm_hsv_roundtrip_' + tag, 'glm::rgbColor(glm::hsvColor(vec3))  ' + GTX, requires=CUBE + NONGREY,
      ensures=[('round_trip_within_%s' % ('1e_minus_6' if tag == 'f32' else '1e_minus_14'),
                'And([absr(out[i] - %s[i]) <= R(1) / 10**%d for i in range(3)])' % (lst(C3), 6 if tag == 'f32' else 14))])

    # ------------------------------------------------------------------------------------------------------------------
    # 5. gtc/color_space: sRGB transfer curves
    # ------------------------------------------------------------------------------------------------------------------
    g_in = [(T, 'gamma')]
    THR_L, THR_S = L(0.0031308), L(0.04045)      # documented branch thresholds, as literals of T
    D1292, D055, D1055 = 'R(1292) / 100', 'R(55) / 1000', 'R(1055) / 1000'     # textbook decimals
    TOL = 'R(1) / 10**6'
    GPOS = [('gamma_positive', 'gamma > 0')]
    for Ln, cin, Cn, mk in ((3, c3, C3, mk3), (4, c4, C4, mk4)):
        for gam in (False, True):
            gs = '_gamma' if gam else ''
            ins = cin + (g_in if gam else [])
            garg = ', gamma' if gam else ''
            req = GPOS if gam else []
            alpha_R = [('alpha_untouched', 'out[3] == c3')] if Ln == 4 else []
            alpha_F = [('alpha_bits_untouched', same('out[3]', 'c3'))] if Ln == 4 else []
            # ---- linear -> sRGB
            nm = 'glm_convertLinearToSRGB%s_v%d_%s' % (gs, Ln, tag)
            real = 'glm::convertLinearToSRGB(vec%d%s)  compute_rgbToSrgb  %s' % (Ln, ', Gamma' if gam else '', GTC)
            shim_v(nm, Ln, ins, 'glm::convertLinearToSRGB(%s%s)' % (mk, garg))
            EXPO = '(1 / gamma)' if gam else L(0.41666)
            ens = []
            for i in range(3):
                x, o = Cn[i], 'out[%d]' % i
                ens += [('zero_maps_to_zero_%d' % i, 'Implies(%s == 0, %s == 0)' % (x, o)),
                        ('linear_segment_is_12_92_x_%d' % i, 'Implies(And(%s > 0, %s < %s), And(absr(%s / %s - %s) <= %s, %s >= 0, %s <= 1))' % (
                            x, x, THR_L, o, x, D1292, TOL, o, o)),
                        ('power_segment_is_1_055_pow_minus_0_055_%d' % i,
                         'Implies(And(%s >= %s, %s <= 1), absr(%s - (%s * pow(%s, %s) - %s)) <= %s * (1 + pow(%s, %s)))' % (
                             x, THR_L, x, o, D1055, x, EXPO, D055, TOL, x, EXPO))]
            ens.append(('monotone_on_linear_segment', 'Implies(And(c0 >= 0, c0 <= c1, c1 < %s), out[0] <= out[1])' % THR_L))
            R(nm, real, requires=req, ensures=ens + alpha_R)
            d.shim(nm.replace('glm_', 'glm_bits_'), 'void', ins, 'auto r = glm::convertLinearToSRGB(%s%s); %s' % (mk, garg, vec_store(Ln, 'r')), outs=[(T, 'out', Ln)])
            # explicit gamma: the exponent is the float quotient 1 / Gamma; SAT cannot prove two separately encoded IEEE dividers
            # equivalent (probed: 300 s timeout), so the division is abstracted as the same uninterpreted function in code and clause
            PEXP = ('SPEC_FDIV%s(%s, gamma)' % (W, one)) if gam else CL(0.41666)
            fens = [('zero_maps_to_zero_%d' % i, '!(%s == %s) || out[%d] == %s' % (Cn[i], zero, i, zero)) for i in range(3)]
            # C Annex F: pow(+1, y) = 1 for every y; pow is an uninterpreted function under CBMC, so the clause assumes exactly this
            # fact about the one application it needs (natively, in the replay, LL2C_LIBM_pow is the real libm function)
            fens.append(('one_maps_to_one_given_libm_pow_of_1_is_1', '%s(%s, %s) != %s || (%s)' % (pw, one, PEXP, one, ' && '.join(
                '(!(%s == %s) || out[%d] == %s)' % (Cn[i], one, i, one) for i in range(3)))))
            F(nm.replace('glm_', 'glm_bits_'), real + '  bit-exact', requires=[('gamma_positive', 'gamma > %s' % zero)] if gam else [], ensures=fens + alpha_F,
              uf_float=('fdiv',) if gam else ())
            # ---- sRGB -> linear
            nm = 'glm_convertSRGBToLinear%s_v%d_%s' % (gs, Ln, tag)
            real = 'glm::convertSRGBToLinear(vec%d%s)  compute_srgbToRgb  %s' % (Ln, ', Gamma' if gam else '', GTC)
            shim_v(nm, Ln, ins, 'glm::convertSRGBToLinear(%s%s)' % (mk, garg))
            ens = []
            for i in range(3):
                x, o = Cn[i], 'out[%d]' % i
                ens += [('zero_maps_to_zero_%d' % i, 'Implies(%s == 0, %s == 0)' % (x, o)),
                        ('linear_segment_is_x_over_12_92_%d' % i, 'Implies(And(%s > 0, %s <= %s), And(absr(%s * %s / %s - 1) <= %s, %s >= 0, %s <= 1))' % (
                            x, x, THR_S, o, D1292, x, TOL, o, o)),
                        ('power_segment_positive_%d' % i, 'Implies(%s > %s, %s > 0)' % (x, THR_S, o))]
            ens.append(('monotone_on_linear_segment', 'Implies(And(c0 >= 0, c0 <= c1, c1 <= %s), out[0] <= out[1])' % THR_S))
            R(nm, real, requires=req, ensures=ens + alpha_R)
            d.shim(nm.replace('glm_', 'glm_bits_'), 'void', ins, 'auto r = glm::convertSRGBToLinear(%s%s); %s' % (mk, garg, vec_store(Ln, 'r')), outs=[(T, 'out', Ln)])
            PEXP = 'gamma' if gam else CL(2.4)
            fens = [('zero_maps_to_zero_%d' % i, '!(%s == %s) || out[%d] == %s' % (Cn[i], zero, i, zero)) for i in range(3)]
            # C Annex F: pow(+1, y) = 1 for every y; pow is an uninterpreted function under CBMC, so the clause assumes exactly this
            # fact about the one application it needs (natively, in the replay, LL2C_LIBM_pow is the real libm function)
            fens.append(('one_maps_to_one_given_libm_pow_of_1_is_1', '%s(%s, %s) != %s || (%s)' % (pw, one, PEXP, one, ' && '.join(
                '(!(%s == %s) || out[%d] == %s)' % (Cn[i], one, i, one) for i in range(3)))))
            F(nm.replace('glm_', 'glm_bits_'), real + '  bit-exact', requires=[('gamma_positive', 'gamma > %s' % zero)] if gam else [], ensures=fens + alpha_F)
        # default overload == explicit overload with the standard's gamma 2.4 (sRGB -> linear), bitwise
        nm = 'glm_convertSRGBToLinear_default_is_gamma_2_4_v%d_%s' % (Ln, tag)
        d.shim(nm, 'void', cin, 'auto r = glm::convertSRGBToLinear(%s); %s auto q = glm::convertSRGBToLinear(%s, %s(2.4)); %s' % (
            mk, vec_store(Ln, 'r'), mk, T, vec_store(Ln, 'q', 'ref')), outs=[(T, 'out', Ln), (T, 'ref', Ln)])
        F(nm, 'glm::convertSRGBToLinear(vec%d) vs (vec%d, 2.4)  %s' % (Ln, Ln, GTC),
          ensures=[('same_bits_%d' % i, '(out[%d] != out[%d] && ref[%d] != ref[%d]) || %s' % (i, i, i, i, same('out[%d]' % i, 'ref[%d]' % i))) for i in range(Ln)])
    # linear segments are mutually inverse on their own branch (composed shims), to the accuracy of the two literals
    shim_v('glm_srgb_roundtrip_linear_segment_' + tag, 3, c3, 'glm::convertSRGBToLinear(glm::convertLinearToSRGB(%s))' % mk3)
    R('glm_srgb_roundtrip_linear_segment_' + tag, 'glm::convertSRGBToLinear(glm::convertLinearToSRGB(vec3))  linear segment  ' + GTC,
      ensures=[('identity_to_1e_minus_6_relative_%d' % i, 'Implies(And(c%d > 0, c%d < %s), absr(out[%d] / c%d - 1) <= %s)' % (i, i, THR_L, i, i, TOL)) for i in range(3)])
    shim_v('glm_srgb_roundtrip_inv_linear_segment_' + tag, 3, c3, 'glm::convertLinearToSRGB(glm::convertSRGBToLinear(%s))' % mk3)
    R('glm_srgb_roundtrip_inv_linear_segment_' + tag, 'glm::convertLinearToSRGB(glm::convertSRGBToLinear(vec3))  linear segment  ' + GTC,
      ensures=[('identity_to_1e_minus_6_relative_%d' % i, 'Implies(And(c%d > 0, c%d <= R(40449) / 10**6), absr(out[%d] / c%d - 1) <= %s)' % (i, i, i, i, TOL)) for i in range(3)])

# lowp specialisation (float only): Ian Taylor's square-root approximation
lp = vec_ins(3, 'f32', 'c')
d.shim('glm_bits_convertLinearToSRGB_lowp_v3_f32', 'void', lp, 'auto r = glm::convertLinearToSRGB(%s); %s' % (vec_make(3, 'f32', 'c', 'glm::lowp'), vec_store(3, 'r')),
       outs=[('float', 'out', 3)])
F('glm_bits_convertLinearToSRGB_lowp_v3_f32', 'glm::convertLinearToSRGB(vec<3,float,lowp>)  sqrt approximation  ' + GTC,
  ensures=[x for i in range(3) for x in (('zero_maps_to_zero_%d' % i, '!(c%d == 0.0f) || out[%d] == 0.0f' % (i, i)),
                                           ('one_maps_to_one_%d' % i, '!(c%d == 1.0f) || out[%d] == 1.0f' % (i, i)))])

flat = P.build(d, 'flat', defines=['GLM_ENABLE_EXPERIMENTAL'])
for fn, real, kw in rcontracts:
    if fn in LEFT_OUT:
        continue
    kw.setdefault('timeout', 120)
    kw.setdefault('tier', 'thorough' if fn in THOROUGH else 'quick')
    P.contract(fn, real, kind='R', **kw)
for fn, real, kw in fcontracts:
    if fn in LEFT_OUT:
        continue
    kw.setdefault('timeout', 900 if fn in THOROUGH else 300)
    kw.setdefault('unwind', 2)
    kw.setdefault('backends', ('sat',))
    kw.setdefault('tier', 'thorough' if fn in THOROUGH else 'quick')
    P.contract(fn, real, kind='F', **kw)

P.level_text = ('over the reals (machine arithmetic treated as mathematical): the real-valued functions computed by the code clang extracts '
                'from /repo are the textbook maps: rgb2YCoCg / YCoCg2rgb and the float rgb2YCoCgR / YCoCgR2rgb are the Malvar-Sullivan matrices and '
                'mutually inverse, saturation(s) = s I + (1 - s) 1 w^T with the Rec. 709 weights (grey fixed, identity at s = 1), luminosity is the '
                'dot product with the three documented ratios, hsvColor / rgbColor follow the Smith sector formulas on the RGB cube (value = max, '
                'saturation = (max - min) / max in [0,1], hue in [0,360)) and rgbColor(hsvColor(c)) = c to 1e-6 (float) / 1e-14 (double) for every '
                'non-grey c of the cube, the sRGB curves follow the IEC 61966-2-1 linear segment (and the 1.055 x^(1/gamma) - 0.055 form of the power '
                'segment, pow uninterpreted), fix 0, leave alpha untouched and are mutually inverse on the linear segment; plus bit-exact CBMC '
                'contracts over all bit patterns: the integer YCoCg-R lifting is lossless in both directions for every triple of '
                'int8..int64 / uint8..uint64 and produces the triple of the paper, alpha / 0 / 1 of every sRGB overload, grey branches of HSV, '
                'luminosity as the float sum of the three float products')
P.level_note = ('trusted: clang-14 lowering, tools/ll2smt.py symbolic execution (floor and float->int conversion interpreted on unbounded integers), '
                'z3 QF_NRA / sympy Groebner, rspec.py, pow as an uninterpreted function with pow(x,1)=x, pow(1,y)=1, pow(0,y>0)=0, pow(x>0,y)>0; '
                'for kind F: ll2c (T-checked), CBMC float model incl. its sqrt model (lowp), pow uninterpreted (the one_maps_to_one clauses assume '
                'pow(1,y)==1 of the one application they need), float products (luminosity) and the quotient 1/Gamma (explicit-gamma overloads) '
                'abstracted as uninterpreted functions shared by code and clause. R obligations are blind to rounding, overflow, NaN/Inf: '
                'every "==" between reals is exact for the rationals of the float literals, tolerances are stated in the clause names')
P.technique = ('contracts over the reals on mechanically extracted LLVM IR: symbolic execution + z3 QF_NRA / sympy Groebner, '
               'CBMC contracts for bit-exact branch facts')
P.design_ref = 'DESIGN.md sections 5 and 6 C19'
P.assumptions = ['machine arithmetic treated as mathematical (IEEE float/double identified with the reals)',
                 'pow(+1, y) == 1 for libm pow / powf (C Annex F.10.4.4), assumed inside the one_maps_to_one clauses for the single application '
                 'pow(1, exponent) the code performs; pow(x,1)=x, pow(1,y)=1, pow(0,y>0)=0, pow(x>0,y)>0 as ground axioms in kind R',
                 'the documented luminosity ratios are read from the documentation comment of glm::luminosity in glm/gtx/color_space.hpp of the '
                 'tree under verification; the Rec. 709 weights (0.2126, 0.7152, 0.0722) of saturation and the sRGB constants (12.92, 1.055, '
                 '0.055, 0.0031308, 0.04045) are taken from the standards',
                 'integer YCoCg-R on signed element types, "all triples": signed overflow wraps (what the extracted IR does on x86); without that '
                 'assumption (overflow = poison) the same identity is proved for channels of n-1 bits, where no step overflows',
                 'epsilon neighbourhoods the code treats as exact ties are excluded from the HSV sector clauses by hypothesis (max <= epsilon: black; '
                 'a channel within epsilon of the maximum; 0 < saturation <= epsilon in rgbColor); the round-trip clause covers them with its tolerance']
P.not_covered = [
    'sRGB round trip through the power segment "to within the accuracy of the transfer-curve constants": needs a numeric pow (pow is an '
    'uninterpreted function; pow(pow(x,a),1/a) = x is not among the ground axioms and 1/(1/gamma) is not gamma in floats)',
    'sRGB monotonicity and the range [0,1] on the power segment, monotonicity across the branch point 0.0031308 / 0.04045 (numeric pow)',
    'convertSRGBToLinear power segment against the textbook ((s + 0.055) / 1.055)^gamma: the argument the code passes to pow differs from the '
    'textbook argument by the rounding of the constants, hence is a different application of the uninterpreted pow; only positivity is proved',
    'convertLinearToSRGB default overload: the exponent literal is 0.41666, not 1/2.4 = 0.41666..6 (relative deviation of the result up to 4e-5 at '
    'the dark end); covered by "accuracy of the constants" of the statement, not checkable with an uninterpreted pow',
    'sRGB inputs in (0.040449936, 0.04045]: on the linear segment of convertSRGBToLinear, but their images (>= 0.0031308) are on the power segment of '
    'convertLinearToSRGB (0.04045 / 12.92 = 0.00313080495 > 0.0031308: the two documented thresholds are not images of each other), so the '
    'composed linear-segment clause stops at 0.040449',
    'lowp specialisation of convertLinearToSRGB (square-root approximation): only 0 -> 0 and 1 -> 1 bit-exact; its distance to the exact curve '
    '(the existing test allows 0.1) and its monotonicity need numeric sqrt/pow',
    'vec1 / vec2 instantiations of the sRGB templates, qualifiers other than defaultp (apart from the lowp vec3 specialisation), SIMD',
    'hsvColor / rgbColor at sector boundaries in floating point (rounding of h * (1/60), 60 * (g - b) / delta); hue outside [0,360) (a negative hue is '
    'not wrapped: sector -1 falls into the default case), h = 360 exactly',
    'integer instantiations of the plain rgb2YCoCg / YCoCg2rgb (integer division by 4 and 2: lossy by construction, e.g. (0,127,7) -> (64,-3,62) -> '
    '(-1,126,5)); the statement claims losslessness only for the -R pair',
    'unsigned YCoCg-R: for R < B or G < floor((R+B)/2) the stored Co / Cg wrap modulo 2^n and are halved with a logical shift, so the intermediate '
    'triple is not the YCoCg-R triple of the paper (the round trip is still the identity and is proved for all triples)',
    'rounding error of every float formula (R is exact-real); NaN / Inf inputs outside the bit-exact contracts',
]
for k, v in sorted(LEFT_OUT.items()):
    P.not_covered.append('%s: %s' % (k, v))
