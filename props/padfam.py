"""padfam.py - the padding-lane family of aligned float vec3 (shared by C03 and C12; see the comment in props/C03.py)"""
from vlib import Contract


def add_pad_family(P, prefix, isas, simd_defs, only=None, quick_isas=('sse2', 'sse41'), reused=None):
    """registers driver <prefix>_pad, one build per ISA and the contracts glm_pad_<name>_v3_f32; `only`: subset of names"""
    dpad = P.driver('%s_pad' % prefix, ['<glm/glm.hpp>', '<glm/gtx/norm.hpp>'])
    _mk = lambda v, p: 'V %s_%s; %s_%s.data = _mm_set_ps(%s%s, %sz, %sy, %sx);' % (v.upper(), p, v.upper(), p, v, p, v, v, v)
    _ins2 = [('float', n) for n in ('ax', 'ay', 'az', 'ap', 'aq', 'bx', 'by', 'bz', 'bp', 'bq')]
    _ins1 = _ins2[:5]
    _pre2 = 'typedef glm::vec<3, float, glm::aligned_highp> V; ' + _mk('a', 'p') + _mk('a', 'q') + _mk('b', 'p') + _mk('b', 'q')
    _pre1 = 'typedef glm::vec<3, float, glm::aligned_highp> V; ' + _mk('a', 'p') + _mk('a', 'q')
    PAD = [  # (name, arity, result kind, expression over a@ / b@ ('@' = p or q), real)
        ('dot', 2, 's', 'glm::dot(a@, b@)', 'glm/detail/func_geometric_simd.inl  compute_dot<vec<3, float, Q>, float, true>'),
        ('length', 1, 's', 'glm::length(a@)', 'glm/detail/func_geometric_simd.inl  compute_length -> dot(vec3)'),
        ('length2', 1, 's', 'glm::length2(a@)', 'glm/gtx/norm.inl  length2 -> dot(vec3)'),
        ('distance', 2, 's', 'glm::distance(a@, b@)', 'glm/detail/func_geometric_simd.inl  compute_distance -> length -> dot(vec3)'),
        ('normalize', 1, 'v', 'glm::normalize(a@)', 'glm/detail/func_geometric.inl  compute_normalize<3, float, aligned> -> dot(vec3)'),
        ('cross', 2, 'v', 'glm::cross(a@, b@)', 'glm/detail/func_geometric_simd.inl  compute_cross<float, Q, true> (glm_vec4_cross)'),
        ('reflect', 2, 'v', 'glm::reflect(a@, b@)', 'glm/detail/func_geometric.inl  compute_reflect<3, float, aligned> -> dot(vec3)'),
        ('faceforward', 2, 'v', 'glm::faceforward(a@, b@, a@)', 'glm/detail/func_geometric.inl  compute_faceforward<3, float, aligned> -> dot(vec3)'),
        ('op_eq', 2, 'b', 'a@ == b@', 'glm/detail/type_vec3.inl  operator== (compute_equal)'),
        ('op_ne', 2, 'b', 'a@ != b@', 'glm/detail/type_vec3.inl  operator!='),
        ('add_then_dot', 2, 's', 'glm::dot(a@ + b@, b@)', 'operator+ (lane-wise, carries the padding) followed by dot(vec3)'),
        ('div_then_dot', 2, 's', 'glm::dot(a@, V(1.0f) / b@)', 'vec3(1) / d (lane-wise, padding lane 1/bp) followed by dot(vec3): the inverse-direction idiom'),
    ]
    for nm, ar, kind, expr, real in PAD:
        if only is not None and nm not in only:
            continue
        fn = 'glm_pad_%s_v3_f32' % nm
        body = (_pre2 if ar == 2 else _pre1)
        expr = expr.replace('a@', 'A_@').replace('b@', 'B_@')
        ep, eq = expr.replace('@', 'p'), expr.replace('@', 'q')
        if kind == 's':
            body += ' out[0] = %s; out[1] = %s;' % (ep, eq)
            outs = [('float', 'out', 2)]
            ens = [('result_independent_of_padding_lanes', 'cspec_same32(out[0], out[1])')]
        elif kind == 'v':
            body += ' V r = %s; V t = %s; out[0] = r.x; out[1] = r.y; out[2] = r.z; out[3] = t.x; out[4] = t.y; out[5] = t.z;' % (ep, eq)
            outs = [('float', 'out', 6)]
            ens = [('component_%d_independent_of_padding_lanes' % i, 'cspec_same32(out[%d], out[%d])' % (i, i + 3)) for i in range(3)]
        else:
            body += ' out[0] = (%s) ? 1u : 0u; out[1] = (%s) ? 1u : 0u;' % (ep, eq)
            outs = [('unsigned', 'out', 2)]
            cmp3 = '(ax == bx && ay == by && az == bz)'
            ens = [('result_independent_of_padding_lanes', 'out[0] == out[1]'),
                   ('same_as_three_scalar_comparisons', 'out[0] == (%s ? 1u : 0u)' % (cmp3 if nm == 'op_eq' else '!' + cmp3))]
        dpad.shim(fn, 'void', _ins2 if ar == 2 else _ins1, body, outs=outs)
        for isa, flags in isas.items():
            tag = '%s_pad_%s' % (prefix, isa)
            if tag not in P.builds:
                P.build(dpad, 'flat', defines=list(simd_defs) + ['GLM_ENABLE_EXPERIMENTAL'], flags=list(flags), tag=tag)
            P.contracts.append(Contract(fn, '[SIMD %s, raw padding lanes] %s' % (isa, real), ensures=ens, build=tag, unwind=12,
                                        uf_float=('fmul', 'fdiv', 'fadd', 'fsub', 'sqrt'), timeout=300, backends=('sat',),
                                        tier='quick' if isa in quick_isas else 'thorough'))
            if reused is not None:
                reused.append(('C03', fn + ' [pad]', isa))
