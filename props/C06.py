"""C06 - pack/unpack functions are mutually consistent, correctly quantised and laid out.

Clause families (all taken from the property statement proposed/C06_property.json and the doc comments of
glm/packing.hpp, glm/gtc/packing.hpp):
  (a) repack      pack(unpack(p)) == p for every canonical word p                 shim glm_repack_<fmt>
  (b) reunpack    unpack(pack(unpack(p))) is bit-equal to unpack(p) for every p   shim glm_reunpack_<fmt>
  (c) layout      first component in the least significant bits                   on pack and on unpack
  (d) quantise    nearest code / clamp to the end codes                           on pack, per field
  (e) small floats: finite codes round-trip, Inf/NaN codes decode to Inf/NaN, negative / sub-minimum inputs
      pack to zero or the smallest code, values above the range clamp
"""
from engine import Prop

P = Prop('C06', 'Pack/unpack functions are mutually consistent, correctly quantised and laid out')
d = P.driver('c06', ['<glm/glm.hpp>', '<glm/packing.hpp>', '<glm/gtc/packing.hpp>'])
CORE = 'glm/detail/func_packing.inl'
GTC = 'glm/gtc/packing.inl'
contracts = []


# minisat (incremental, all clauses of a contract in one solver instance) is the fastest back end for most of these
# obligations; the 16-bit quantisation clauses are the exception (packUnorm1x16: minisat 790 s, cadical 50 s, kissat 16 s)
FLOAT_BACKENDS = ('sat', 'kissat')
HARD_BACKENDS = ('kissat', 'sat')


def C(fn, real, tier='quick', **kw):
    kw.setdefault('unwind', 2)
    kw.setdefault('backends', FLOAT_BACKENDS)
    contracts.append((fn, real, tier, kw))


WORD = {8: 'uint8_t', 16: 'uint16_t', 32: 'uint32_t', 64: 'uint64_t'}
XS = ['x', 'y', 'z', 'w']


def vecf(n):
    """glm float vector (or scalar) built from the scalar parameters x, y, z, w"""
    return 'x' if n == 1 else 'glm::vec%d(%s)' % (n, ', '.join(XS[:n]))


def store(n, var, out='out'):
    if n == 1:
        return '%s[0] = %s;' % (out, var)
    return ' '.join('%s[%d] = %s.%s;' % (out, i, var, XS[i]) for i in range(n))


def offsets(widths):
    o, r = 0, []
    for w in widths:
        r.append(o)
        o += w
    return r


# =====================================================================================
# normalised formats: name -> (word bits, field widths, file, one-component function of the same field width)
# =====================================================================================
NORM = [
    # suffix          bits  widths           file  1-component function used for the relational layout clause
    ('1x8',            8,  [8],              GTC,  None),
    ('2x8',            16, [8, 8],           GTC,  '1x8'),
    ('4x8',            32, [8, 8, 8, 8],     CORE, '1x8'),
    ('1x16',           16, [16],             GTC,  None),
    ('2x16',           32, [16, 16],         CORE, '1x16'),
    ('4x16',           64, [16, 16, 16, 16], GTC,  '1x16'),
    ('3x10_1x2',       32, [10, 10, 10, 2],  GTC,  None),
]
UNORM_ONLY = [
    ('2x4',            8,  [4, 4],           GTC,  None),
    ('4x4',            16, [4, 4, 4, 4],     GTC,  None),
    ('1x5_1x6_1x5',    16, [5, 6, 5],        GTC,  None),
    ('3x5_1x1',        16, [5, 5, 5, 1],     GTC,  None),
    ('2x3_1x2',        8,  [3, 3, 2],        GTC,  None),
]


def slow(widths):
    """16-bit fields: float round trips of 20-90 s each"""
    return max(widths) >= 16


def not_nan(n):
    """documented domain of the float -> normalised-integer pack functions (added for C20, which proves UB-freedom under the
    REQUIRES of these value contracts): the argument is "the normalized floating-point value v" (glm/packing.hpp and
    glm/gtc/packing.hpp, every pack{U,S}norm*: "First, converts each component of the normalized floating-point value v into
    8- or 16-bit integer values"; templated form: "Convert each component of the normalized floating-point vector into unsigned
    integer values") and the conversion is given as round(clamp(c, 0, +1) * 255.0) - a formula on numbers: clamp extends it to every
    number outside [0, 1] and to +-Inf, but nothing in the doc comments or in the GLSL text they cite defines the packing of a NaN
    (GLSL 4.20.8 section 4.5.1: "Operations and built-in functions that operate on a NaN are not required to return a NaN as the
    result"), so a NaN component is outside the documented domain.  Every ensures below already exempted NaN components."""
    return [('documented_no_component_is_nan', ' && '.join('!spec_isnan32(%s)' % XS[i] for i in range(n)))]


def norm_format(kind, sfx, bits, widths, file, one):
    n = len(widths)
    offs = offsets(widths)
    W = WORD[bits]
    F = kind + sfx                       # e.g. Unorm4x8
    pk, up = 'glm::pack' + F, 'glm::unpack' + F
    signed = kind == 'Snorm'
    fmax = [(1 << (w - 1)) - 1 if signed else (1 << w) - 1 for w in widths]
    fld = (lambda word, i: '%s(%s, %d, %d)' % ('spec_sfield' if signed else 'spec_ufield', word, offs[i], widths[i]))
    ins = [('float', XS[i]) for i in range(n)]
    # ---- shims
    d.shim('glm_pack' + F, W, ins, 'return %s(%s);' % (pk, vecf(n)))
    d.shim('glm_unpack' + F, 'void', [(W, 'p')], 'auto r = %s(p); %s' % (up, store(n, 'r')), outs=[('float', 'out', n)])
    d.shim('glm_repack_' + F, W, [(W, 'p')], 'return %s(%s(p));' % (pk, up))
    d.shim('glm_reunpack_' + F, 'void', [(W, 'p')],
           'auto a = %s(p); auto b = %s(%s(a)); %s %s' % (up, up, pk, store(n, 'b'), store(n, 'a', 'ref')),
           outs=[('float', 'out', n), ('float', 'ref', n)])
    thorough = 'thorough' if slow(widths) else 'quick'
    # ---- (c) layout + value of unpack: component i is code_i / max_i, code_i = bits [off_i, off_i + w_i)
    dec = 'spec_snorm_decodes' if signed else 'spec_unorm_decodes'
    ens = []
    for i in range(n):
        ens.append(('comp%d_is_field_at_bit%d_over_%d' % (i, offs[i], fmax[i]), '%s(out[%d], %s, %du)' % (dec, i, fld('p', i), fmax[i])))
        # the doc comment gives f / max (clamped to [-1, 1] for snorm): exact at the end codes and at zero
        if signed:
            ens.append(('comp%d_end_codes_exact' % i,
                        '(%s != 0 || out[%d] == 0.0f) && (%s != %d || out[%d] == 1.0f) && (%s > -%d || out[%d] == -1.0f)' % (
                            fld('p', i), i, fld('p', i), fmax[i], i, fld('p', i), fmax[i], i)))
        else:
            ens.append(('comp%d_end_codes_exact' % i, '(%s != 0 || out[%d] == 0.0f) && (%s != %d || out[%d] == 1.0f)' % (
                fld('p', i), i, fld('p', i), fmax[i], i)))
    C('glm_unpack' + F, '%s  %s' % (up, file), tier=thorough, timeout=600, ensures=ens)
    # ---- (d) quantisation per field (each field against its own component: this is also the layout of pack)
    q = 'spec_snorm' if signed else 'spec_unorm'
    ens = []
    for i in range(n):
        c = fld('RESULT', i)
        x = XS[i]
        tag = 'field%d_at_bit%d' % (i, offs[i])
        if signed:
            ens.append((tag + '_clamps_low', 'spec_isnan32(%s) || spec_snorm_low(%s, %s, %du)' % (x, x, c, fmax[i])))
        else:
            ens.append((tag + '_clamps_low', 'spec_isnan32(%s) || spec_unorm_low(%s, %s)' % (x, x, c)))
        ens.append((tag + '_clamps_high', 'spec_isnan32(%s) || %s_high(%s, %s, %du)' % (x, q, x, c, fmax[i])))
        ens.append((tag + '_nearest_code', 'spec_isnan32(%s) || %s_nearest(%s, %s, %du)' % (x, q, x, c, fmax[i])))
    if slow(widths) and one:
        # 16-bit fields of a multi-component word: quantisation is proved once on the one-component function (1x16); the
        # word is tied to it by the relational layout clause below (four 16-bit quantisation proofs in one formula do not finish)
        pass
    else:
        # measured on an idle machine: 1x8 7 s, 2x8 17 s, small bit-field formats 5 s; 4x8 42 s, 3x10_1x2 96 s, 1x16 16 s (kissat)
        C('glm_pack' + F, '%s  %s' % (pk, file), tier='quick' if (max(widths) <= 8 and bits <= 16) else 'thorough', requires=not_nan(n), ensures=ens, timeout=600,
          backends=HARD_BACKENDS if slow(widths) else FLOAT_BACKENDS)
    # ---- (c) relational layout against the one-component function
    if one:
        onefn = 'glm_pack%s%s' % (kind, one)
        w = widths[0]
        expr = ' | '.join('((u64)%s(%s) << %d)' % (onefn, XS[i], offs[i]) for i in range(n))
        d.shim('glm_pack%s_layout' % F, W, ins, 'return %s(%s);' % (pk, vecf(n)))
        C('glm_pack%s_layout' % F, '%s against %s%s%s  %s' % (pk, 'glm::pack', kind, one, file), tier='quick' if bits <= 16 else 'thorough',
          uses=[onefn], timeout=600, requires=not_nan(n),
          ensures=[('first_component_least_significant',
                    '%s || (u64)RESULT == (%s)' % (' || '.join('spec_isnan32(%s)' % XS[i] for i in range(n)), expr))])
    # ---- (a) repack
    canon = ' && '.join('%s != -%d' % (fld('p', i), fmax[i] + 1) for i in range(n)) if signed else None
    C('glm_repack_' + F, '%s(%s(p))  %s' % (pk, up, file), tier=thorough, timeout=600,
      requires=[('no_field_holds_the_most_negative_code', canon)] if signed else [],
      ensures=[('repack_identity', 'RESULT == p')])
    # ---- (b) reunpack
    C('glm_reunpack_' + F, '%s(%s(%s(p)))  %s' % (up, pk, up, file), tier=thorough, timeout=600,
      ensures=[('comp%d_stable' % i, 'spec_same32(out[%d], ref[%d])' % (i, i)) for i in range(n)])


for sfx, bits, widths, file, one in NORM:
    norm_format('Unorm', sfx, bits, widths, file, one)
    norm_format('Snorm', sfx, bits, widths, file, one)
for sfx, bits, widths, file, one in UNORM_ONLY:
    norm_format('Unorm', sfx, bits, widths, file, one)


# =====================================================================================
# integer formats with bit-fields: I3x10_1x2 / U3x10_1x2
# =====================================================================================
W3 = [10, 10, 10, 2]
O3 = offsets(W3)
for F, cpp, vec, signed in (('I3x10_1x2', 'int32_t', 'glm::ivec4', True), ('U3x10_1x2', 'uint32_t', 'glm::uvec4', False)):
    pk, up = 'glm::pack' + F, 'glm::unpack' + F
    fldf = 'spec_sfield' if signed else 'spec_ufield'
    ins = [(cpp, XS[i]) for i in range(4)]
    d.shim('glm_pack' + F, 'uint32_t', ins, 'return %s(%s(x, y, z, w));' % (pk, vec))
    d.shim('glm_unpack' + F, 'void', [('uint32_t', 'p')], 'auto r = %s(p); %s' % (up, store(4, 'r')), outs=[(cpp, 'out', 4)])
    d.shim('glm_repack_' + F, 'uint32_t', [('uint32_t', 'p')], 'return %s(%s(p));' % (pk, up))
    d.shim('glm_reunpack_' + F, 'void', [('uint32_t', 'p')],
           'auto a = %s(p); auto b = %s(%s(a)); %s %s' % (up, up, pk, store(4, 'b'), store(4, 'a', 'ref')),
           outs=[(cpp, 'out', 4), (cpp, 'ref', 4)])
    ens = []
    for i in range(4):
        lo, hi = (-(1 << (W3[i] - 1)), (1 << (W3[i] - 1)) - 1) if signed else (0, (1 << W3[i]) - 1)
        fits = '((s64)(s32)%s >= %d && (s64)(s32)%s <= %d)' % (XS[i], lo, XS[i], hi) if signed else '(%s <= %du)' % (XS[i], hi)
        val = '(s64)(s32)%s' % XS[i] if signed else '(u64)%s' % XS[i]
        ens.append(('field%d_at_bit%d_holds_component' % (i, O3[i]), '!%s || %s(RESULT, %d, %d) == %s' % (fits, fldf, O3[i], W3[i], val)))
    C('glm_pack' + F, '%s  %s' % (pk, GTC), ensures=ens)
    C('glm_unpack' + F, '%s  %s' % (up, GTC),
      ensures=[('comp%d_is_field_at_bit%d' % (i, O3[i]), '%s == %s(p, %d, %d)' % ('(s64)(s32)out[%d]' % i if signed else '(u64)out[%d]' % i, fldf, O3[i], W3[i]))
               for i in range(4)])
    C('glm_repack_' + F, '%s(%s(p))  %s' % (pk, up, GTC), ensures=[('repack_identity', 'RESULT == p')])
    C('glm_reunpack_' + F, '%s(%s(%s(p)))  %s' % (up, pk, up, GTC), ensures=[('comp%d_stable' % i, 'out[%d] == ref[%d]' % (i, i)) for i in range(4)])

# =====================================================================================
# whole-integer packs: packInt2x8 ... packUint2x32, packDouble2x32
# =====================================================================================
INTPACK = [  # name, component bits, count, signed
    ('Int2x8', 8, 2, True), ('Uint2x8', 8, 2, False), ('Int4x8', 8, 4, True), ('Uint4x8', 8, 4, False),
    ('Int2x16', 16, 2, True), ('Uint2x16', 16, 2, False), ('Int4x16', 16, 4, True), ('Uint4x16', 16, 4, False),
    ('Int2x32', 32, 2, True), ('Uint2x32', 32, 2, False),
]
for F, cb, n, signed in INTPACK:
    pk, up = 'glm::pack' + F, 'glm::unpack' + F
    ct = ('int%d_t' if signed else 'uint%d_t') % cb
    wt = ('int%d_t' if signed else 'uint%d_t') % (cb * n)
    vec = 'glm::vec<%d, %s, glm::defaultp>' % (n, 'glm::%sint%d' % ('' if signed else 'u', cb))
    ins = [(ct, XS[i]) for i in range(n)]
    d.shim('glm_pack' + F, wt, ins, 'return %s(%s(%s));' % (pk, vec, ', '.join(XS[:n])))
    d.shim('glm_unpack' + F, 'void', [(wt, 'p')], 'auto r = %s(p); %s' % (up, store(n, 'r')), outs=[(ct, 'out', n)])
    d.shim('glm_repack_' + F, wt, [(wt, 'p')], 'return %s(%s(p));' % (pk, up))
    d.shim('glm_reunpack_' + F, 'void', [(wt, 'p')],
           'auto a = %s(p); auto b = %s(%s(a)); %s %s' % (up, up, pk, store(n, 'b'), store(n, 'a', 'ref')),
           outs=[(ct, 'out', n), (ct, 'ref', n)])
    C('glm_pack' + F, '%s  %s' % (pk, GTC),
      ensures=[('first_component_least_significant', '(u64)RESULT == (%s)' % ' | '.join('((u64)%s << %d)' % (XS[i], cb * i) for i in range(n)))])
    C('glm_unpack' + F, '%s  %s' % (up, GTC),
      ensures=[('comp%d_is_bits_from_%d' % (i, cb * i), '(u64)out[%d] == spec_ufield(p, %d, %d)' % (i, cb * i, cb)) for i in range(n)])
    C('glm_repack_' + F, '%s(%s(p))  %s' % (pk, up, GTC), ensures=[('repack_identity', 'RESULT == p')])
    C('glm_reunpack_' + F, '%s(%s(%s(p)))  %s' % (up, pk, up, GTC), ensures=[('comp%d_stable' % i, 'out[%d] == ref[%d]' % (i, i)) for i in range(n)])

d.shim('glm_packDouble2x32', 'double', [('uint32_t', 'x'), ('uint32_t', 'y')], 'return glm::packDouble2x32(glm::uvec2(x, y));')
d.shim('glm_unpackDouble2x32', 'void', [('double', 'v')], 'glm::uvec2 r = glm::unpackDouble2x32(v); out[0] = r.x; out[1] = r.y;', outs=[('uint32_t', 'out', 2)])
d.shim('glm_repack_Double2x32', 'double', [('double', 'v')], 'return glm::packDouble2x32(glm::unpackDouble2x32(v));')
d.shim('glm_reunpack_Double2x32', 'void', [('double', 'v')],
       'glm::uvec2 a = glm::unpackDouble2x32(v); glm::uvec2 b = glm::unpackDouble2x32(glm::packDouble2x32(a)); out[0] = b.x; out[1] = b.y; ref[0] = a.x; ref[1] = a.y;',
       outs=[('uint32_t', 'out', 2), ('uint32_t', 'ref', 2)])
C('glm_packDouble2x32', 'glm::packDouble2x32  ' + CORE,
  ensures=[('first_component_least_significant', 'll2c_f64_bits(RESULT) == ((u64)x | ((u64)y << 32))')])
C('glm_unpackDouble2x32', 'glm::unpackDouble2x32  ' + CORE,
  ensures=[('comp0_is_low_word', 'out[0] == (u32)ll2c_f64_bits(v)'), ('comp1_is_high_word', 'out[1] == (u32)(ll2c_f64_bits(v) >> 32)')])
C('glm_repack_Double2x32', 'glm::packDouble2x32(glm::unpackDouble2x32(v))  ' + CORE,
  ensures=[('repack_identity_bitwise', 'll2c_f64_bits(RESULT) == ll2c_f64_bits(v)')])
C('glm_reunpack_Double2x32', 'unpackDouble2x32(packDouble2x32(unpackDouble2x32(v)))  ' + CORE,
  ensures=[('comp%d_stable' % i, 'out[%d] == ref[%d]' % (i, i)) for i in range(2)])


# =====================================================================================
# unsigned small floats: F2x11_1x10 (two 11-bit floats: 5 exponent + 6 mantissa bits, one 10-bit float: 5 + 5)
# =====================================================================================
FW = [11, 11, 10]
FO = offsets(FW)
FM = [6, 6, 5]          # mantissa bits
FX = ['x', 'y', 'z']
pk, up = 'glm::packF2x11_1x10', 'glm::unpackF2x11_1x10'
d.shim('glm_packF2x11_1x10', 'uint32_t', [('float', c) for c in FX], 'return %s(glm::vec3(x, y, z));' % pk)
d.shim('glm_unpackF2x11_1x10', 'void', [('uint32_t', 'p')], 'glm::vec3 r = %s(p); %s' % (up, store(3, 'r')), outs=[('float', 'out', 3)])
for i in range(3):
    d.shim('glm_unpackF2x11_1x10_c%d' % i, 'float', [('uint32_t', 'p')], 'return %s(p).%s;' % (up, FX[i]))
d.shim('glm_repack_F2x11_1x10', 'uint32_t', [('uint32_t', 'p')], 'return %s(%s(p));' % (pk, up))
d.shim('glm_reunpack_F2x11_1x10', 'void', [('uint32_t', 'p')],
       'glm::vec3 a = %s(p); glm::vec3 b = %s(%s(a)); %s %s' % (up, up, pk, store(3, 'b'), store(3, 'a', 'ref')),
       outs=[('float', 'out', 3), ('float', 'ref', 3)])
d.shim('glm_roundtrip_F2x11_1x10', 'void', [('float', c) for c in FX], 'glm::vec3 r = %s(%s(glm::vec3(x, y, z))); %s' % (up, pk, store(3, 'r')),
       outs=[('float', 'out', 3)])
# ---- unpack: layout (component i is a function of bits [off_i, off_i + w_i) only), value of normal codes,
#      zero, Inf/NaN codes
ens = []
for i in range(3):
    code = '(u32)spec_ufield(p, %d, %d)' % (FO[i], FW[i])
    mb = FM[i]
    ens.append(('comp%d_depends_only_on_field_at_bit%d' % (i, FO[i]),
                'spec_same32(out[%d], glm_unpackF2x11_1x10_c%d(p & %#xu))' % (i, i, ((1 << FW[i]) - 1) << FO[i])))
    ens.append(('comp%d_zero_code_is_zero' % i, '%s != 0 || out[%d] == 0.0f' % (code, i)))
    ens.append(('comp%d_normal_code_value' % i, '!spec_sf_is_normal(%s, %d) || ll2c_f32_bits(out[%d]) == ll2c_f32_bits(spec_sf_normal_value(%s, %d))' % (code, mb, i, code, mb)))
    ens.append(('comp%d_inf_code_is_inf' % i, '!spec_sf_is_inf(%s, %d) || out[%d] == __builtin_inff()' % (code, mb, i)))
    ens.append(('comp%d_nan_code_is_nan' % i, '!spec_sf_is_nan(%s, %d) || out[%d] != out[%d]' % (code, mb, i, i)))
    ens.append(('comp%d_finite_code_is_finite_nonnegative' % i, '!spec_sf_is_finite(%s, %d) || (out[%d] >= 0.0f && out[%d] < 0x1p16f)' % (code, mb, i, i)))
C('glm_unpackF2x11_1x10', '%s  %s' % (up, GTC), ensures=ens, uses=['glm_unpackF2x11_1x10_c%d' % i for i in range(3)])
# ---- pack: per field (field i against component i = layout), special values, clamping at both ends
ens = []
for i in range(3):
    c = '(u32)spec_ufield(RESULT, %d, %d)' % (FO[i], FW[i])
    x, mb = FX[i], FM[i]
    tag = 'field%d_at_bit%d' % (i, FO[i])
    ens.append((tag + '_nan_to_nan_code', '!spec_isnan32(%s) || spec_sf_is_nan(%s, %d)' % (x, c, mb)))
    ens.append((tag + '_finite_to_finite_code', '!spec_isfinite32(%s) || spec_sf_is_finite(%s, %d)' % (x, c, mb)))
    ens.append((tag + '_posinf_to_inf_or_largest_code', '!(%s == __builtin_inff()) || spec_sf_is_inf(%s, %d) || %s == spec_sf_max_code(%d)' % (x, c, mb, c, mb)))
    ens.append((tag + '_zero_to_zero_code', '!(%s == 0.0f) || %s == 0' % (x, c)))
    ens.append((tag + '_negative_or_subminimum_to_zero_or_smallest_code', '!(%s < 0x1p-20f) || %s <= 1u' % (x, c)))
    ens.append((tag + '_below_normal_range_stays_below_smallest_normal_code', '!(%s < 0x1p-14f) || %s < %du' % (x, c, 1 << mb)))
    ens.append((tag + '_normal_range_to_normal_code', '!spec_sf_in_normal_range(%s, %d) || spec_sf_is_normal(%s, %d)' % (x, mb, c, mb)))
    ens.append((tag + '_normal_range_within_one_mantissa_step',
                '!spec_sf_in_normal_range(%s, %d) || spec_sf_within_step(%s, spec_sf_normal_value(%s, %d), %d)' % (x, mb, x, c, mb, mb)))
    ens.append((tag + '_above_range_clamps_to_largest_finite_code',
                '!(spec_isfinite32(%s) && %s > spec_sf_max_value(%d)) || %s == spec_sf_max_code(%d)' % (x, x, mb, c, mb)))
C('glm_packF2x11_1x10', '%s  %s' % (pk, GTC), ensures=ens)
# ---- the property verbatim: packing x of the normal range decodes to within one mantissa step
C('glm_roundtrip_F2x11_1x10', '%s(%s(v))  %s' % (up, pk, GTC),
  ensures=[('comp%d_decodes_within_one_mantissa_step' % i,
            '!spec_sf_in_normal_range(%s, %d) || spec_sf_within_step(%s, out[%d], %d)' % (FX[i], FM[i], FX[i], i, FM[i])) for i in range(3)] +
          [('comp%d_representable_value_is_kept' % i,
            '!(spec_sf_in_normal_range(%s, %d) && (ll2c_f32_bits(%s) & %#xu) == 0) || ll2c_f32_bits(out[%d]) == ll2c_f32_bits(%s)' % (
                FX[i], FM[i], FX[i], (1 << (23 - FM[i])) - 1, i, FX[i])) for i in range(3)])
# ---- (a) finite codes round-trip, (b) reunpack
allfinite = ' && '.join('spec_sf_is_finite((u32)spec_ufield(p, %d, %d), %d)' % (FO[i], FW[i], FM[i]) for i in range(3))
C('glm_repack_F2x11_1x10', '%s(%s(p))  %s' % (pk, up, GTC),
  requires=[('all_fields_hold_finite_codes', allfinite)], ensures=[('repack_identity', 'RESULT == p')])
C('glm_reunpack_F2x11_1x10', '%s(%s(%s(p)))  %s' % (up, pk, up, GTC),
  ensures=[('comp%d_stable' % i, 'spec_same32(out[%d], ref[%d])' % (i, i)) for i in range(3)])


# =====================================================================================
# shared-exponent format F3x9_E1x5: layout only (pow/log2/exp2 are uninterpreted functions in the model, so only
# facts that hold for every such function can be proved: which bits each component is computed from / stored to)
# =====================================================================================
pk, up = 'glm::packF3x9_E1x5', 'glm::unpackF3x9_E1x5'
d.shim('glm_unpackF3x9_E1x5', 'void', [('uint32_t', 'p')], 'glm::vec3 r = %s(p); %s' % (up, store(3, 'r')), outs=[('float', 'out', 3)])
d.shim('glm_unpackF3x9_E1x5_c0', 'float', [('uint32_t', 'p')], 'return %s(p).x;' % up)
EXPM = '0xf8000000u'
# cadical: the two sides are the same float multiply on equal operands; minisat does not finish, cadical needs ~6 min
C('glm_unpackF3x9_E1x5', '%s  %s' % (up, GTC), uses=['glm_unpackF3x9_E1x5_c0'], backends=('cadical',), timeout=900, tier='thorough',
  ensures=[('comp%d_is_mantissa_at_bit%d_scaled_by_exponent_at_bit27' % (i, 9 * i),
            'spec_same32(out[%d], glm_unpackF3x9_E1x5_c0((u32)spec_ufield(p, %d, 9) | (p & %s)))' % (i, 9 * i, EXPM)) for i in range(3)])

# =====================================================================================
# templated packUnorm<uintType> / unpackUnorm<floatType> / packSnorm<intType> / unpackSnorm<floatType>
# =====================================================================================
TEMPL = [('u8', 'glm::uint8', 'uint8_t', 8, 4, False), ('u16', 'glm::uint16', 'uint16_t', 16, 2, False),
         ('i8', 'glm::int8', 'int8_t', 8, 4, True), ('i16', 'glm::int16', 'int16_t', 16, 2, True)]
for tag, gt, ct, cb, n, signed in TEMPL:
    K = 'Snorm' if signed else 'Unorm'
    F = '%s_%s_v%d' % (K, tag, n)
    m = (1 << (cb - 1)) - 1 if signed else (1 << cb) - 1
    pk = 'glm::pack%s<%s>' % (K, gt)
    up = 'glm::unpack%s<float>' % K
    fv = 'glm::vec<%d, float, glm::defaultp>(%s)' % (n, ', '.join(XS[:n]))
    iv = 'glm::vec<%d, %s, glm::defaultp>(%s)' % (n, gt, ', '.join(XS[:n]))
    d.shim('glm_pack' + F, 'void', [('float', XS[i]) for i in range(n)], 'auto r = %s(%s); %s' % (pk, fv, store(n, 'r')), outs=[(ct, 'out', n)])
    d.shim('glm_unpack' + F, 'void', [(ct, XS[i]) for i in range(n)], 'auto r = %s(%s); %s' % (up, iv, store(n, 'r')), outs=[('float', 'out', n)])
    d.shim('glm_repack_' + F, 'void', [(ct, XS[i]) for i in range(n)], 'auto r = %s(%s(%s)); %s' % (pk, up, iv, store(n, 'r')), outs=[(ct, 'out', n)])
    th = 'thorough' if cb >= 16 else 'quick'
    code = (lambda e: '(s64)(s%d)%s' % (cb, e)) if signed else (lambda e: '(u64)%s' % e)
    q = 'spec_snorm' if signed else 'spec_unorm'
    ens = []
    for i in range(n):
        x, c = XS[i], code('out[%d]' % i)
        ens.append(('comp%d_clamps_low' % i, 'spec_isnan32(%s) || %s' % (x, 'spec_snorm_low(%s, %s, %du)' % (x, c, m) if signed else 'spec_unorm_low(%s, %s)' % (x, c))))
        ens.append(('comp%d_clamps_high' % i, 'spec_isnan32(%s) || %s_high(%s, %s, %du)' % (x, q, x, c, m)))
        ens.append(('comp%d_nearest_code' % i, 'spec_isnan32(%s) || %s_nearest(%s, %s, %du)' % (x, q, x, c, m)))
    if cb >= 16:
        # as for 2x16/4x16: tied component-wise to the one-component function, whose quantisation is proved directly
        onefn = 'glm_pack%s1x16' % K
        C('glm_pack' + F, '%s(vec<%d,float>) against glm::pack%s1x16  %s' % (pk, n, K, GTC), tier=th, timeout=600, uses=[onefn], requires=not_nan(n),
          ensures=[('comp%d_is_pack%s1x16' % (i, K), 'spec_isnan32(%s) || out[%d] == %s(%s)' % (XS[i], i, onefn, XS[i])) for i in range(n)])
    else:
        C('glm_pack' + F, '%s(vec<%d,float>)  %s' % (pk, n, GTC), tier=th, requires=not_nan(n), ensures=ens, timeout=600)
    C('glm_unpack' + F, '%s(vec<%d,%s>)  %s' % (up, n, gt, GTC), tier=th, timeout=600,
      ensures=[('comp%d_is_code_over_%d' % (i, m), '%s_decodes(out[%d], %s, %du)' % (q, i, code(XS[i]), m)) for i in range(n)])
    C('glm_repack_' + F, '%s(%s(v))  %s' % (pk, up, GTC), tier=th, timeout=600,
      requires=[('no_component_holds_the_most_negative_code', ' && '.join('%s != -%d' % (code(XS[i]), m + 1) for i in range(n)))] if signed else [],
      ensures=[('comp%d_repack_identity' % i, 'out[%d] == %s' % (i, XS[i])) for i in range(n)])

flat = P.build(d, 'flat')
for fn, real, tier, kw in contracts:
    P.contract(fn, real, tier=tier, **kw)

# ---------------------------------------------------------------------------------------------------------------------------
# half formats (packHalf1x16/2x16/4x16, packHalf<L>, their unpacks): the conversion kernels and their contracts belong to property
# C07; the same contracts are part of this property too ("every pack/unpack pair"), so they are re-enforced here on C07's driver
import importlib as _il, copy as _cp
_c07 = _il.import_module('C07').P
_hb = {}
for _c in _c07.contracts:
    if not (_c.fn.startswith(('glm_packHalf', 'glm_unpackHalf', 'glm_toFloat16', 'glm_half_roundtrip')) and _c.sig is None and not _c.replace):
        continue
    _b0 = _c07.builds[_c.build]
    if _b0.tag not in _hb:
        _hb[_b0.tag] = P.build(_b0.driver, _b0.mode, defines=_b0.defines, flags=_b0.flags, tag='c06_half_' + _b0.tag)
    _c2 = _cp.copy(_c)
    _c2.build = _hb[_b0.tag].tag
    _c2.real = '[half formats, shared with C07] ' + _c.real
    P.contracts.append(_c2)

P.level_text = ('every obligation is a contract clause on the code clang extracts from /repo, discharged by CBMC bit-precisely: '
                'a symbolic packed word stands for every code of every field at once (2^8 .. 2^64 words), a symbolic float for all '
                '2^32 bit patterns; clauses: pack(unpack(p)) == p on canonical words, unpack(pack(unpack(p))) bit-equal to unpack(p) on '
                'all words, field positions (first component least significant), nearest code / clamping per field, special values of '
                'the 11/10-bit floats')
P.level_note = ('trusted: clang-14 lowering (incl. its bit-field layout = the x86-64 ABI), ll2c translation (T-checked), CBMC float model and '
                'its roundf, spec_pack.h written from the GLSL/OpenGL format definitions quoted in the doc comments; 16-bit fields of '
                '2x16/4x16 and of the templated functions are tied relationally to packUnorm1x16/packSnorm1x16, whose quantisation is proved directly')
P.technique = 'CBMC code contracts (DFCC enforce) on mechanically extracted C; SAT bit-precise'
P.design_ref = 'DESIGN.md section 6 C06'
P.assumptions = [
    'NaN components: no claim on the field they are packed into (float -> integer conversion of NaN is undefined; modelled as a nondeterministic value), other fields are still claimed',
    'normalised decode "within float rounding" means |out * max - code| <= max * 2^-22; quantisation "nearest" means |code - x * max| <= 0.5 + max * 2^-23 (rounding of the one float multiply)',
    'small floats: accuracy is claimed on the range with normal codes [2^-14, 65024] (10 bit: [2^-14, 64512]); below 2^-14 only "code below the smallest normal code", below 2^-20 "code 0 or 1"',
    'bit-field unions: clang x86-64 layout (first declared member in the least significant bits)',
    'the shim table is the instantiation set: templated packUnorm/packSnorm/unpackUnorm/unpackSnorm for (uint8, vec4), (uint16, vec2), (int8, vec4), (int16, vec2) with float',
]
P.not_covered = [
    'monotonicity of packing (x <= y => pack(x) <= pack(y)): through a float multiply this does not finish in SAT (probed in DESIGN.md for 1x16: undecided in 300 s); not attempted',
    'packF3x9_E1x5: nothing (pow/log2 are uninterpreted and the float -> uint conversions are out of range for some values of an arbitrary pow, so not even a relational layout clause is provable); '
    'unpackF3x9_E1x5: field positions only, not the value 2^(e-24) * mantissa',
    'packRGBM / unpackRGBM (division and ceil of symbolic floats; no bit layout involved)',
    'packHalf* / unpackHalf* (property C07)',
    'value of the exponent-0 codes of the 11/10-bit floats: GLM decodes them as 2^-15 * (1 + m/64), OpenGL defines them as denormals 2^-14 * m/64; the property statement does not fix this, no clause',
    'templated pack/unpack with double or with 32/64-bit integer types; func_packing_simd.inl (C03)',
    'T-check (native translator validation on random inputs) never compares glm_unpackUnorm4x4 and glm_reunpack_Unorm3x10_1x2: clang leaves an unobservable poison lane in a constant vector operand and the native run-time flags it; the proofs are unaffected (poison = nondeterministic value)',
]
