"""C13 - slerp / mix / lerp of quaternions (kind R: over the reals; branch selection and the affine blend also kind F, bitwise).

Clauses come from proposed/C13_property.json, from the documentation in glm/ext/quaternion_common.hpp and
glm/gtx/quaternion.hpp, and from the textbook definition of spherical linear interpolation: the slerp point between
unit quaternions x and z with angle T = acos(x.z) at parameter t is the unit vector in span(x, z) whose angle to x is
t*T and whose angle to z is (1-t)*T.  They never mention the coefficients sin((1-t)T)/sin(T), sin(tT)/sin(T) the
code computes.
"""
import os
from engine import Prop
from shimgen import *

# kind-R portfolio: the case-split engine (tools/rsplit.py) runs before nlsat: every result is an if-then-else nest over the
# two branch conditions (dot < 0, |dot| > 1 - epsilon); the leaves are ideal-membership problems (Groebner)
os.environ.setdefault('LL2SMT_ENGINES', 'default,groebner,split,nlsat')

P = Prop('C13', 'slerp/mix/lerp interpolate rotations at constant speed along the right arc')
d = P.driver('c13', ['<glm/glm.hpp>', '<glm/gtc/quaternion.hpp>', '<glm/gtx/quaternion.hpp>', '<glm/gtx/dual_quaternion.hpp>'])
contracts = []
fcontracts = []

QC = 'glm/ext/quaternion_common.inl'
XQ = 'glm/gtx/quaternion.inl'
DQ = 'glm/gtx/dual_quaternion.inl'


def R(fn, real, **kw):
    contracts.append((fn, real, kw))


def F(fn, real, ensures, **kw):
    fcontracts.append((fn, real, ensures, kw))


# ---------------------------------------------------------------------------------------- shim vocabulary
def q_t(tag):
    return 'glm::qua<%s, glm::defaultp>' % cpp_type(tag)


def q_ins(tag, n):
    return [(cpp_type(tag), n + c) for c in 'wxyz']


def q_make(tag, n):
    """the (w, x, y, z) constructor takes w first"""
    return '%s(%sw, %sx, %sy, %sz)' % (q_t(tag), n, n, n, n)


def q_store(var, out='out', base=0):
    return ' '.join('%s[%d] = %s.%s;' % (out, base + i, var, c) for i, c in enumerate('wxyz'))


def q_expr(n):
    return '[%sw, %sx, %sy, %sz]' % (n, n, n, n)


# ---------------------------------------------------------------------------------------- specification vocabulary
X, Y = q_expr('x'), q_expr('y')
UNIT = [('unit_x', 'norm2(%s) == 1' % X), ('unit_y', 'norm2(%s) == 1' % Y)]
D = 'dot(%s, %s)' % (X, Y)                               # cosine of the angle between x and y
ABS_D = 'If(%s < 0, -%s, %s)' % (D, D, D)                # |x.y|: cosine of the angle between x and the nearer of y, -y
Z = '[If(%s < 0, -c, c) for c in %s]' % (D, Y)           # the nearer of y, -y (y itself when x.y == 0)
EPS = {'f32': 'R(1)/8388608', 'f64': 'R(1)/4503599627370496'}   # epsilon<T>(): 2^-23, 2^-52 (glm/ext/scalar_constants.hpp)
# nearest float / double to pi (glm::pi<T>()), exact rationals
PI = {'f32': 'R(13176795)/4194304', 'f64': 'R(884279719003555)/281474976710656'}


def blend(p, q, t='a'):
    """the affine blend p*(1-t) + q*t"""
    return 'vadd(vscale(%s, 1 - %s), vscale(%s, %s))' % (p, t, q, t)


def addition(TH, A, B, tagname=''):
    """TRUE identities (A + B == TH as real numbers): sine and cosine of a sum, instantiated at the argument terms of the code"""
    return [('sin_of_sum' + tagname, 'sin(%s) == sin(%s)*cos(%s) + cos(%s)*sin(%s)' % (TH, A, B, A, B)),
            ('cos_of_sum' + tagname, 'cos(%s) == cos(%s)*cos(%s) - sin(%s)*sin(%s)' % (TH, A, B, A, B))]


def arc_clauses(guard, z, TH, B, A):
    """the point at parameter t on the great arc from x to z (angle TH between them): unit, in the plane of x and z, at angle
    B (= t*TH) from x and A (= (1-t)*TH) from z"""
    return [('trig_branch_unit_length', 'Implies(%s, norm2(out) == 1)' % guard),
            ('trig_branch_angle_from_x_is_t_times_theta', 'Implies(%s, dot(%s, out) == cos(%s))' % (guard, X, B)),
            ('trig_branch_angle_to_end_is_one_minus_t_times_theta', 'Implies(%s, dot(%s, out) == cos(%s))' % (guard, z, A)),
            ('trig_branch_in_plane_of_x_and_y', 'Implies(%s, And(minors3(%s, %s, out)))' % (guard, X, Y))]


for tag in ('f32', 'f64'):
    T = cpp_type(tag)
    qx, qy = q_make(tag, 'x'), q_make(tag, 'y')
    xy = q_ins(tag, 'x') + q_ins(tag, 'y')
    THR = '1 - %s' % EPS[tag]
    one, zero = '%s(1)' % T, '%s(0)' % T

    def shim3(name, call, ins=None, tag=tag, T=T, xy=xy):
        d.shim(name, 'void', xy + ([(T, 'a')] if ins is None else ins), 'auto r = %s; %s' % (call, q_store('r')), outs=[(T, 'out', 4)])

    # ------------------------------------------------------------------ lerp: the exact affine blend
    fn = 'glm_quat_lerp_' + tag
    shim3(fn, 'glm::lerp(%s, %s, a)' % (qx, qy))
    R(fn, 'glm::lerp(qua, qua, a)  ' + QC, requires=[('a_in_0_1', 'And(a >= 0, a <= 1)')],
      ensures=[('is_affine_blend', 'And(eqv(out, %s))' % blend(X, Y)),
               ('at_0_is_x', 'Implies(a == 0, And(eqv(out, %s)))' % X),
               ('at_1_is_y', 'Implies(a == 1, And(eqv(out, %s)))' % Y)])

    # ------------------------------------------------------------------ mix: oriented arc (no negation)
    TH = 'acos(%s)' % D
    A, B = '(1 - a)*%s' % TH, 'a*%s' % TH
    fn = 'glm_quat_mix_' + tag
    shim3(fn, 'glm::mix(%s, %s, a)' % (qx, qy))
    R(fn, 'glm::mix(qua, qua, a)  ' + QC, requires=UNIT + addition(TH, A, B),
      ensures=[('linear_fallback_is_affine_blend', 'Implies(%s > %s, And(eqv(out, %s)))' % (D, THR, blend(X, Y)))] +
      arc_clauses('%s <= %s' % (D, THR), Y, TH, B, A))
    shim3(fn.replace('mix', 'mix_t0'), 'glm::mix(%s, %s, %s)' % (qx, qy, zero), ins=[])
    shim3(fn.replace('mix', 'mix_t1'), 'glm::mix(%s, %s, %s)' % (qx, qy, one), ins=[])
    R(fn.replace('mix', 'mix_t0'), 'glm::mix(x, y, 0)  ' + QC, requires=UNIT, ensures=[('starts_at_x', 'And(eqv(out, %s))' % X)])
    R(fn.replace('mix', 'mix_t1'), 'glm::mix(x, y, 1)  ' + QC, requires=UNIT, ensures=[('ends_at_y', 'And(eqv(out, %s))' % Y)])

    # ------------------------------------------------------------------ slerp: shorter arc (y negated iff x.y < 0)
    TH = 'acos(%s)' % ABS_D
    A, B = '(1 - a)*%s' % TH, 'a*%s' % TH
    fn = 'glm_quat_slerp_' + tag
    shim3(fn, 'glm::slerp(%s, %s, a)' % (qx, qy))
    R(fn, 'glm::slerp(qua, qua, a)  ' + QC, requires=UNIT + addition(TH, A, B),
      ensures=[('linear_fallback_is_affine_blend_towards_nearer_of_y_minus_y',
                'Implies(%s > %s, And(eqv(out, %s)))' % (ABS_D, THR, blend(X, Z)))] +
      arc_clauses('%s <= %s' % (ABS_D, THR), Z, TH, B, A))
    shim3(fn.replace('slerp', 'slerp_t0'), 'glm::slerp(%s, %s, %s)' % (qx, qy, zero), ins=[])
    shim3(fn.replace('slerp', 'slerp_t1'), 'glm::slerp(%s, %s, %s)' % (qx, qy, one), ins=[])
    R(fn.replace('slerp', 'slerp_t0'), 'glm::slerp(x, y, 0)  ' + QC, requires=UNIT, ensures=[('starts_at_x', 'And(eqv(out, %s))' % X)])
    R(fn.replace('slerp', 'slerp_t1'), 'glm::slerp(x, y, 1)  ' + QC, requires=UNIT,
      ensures=[('ends_at_y_or_minus_y', 'Or(And(eqv(out, %s)), And(eqv(out, vneg(%s))))' % (Y, Y)),
               ('ends_at_minus_y_exactly_when_dot_negative', 'And(eqv(out, %s))' % Z)])
    # symmetry: slerp(x, y, t) == +-slerp(y, x, 1 - t); the shim takes b as a parameter, the contract requires b == 1 - a
    fn = 'glm_quat_slerp_sym_' + tag
    d.shim(fn, 'void', xy + [(T, 'a'), (T, 'b')], 'auto r = glm::slerp(%s, %s, a); auto s = glm::slerp(%s, %s, b); %s %s' % (
        qx, qy, qy, qx, q_store('r'), q_store('s', out='rev')), outs=[(T, 'out', 4), (T, 'rev', 4)])
    R(fn, 'glm::slerp(x, y, t) vs glm::slerp(y, x, 1 - t)  ' + QC, requires=UNIT + [('b_is_one_minus_a', 'b == 1 - a')],
      ensures=[('equal_up_to_sign', 'Or(And(eqv(out, rev)), And(eqv(out, vneg(rev))))')])

    # ------------------------------------------------------------------ slerp with k extra spins: total angle theta + k*pi
    PHI = '(%s + k*%s)' % (TH, PI[tag])
    As, Bs = '%s - a*%s' % (TH, PHI), 'a*%s' % PHI
    fn = 'glm_quat_slerp_spin_' + tag
    shim3(fn, 'glm::slerp(%s, %s, a, k)' % (qx, qy), ins=[(T, 'a'), ('int32_t', 'k')])
    R(fn, 'glm::slerp(qua, qua, a, k)  ' + QC, requires=UNIT + addition(TH, As, Bs),
      ensures=[('linear_fallback_is_affine_blend_towards_nearer_of_y_minus_y',
                'Implies(%s > %s, And(eqv(out, %s)))' % (ABS_D, THR, blend(X, Z)))] +
      arc_clauses('%s <= %s' % (ABS_D, THR), Z, TH, Bs, As))
    shim3(fn.replace('spin', 'spin_t0'), 'glm::slerp(%s, %s, %s, k)' % (qx, qy, zero), ins=[('int32_t', 'k')])
    R(fn.replace('spin', 'spin_t0'), 'glm::slerp(x, y, 0, k)  ' + QC, requires=UNIT, ensures=[('starts_at_x', 'And(eqv(out, %s))' % X)])
    fn = 'glm_quat_slerp_spin0_' + tag
    d.shim(fn, 'void', xy + [(T, 'a')], 'auto r = glm::slerp(%s, %s, a, 0); auto s = glm::slerp(%s, %s, a); %s %s' % (
        qx, qy, qx, qy, q_store('r'), q_store('s', out='ref')), outs=[(T, 'out', 4), (T, 'ref', 4)])
    R(fn, 'glm::slerp(x, y, t, 0) vs glm::slerp(x, y, t)  ' + QC, requires=UNIT,
      ensures=[('zero_spins_is_plain_slerp', 'And(eqv(out, ref))')])

flat = P.build(d, 'flat', defines=['GLM_ENABLE_EXPERIMENTAL'])
for fn, real, kw in contracts:
    kw.setdefault('timeout', 300)
    P.contract(fn, real, kind='R', **kw)
