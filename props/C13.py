"""C13 - slerp / mix / lerp of quaternions and their gtx relatives (kind R: over the reals; the affine blend of lerp<float> also kind F, bitwise).

Clauses come from proposed/C13_property.json, from the documentation in glm/ext/quaternion_common.hpp and
glm/gtx/quaternion.hpp, and from the textbook definition of spherical linear interpolation: the slerp point between
unit quaternions x and z with angle T = acos(x.z) at parameter t is the unit vector in span(x, z) whose angle to x is
t*T and whose angle to z is (1-t)*T.  They never mention the coefficients sin((1-t)T)/sin(T), sin(tT)/sin(T) the
code computes.
"""
import os
from engine import Prop
from shimgen import *

# kind-R portfolio: the case-split engine (tools/rsplit.py) runs before nlsat: every result is an if-then-else nest over the
# two branch conditions (dot < 0, |dot| > 1 - epsilon); the leaves are ideal-membership problems (Groebner)
os.environ.setdefault('LL2SMT_ENGINES', 'default,groebner,split,nlsat')

P = Prop('C13', 'slerp/mix/lerp interpolate rotations at constant speed along the right arc')
d = P.driver('c13', ['<glm/glm.hpp>', '<glm/gtc/quaternion.hpp>', '<glm/gtx/quaternion.hpp>', '<glm/gtx/dual_quaternion.hpp>',
                     '<glm/gtx/compatibility.hpp>', '<glm/gtx/rotate_vector.hpp>'])
contracts = []
fcontracts = []

QC = 'glm/ext/quaternion_common.inl'
XQ = 'glm/gtx/quaternion.inl'
DQ = 'glm/gtx/dual_quaternion.inl'


def R(fn, real, **kw):
    contracts.append((fn, real, kw))


def F(fn, real, ensures, **kw):
    fcontracts.append((fn, real, ensures, kw))


# ---------------------------------------------------------------------------------------- shim vocabulary
def q_t(tag):
    return 'glm::qua<%s, glm::defaultp>' % cpp_type(tag)


def q_ins(tag, n):
    return [(cpp_type(tag), n + c) for c in 'wxyz']


def q_make(tag, n):
    """qua::wxyz(w, x, y, z) takes w first in every configuration (the 4-argument constructor takes x first under GLM_FORCE_QUAT_DATA_XYZW)"""
    return '%s::wxyz(%sw, %sx, %sy, %sz)' % (q_t(tag), n, n, n, n)


def q_store(var, out='out', base=0):
    return ' '.join('%s[%d] = %s.%s;' % (out, base + i, var, c) for i, c in enumerate('wxyz'))


def q_expr(n):
    return '[%sw, %sx, %sy, %sz]' % (n, n, n, n)


# ---------------------------------------------------------------------------------------- specification vocabulary
X, Y = q_expr('x'), q_expr('y')
UNIT = [('unit_x', 'norm2(%s) == 1' % X), ('unit_y', 'norm2(%s) == 1' % Y)]
D = 'dot(%s, %s)' % (X, Y)                               # cosine of the angle between x and y
ABS_D = 'If(%s < 0, -%s, %s)' % (D, D, D)                # |x.y|: cosine of the angle between x and the nearer of y, -y
Z = '[If(%s < 0, -c, c) for c in %s]' % (D, Y)           # the nearer of y, -y (y itself when x.y == 0)
# mix (oriented arc): the great arc from x to -x is not unique and the formula is 0/0 there
NOT_ANTIPODAL = [('y_is_not_minus_x', '%s > -1' % D)]
EPS = {'f32': 'R(1)/8388608', 'f64': 'R(1)/4503599627370496'}   # epsilon<T>(): 2^-23, 2^-52 (glm/ext/scalar_constants.hpp)
# nearest float / double to pi (glm::pi<T>()), exact rationals
PI = {'f32': 'R(13176795)/4194304', 'f64': 'R(884279719003555)/281474976710656'}


def blend(p, q, t='a'):
    """the affine blend p*(1-t) + q*t"""
    return 'vadd(vscale(%s, 1 - %s), vscale(%s, %s))' % (p, t, q, t)


def addition(TH, A, B, tagname=''):
    """TRUE identities (A + B == TH as real numbers): sine and cosine of a sum, instantiated at the argument terms of the code"""
    return [('sin_of_sum' + tagname, 'sin(%s) == sin(%s)*cos(%s) + cos(%s)*sin(%s)' % (TH, A, B, A, B)),
            ('cos_of_sum' + tagname, 'cos(%s) == cos(%s)*cos(%s) - sin(%s)*sin(%s)' % (TH, A, B, A, B))]


def arc_clauses(guard, z, TH, B, A):
    """the point at parameter t on the great arc from x to z (angle TH between them): unit, in the plane of x and z, at angle
    B (= t*TH) from x and A (= (1-t)*TH) from z"""
    return [('trig_branch_unit_length', 'Implies(%s, norm2(out) == 1)' % guard),
            ('trig_branch_angle_from_x_is_t_times_theta', 'Implies(%s, dot(%s, out) == cos(%s))' % (guard, X, B)),
            ('trig_branch_angle_to_end_is_one_minus_t_times_theta', 'Implies(%s, dot(%s, out) == cos(%s))' % (guard, z, A)),
            ('trig_branch_in_plane_of_x_and_y', 'Implies(%s, And(minors3(%s, %s, out)))' % (guard, X, Y))]


for tag in ('f32', 'f64'):
    T = cpp_type(tag)
    qx, qy = q_make(tag, 'x'), q_make(tag, 'y')
    xy = q_ins(tag, 'x') + q_ins(tag, 'y')
    THR = '1 - %s' % EPS[tag]
    one, zero = '%s(1)' % T, '%s(0)' % T

    def shim3(name, call, ins=None, tag=tag, T=T, xy=xy):
        d.shim(name, 'void', xy + ([(T, 'a')] if ins is None else ins), 'auto r = %s; %s' % (call, q_store('r')), outs=[(T, 'out', 4)])

    # ------------------------------------------------------------------ lerp: the exact affine blend
    fn = 'glm_quat_lerp_' + tag
    shim3(fn, 'glm::lerp(%s, %s, a)' % (qx, qy))
    R(fn, 'glm::lerp(qua, qua, a)  ' + QC, requires=[('a_in_0_1', 'And(a >= 0, a <= 1)')],
      ensures=[('is_affine_blend', 'And(eqv(out, %s))' % blend(X, Y)),
               ('at_0_is_x', 'Implies(a == 0, And(eqv(out, %s)))' % X),
               ('at_1_is_y', 'Implies(a == 1, And(eqv(out, %s)))' % Y)])

    # ------------------------------------------------------------------ mix: oriented arc (no negation)
    TH = 'acos(%s)' % D
    A, B = '(1 - a)*%s' % TH, 'a*%s' % TH
    fn = 'glm_quat_mix_' + tag
    shim3(fn, 'glm::mix(%s, %s, a)' % (qx, qy))
    R(fn, 'glm::mix(qua, qua, a)  ' + QC, requires=UNIT + NOT_ANTIPODAL + addition(TH, A, B),
      ensures=[('linear_fallback_is_affine_blend', 'Implies(%s > %s, And(eqv(out, %s)))' % (D, THR, blend(X, Y)))] +
      arc_clauses('%s <= %s' % (D, THR), Y, TH, B, A))
    shim3(fn.replace('mix', 'mix_t0'), 'glm::mix(%s, %s, %s)' % (qx, qy, zero), ins=[])
    shim3(fn.replace('mix', 'mix_t1'), 'glm::mix(%s, %s, %s)' % (qx, qy, one), ins=[])
    R(fn.replace('mix', 'mix_t0'), 'glm::mix(x, y, 0)  ' + QC, requires=UNIT + NOT_ANTIPODAL, ensures=[('starts_at_x', 'And(eqv(out, %s))' % X)])
    R(fn.replace('mix', 'mix_t1'), 'glm::mix(x, y, 1)  ' + QC, requires=UNIT + NOT_ANTIPODAL, ensures=[('ends_at_y', 'And(eqv(out, %s))' % Y)])

    # ------------------------------------------------------------------ slerp: shorter arc (y negated iff x.y < 0)
    TH = 'acos(%s)' % ABS_D
    A, B = '(1 - a)*%s' % TH, 'a*%s' % TH
    fn = 'glm_quat_slerp_' + tag
    shim3(fn, 'glm::slerp(%s, %s, a)' % (qx, qy))
    R(fn, 'glm::slerp(qua, qua, a)  ' + QC, requires=UNIT + addition(TH, A, B),
      ensures=[('linear_fallback_is_affine_blend_towards_nearer_of_y_minus_y',
                'Implies(%s > %s, And(eqv(out, %s)))' % (ABS_D, THR, blend(X, Z)))] +
      arc_clauses('%s <= %s' % (ABS_D, THR), Z, TH, B, A))
    shim3(fn.replace('slerp', 'slerp_t0'), 'glm::slerp(%s, %s, %s)' % (qx, qy, zero), ins=[])
    shim3(fn.replace('slerp', 'slerp_t1'), 'glm::slerp(%s, %s, %s)' % (qx, qy, one), ins=[])
    R(fn.replace('slerp', 'slerp_t0'), 'glm::slerp(x, y, 0)  ' + QC, requires=UNIT, ensures=[('starts_at_x', 'And(eqv(out, %s))' % X)])
    R(fn.replace('slerp', 'slerp_t1'), 'glm::slerp(x, y, 1)  ' + QC, requires=UNIT,
      ensures=[('ends_at_y_or_minus_y', 'Or(And(eqv(out, %s)), And(eqv(out, vneg(%s))))' % (Y, Y)),
               ('ends_at_minus_y_exactly_when_dot_negative', 'And(eqv(out, %s))' % Z)])
    # symmetry: slerp(x, y, t) == +-slerp(y, x, 1 - t).  The second argument list contains the `1 - a` of the property statement itself (the
    # only arithmetic in any shim of this module): with a separate parameter b and requires b == 1 - a the ten sin/cos applications are
    # related only through congruence axioms and the case-split engine does not finish (see the report)
    fn = 'glm_quat_slerp_sym_' + tag
    d.shim(fn, 'void', xy + [(T, 'a')], 'auto r = glm::slerp(%s, %s, a); auto s = glm::slerp(%s, %s, %s - a); %s %s' % (
        qx, qy, qy, qx, one, q_store('r'), q_store('s', out='rev')), outs=[(T, 'out', 4), (T, 'rev', 4)])
    R(fn, 'glm::slerp(x, y, t) vs glm::slerp(y, x, 1 - t)  ' + QC, requires=UNIT,
      # the statement's "equal up to sign" in its sharper form (the disjunction  out == rev or out == -rev  itself is left UNKNOWN by the
      # portfolio: the case-split engine cannot take a disjunction of two equality blocks apart; it follows from this clause)
      ensures=[('equal_for_nonnegative_dot_opposite_for_negative_dot', 'And(eqv(out, [If(%s < 0, -c, c) for c in rev]))' % D)])

    # ------------------------------------------------------------------ slerp with k extra spins: total angle theta + k*pi
    PHI = '(k*%s + %s)' % (PI[tag], TH)
    As, Bs = '%s - a*%s' % (TH, PHI), 'a*%s' % PHI
    fn = 'glm_quat_slerp_spin_' + tag
    shim3(fn, 'glm::slerp(%s, %s, a, k)' % (qx, qy), ins=[(T, 'a'), ('int32_t', 'k')])
    R(fn, 'glm::slerp(qua, qua, a, k)  ' + QC, requires=UNIT + addition(TH, As, Bs),
      ensures=[('linear_fallback_is_affine_blend_towards_nearer_of_y_minus_y',
                'Implies(%s > %s, And(eqv(out, %s)))' % (ABS_D, THR, blend(X, Z)))] +
      arc_clauses('%s <= %s' % (ABS_D, THR), Z, TH, Bs, As))
    shim3(fn.replace('spin', 'spin_t0'), 'glm::slerp(%s, %s, %s, k)' % (qx, qy, zero), ins=[('int32_t', 'k')])
    R(fn.replace('spin', 'spin_t0'), 'glm::slerp(x, y, 0, k)  ' + QC, requires=UNIT, ensures=[('starts_at_x', 'And(eqv(out, %s))' % X)])
    fn = 'glm_quat_slerp_spin0_' + tag
    d.shim(fn, 'void', xy + [(T, 'a')], 'auto r = glm::slerp(%s, %s, a, 0); auto s = glm::slerp(%s, %s, a); %s %s' % (
        qx, qy, qx, qy, q_store('r'), q_store('s', out='ref')), outs=[(T, 'out', 4), (T, 'ref', 4)])
    R(fn, 'glm::slerp(x, y, t, 0) vs glm::slerp(x, y, t)  ' + QC, requires=UNIT,
      ensures=[('zero_spins_is_plain_slerp', 'And(eqv(out, ref))')])

    # ------------------------------------------------------------------ gtx shortMix: shorter arc, angle through atan2(sqrt(1 - c^2), c)
    # |x.y| written so that it is syntactically the term the symbolic execution builds for fCos (the clamps a <= 0, a >= 1 return early);
    # every clause that uses it is guarded by 0 < a < 1, where it IS |x.y|; the requires are identities for any value of the term
    C_SM = 'If(And(a > 0, a < 1, %s < 0), -%s, %s)' % (D, D, D)
    SN = 'sqrt(1 - %s*%s)' % (C_SM, C_SM)
    TH2 = 'atan2(%s, %s)' % (SN, C_SM)
    A2, B2 = '(1 - a)*%s' % TH2, 'a*%s' % TH2
    ATAN2 = [('atan2_of_sine_and_cosine', 'Implies(%s*%s <= 1, And(cos(%s) == %s, sin(%s) == %s))' % (C_SM, C_SM, TH2, C_SM, TH2, SN))]
    INSIDE = 'And(a > 0, a < 1, %s)'
    fn = 'glm_quat_shortMix_' + tag
    shim3(fn, 'glm::shortMix(%s, %s, a)' % (qx, qy))
    R(fn, 'glm::shortMix(qua, qua, a)  ' + XQ, requires=UNIT + ATAN2 + addition(TH2, A2, B2),
      ensures=[('at_0_is_x', 'Implies(a == 0, And(eqv(out, %s)))' % X),
               ('at_1_is_y_or_minus_y', 'Implies(a == 1, Or(And(eqv(out, %s)), And(eqv(out, vneg(%s)))))' % (Y, Y)),
               ('linear_fallback_is_affine_blend_towards_nearer_of_y_minus_y',
                'Implies(%s, And(eqv(out, %s)))' % (INSIDE % ('%s > %s' % (ABS_D, THR)), blend(X, Z)))] +
      arc_clauses(INSIDE % ('%s <= %s' % (ABS_D, THR)), Z, TH2, B2, A2))

    # ------------------------------------------------------------------ gtx fastMix: normalised linear interpolation
    BL = 'vadd(vscale(%s, a), vscale(%s, 1 - a))' % (Y, X)     # y*a + x*(1-a): the affine blend, summands in the order of the code's term
    LEN = 'sqrt(norm2(%s))' % BL                                # |blend|; it vanishes only for y == -x, a == 1/2
    NZ = '%s > 0' % LEN
    fn = 'glm_quat_fastMix_' + tag
    shim3(fn, 'glm::fastMix(%s, %s, a)' % (qx, qy))
    R(fn, 'glm::fastMix(qua, qua, a)  ' + XQ, requires=UNIT,
      ensures=[('unit_length', 'Implies(%s, norm2(out) == 1)' % NZ),
               ('is_affine_blend_over_its_length', 'Implies(%s, And(eqv(vscale(out, %s), %s)))' % (NZ, LEN, BL)),
               ('at_0_is_x', 'Implies(a == 0, And(eqv(out, %s)))' % X),
               ('at_1_is_y', 'Implies(a == 1, And(eqv(out, %s)))' % Y)])

    # ------------------------------------------------------------------ gtx dual-quaternion lerp (DLB): blend of both parts towards
    # the one of y, -y whose REAL part is nearer to the real part of x (same sign for both parts), not normalised
    DT = 'glm::tdualquat<%s, glm::defaultp>' % T
    dq_ins = q_ins(tag, 'xr') + q_ins(tag, 'xd') + q_ins(tag, 'yr') + q_ins(tag, 'yd') + [(T, 'a')]
    XR, XD, YR, YD = q_expr('xr'), q_expr('xd'), q_expr('yr'), q_expr('yd')
    DR = 'dot(%s, %s)' % (XR, YR)
    ZR, ZD = '[If(%s < 0, -c, c) for c in %s]' % (DR, YR), '[If(%s < 0, -c, c) for c in %s]' % (DR, YD)
    fn = 'glm_dualquat_lerp_' + tag
    d.shim(fn, 'void', dq_ins, 'auto r = glm::lerp(%s(%s, %s), %s(%s, %s), a); %s %s' % (
        DT, q_make(tag, 'xr'), q_make(tag, 'xd'), DT, q_make(tag, 'yr'), q_make(tag, 'yd'), q_store('r.real'), q_store('r.dual', base=4)),
        outs=[(T, 'out', 8)])
    R(fn, 'glm::lerp(tdualquat, tdualquat, a)  ' + DQ, requires=[('a_in_0_1', 'And(a >= 0, a <= 1)')],
      ensures=[('real_part_is_affine_blend_towards_nearer_of_y_minus_y', 'And(eqv(out[0:4], %s))' % blend(XR, ZR)),
               ('dual_part_is_affine_blend_with_the_same_sign', 'And(eqv(out[4:8], %s))' % blend(XD, ZD)),
               ('at_0_is_x', 'Implies(a == 0, And(eqv(out, %s + %s)))' % (XR, XD)),
               ('at_1_is_y_or_minus_y', 'Implies(a == 1, Or(And(eqv(out, %s + %s)), And(eqv(out, vneg(%s + %s)))))' % (YR, YD, YR, YD))])

    # ------------------------------------------------------------------ gtx/compatibility lerp (scalar, vec2..4): x*(1-a) + y*a
    for L in (1, 2, 3, 4):
        fn = 'glm_compat_lerp_v%d_%s' % (L, tag)
        ui, vi = vec_ins(L, tag, 'u'), vec_ins(L, tag, 'v')
        U, V = '[%s]' % ', '.join(n for _, n in ui), '[%s]' % ', '.join(n for _, n in vi)
        if L == 1:
            d.shim(fn, 'void', ui + vi + [(T, 'a')], 'out[0] = glm::lerp(u0, v0, a);', outs=[(T, 'out', 1)])
        else:
            d.shim(fn, 'void', ui + vi + [(T, 'a')], 'auto r = glm::lerp(%s, %s, a); %s' % (vec_make(L, tag, 'u'), vec_make(L, tag, 'v'), vec_store(L, 'r')),
                   outs=[(T, 'out', L)])
        R(fn, 'glm::lerp(%s, a)  glm/gtx/compatibility.hpp' % ('T, T' if L == 1 else 'vec%d, vec%d' % (L, L)),
          ensures=[('is_affine_blend', 'And(eqv(out, %s))' % blend(U, V))])

    # ------------------------------------------------------------------ gtx/rotate_vector slerp(vec3, vec3, a): no fallback, no negation
    ui, vi = vec_ins(3, tag, 'u'), vec_ins(3, tag, 'v')
    U, V = '[u0, u1, u2]', '[v0, v1, v2]'
    DV = 'dot(%s, %s)' % (U, V)
    TH3 = 'acos(%s)' % DV
    A3, B3 = '(1 - a)*%s' % TH3, 'a*%s' % TH3
    # domain: unit vectors, not antiparallel (the great arc from u to -u is not unique).  PARALLEL and identical vectors are in the
    # domain: the interpolation between u and u is u.  Same rules as quaternion mix: exact arc point up to the threshold
    # 1 - epsilon<T>(), affine blend above it.
    VREQ = [('unit_u', 'norm2(%s) == 1' % U), ('unit_v', 'norm2(%s) == 1' % V), ('not_antiparallel', '%s > -1' % DV)]
    VTRIG = '%s <= %s' % (DV, THR)
    fn = 'glm_vec3_slerp_' + tag
    d.shim(fn, 'void', ui + vi + [(T, 'a')], 'auto r = glm::slerp(%s, %s, a); %s' % (vec_make(3, tag, 'u'), vec_make(3, tag, 'v'), vec_store(3, 'r')),
           outs=[(T, 'out', 3)])
    R(fn, 'glm::slerp(vec3, vec3, a)  glm/gtx/rotate_vector.inl', requires=VREQ + addition(TH3, A3, B3),
      ensures=[('identical_vectors_give_that_vector', 'Implies(And(eqv(%s, %s)), And(eqv(out, %s)))' % (U, V, U)),
               ('nearly_parallel_is_affine_blend', 'Implies(%s > %s, And(eqv(out, %s)))' % (DV, THR, blend(U, V))),
               ('unit_length', 'Implies(%s, norm2(out) == 1)' % VTRIG),
               ('angle_from_x_is_t_times_theta', 'Implies(%s, dot(%s, out) == cos(%s))' % (VTRIG, U, B3)),
               ('angle_to_y_is_one_minus_t_times_theta', 'Implies(%s, dot(%s, out) == cos(%s))' % (VTRIG, V, A3)),
               ('in_plane_of_x_and_y', 'Implies(%s, And(minors3(%s, %s, out)))' % (VTRIG, U, V))])
    for tv, nm, end in ((zero, 't0', U), (one, 't1', V)):
        d.shim('glm_vec3_slerp_%s_%s' % (nm, tag), 'void', ui + vi, 'auto r = glm::slerp(%s, %s, %s); %s' % (
            vec_make(3, tag, 'u'), vec_make(3, tag, 'v'), tv, vec_store(3, 'r')), outs=[(T, 'out', 3)])
        R('glm_vec3_slerp_%s_%s' % (nm, tag), 'glm::slerp(vec3 x, vec3 y, %s)  glm/gtx/rotate_vector.inl' % nm[1], requires=VREQ,
          ensures=[('is_end_point', 'And(eqv(out, %s))' % end)])

    # ------------------------------------------------------------------ kind F (bitwise, every float pattern incl. NaN/Inf)
    W = 32 if tag == 'f32' else 64
    SAME = 'cspec_same%d' % W
    lit = (lambda v: v + 'f') if tag == 'f32' else (lambda v: v)
    ONE = lit('1.0')
    EPSC = '0x1p-23f' if tag == 'f32' else '0x1p-52'
    MUL = lambda p, q, W=W: 'SPEC_FMUL%d(%s, %s)' % (W, p, q)      # float product (kind F: commutative uninterpreted function, see uf_float)
    # dot(qua, qua) = (w.w + x.x) + (y.y + z.z): glm/detail/type_quat.inl
    DOTF = '((%s + %s) + (%s + %s))' % (MUL('xw', 'yw'), MUL('xx', 'yx'), MUL('xy', 'yy'), MUL('xz', 'yz'))
    ABSF = '(%s < 0 ? -%s : %s)' % (DOTF, DOTF, DOTF)
    OMA = '(%s - a)' % ONE

    def fsum(xt, yt, order):
        """x-term + y-term; float addition is commutative, the operand order only follows the order clang happens to emit so that the
        SAT solver sees two structurally identical adders (any other order is the same clause, just slower to prove)"""
        return '%s + %s' % ((xt, yt) if order == 'xy' else (yt, xt))
    F('glm_quat_lerp_' + tag, 'glm::lerp(qua, qua, a)  ' + QC,
      [('is_x_times_one_minus_a_plus_y_times_a_bitwise', ' && '.join(
          '%s(out[%d], %s)' % (SAME, i, fsum(MUL(OMA, 'x' + c), MUL('y' + c, 'a'), 'yx')) for i, c in enumerate('wxyz')))])
    for f2 in ('slerp', 'mix'):
        zc = (lambda c: '(%s < 0 ? -y%s : y%s)' % (DOTF, c, c)) if f2 == 'slerp' else (lambda c: 'y' + c)
        cnd = ABSF if f2 == 'slerp' else DOTF
        F('glm_quat_%s_%s' % (f2, tag), 'glm::%s(qua, qua, a)  %s' % (f2, QC),
          [('above_threshold_is_blend_%s_bitwise' % ('towards_y_negated_iff_float_dot_negative' if f2 == 'slerp' else 'of_x_and_y'),
            '!(%s > %s - %s) || (%s)' % (cnd, ONE, EPSC, ' && '.join(
                '%s(out[%d], %s)' % (SAME, i, fsum(MUL(OMA, 'x' + c), MUL(zc(c), 'a'), 'xy' if f2 == 'slerp' else 'yx')) for i, c in enumerate('wxyz'))))])

flat = P.build(d, 'flat', defines=['GLM_ENABLE_EXPERIMENTAL'])
flatF = P.build(d, 'flat', defines=['GLM_ENABLE_EXPERIMENTAL'], tag='c13_flat_bits')   # same IR; separate tag: results are keyed by (function, build)

# tiers: quick = every obligation of the contract is decided by z3's default tactic in < ~20 s of CPU; the arc clauses need the
# case split + Groebner leaves (minutes).  Timeouts are wall clock and the machine is shared.
QUICK = ('glm_quat_lerp_', 'glm_compat_lerp_', 'glm_dualquat_lerp_', 'glm_quat_slerp_t0_', 'glm_quat_slerp_t1_', 'glm_quat_slerp_spin_t0_',
         'glm_quat_slerp_spin0_', 'glm_vec3_slerp_t0_', 'glm_vec3_slerp_t1_', 'glm_quat_fastMix_')
for fn, real, kw in contracts:
    kw.setdefault('timeout', 600 if 'slerp_spin_f' in fn else 300)
    kw.setdefault('tier', 'quick' if fn.startswith(QUICK) else 'thorough')
    P.contract(fn, real, kind='R', **kw)
# kind F: only the bitwise affine blend of lerp<float> is decided (cadical, ~60 s CPU); the others time out at 600 s (see not_covered) and are
# registered only when C13_TRY_UNDECIDED=1
F_DECIDED = ('glm_quat_lerp_f32',)
for fn, real, ens, kw in fcontracts:
    if fn in F_DECIDED or os.environ.get('C13_TRY_UNDECIDED') == '1':
        P.contract(fn, real, ensures=ens, build=flatF, unwind=2, backends=('sat',), timeout=600, uf_float=('fmul', 'fdiv'), tier='thorough', **kw)

# GLM_FORCE_QUAT_DATA_XYZW only changes the argument order of the 4-argument quaternion constructor; library code has to build quaternions with
# qua::wxyz(), so no result may change: every shim of this module, extracted under that macro, is bit-identical to its default extraction
xyzw = P.build(d, 'flat', defines=['GLM_ENABLE_EXPERIMENTAL', 'GLM_FORCE_QUAT_DATA_XYZW'], tag='c13_xyzw_ctor')
same_as_build_contracts(P, d, xyzw, flat.tag, [n for n in d.order if not n.endswith('_f64')], 'GLM_FORCE_QUAT_DATA_XYZW (constructor argument order)')
same_as_build_contracts(P, d, xyzw, flat.tag, [n for n in d.order if n.endswith('_f64')], 'GLM_FORCE_QUAT_DATA_XYZW (constructor argument order)', tier='thorough')

P.level_text = ('over the reals (machine arithmetic treated as mathematical): the real-valued function computed by the code clang extracts from '
                '/repo satisfies, for ALL unit quaternions x, y, ALL real t and ALL integer spin counts k (float and double instantiations): '
                'lerp(x,y,t) and gtx/compatibility lerp are the affine blend x(1-t)+yt exactly; slerp(x,y,0) = x and slerp(x,y,1) = y, or -y exactly '
                'when x.y < 0; with c = |x.y|, T = acos(c) and z the nearer of y, -y: for c <= 1 - epsilon<T>() the result of slerp is a unit '
                'quaternion in the plane of x and y with x.result = cos(tT) and z.result = cos((1-t)T) (the point of the shorter great arc at '
                'constant angular speed, also for t outside [0,1]), with k extra spins the same with total angle T + k*pi_T; for c > 1 - epsilon '
                'it is the affine blend x(1-t)+zt; mix is the same along the oriented arc (no negation, domain x.y > -1); slerp(x,y,t) equals '
                'slerp(y,x,1-t) for x.y >= 0 and its negative for x.y < 0; slerp(x,y,t,0) = slerp(x,y,t); shortMix obeys the slerp clauses for '
                '0 < t < 1 and returns x at 0, +-y at 1; fastMix is the affine blend divided by its length (unit); dual-quaternion lerp blends both '
                'parts towards the one of y, -y whose real part is nearer, and every division in these functions has a non-zero denominator; '
                'decided by z3 nonlinear real arithmetic, case split on the two branch conditions and Groebner bases on the extracted IR.  '
                'lerp<float> is in addition proved bit-precisely (CBMC) equal to (1-a)*x + y*a in IEEE arithmetic for all float patterns')
P.level_note = ('trusted: clang-14 lowering, tools/ll2smt.py symbolic execution + tools/rsplit.py case split, z3, sympy Groebner, specs/rspec.py '
                '(dot, norm2, minors3/det), the ground axioms of sqrt/sin/cos/acos and the trigonometric identities listed under assumptions; '
                'blind to rounding, cancellation in sin(T) near T = 0 and T = pi, overflow/underflow, NaN/Inf, and to the difference between the '
                'float constant pi_T and pi; the threshold 1 - epsilon<T>() and pi_T are the exact rationals of the float/double constants')
P.technique = ('contracts over the reals on mechanically extracted LLVM IR: symbolic execution + z3 QF_NRA / sympy Groebner, '
               'CBMC contracts for bit-exact branch facts')
P.design_ref = 'DESIGN.md sections 5 and 6 C13'
P.assumptions = ['machine arithmetic treated as mathematical (IEEE float/double identified with the reals)',
                 'sin(T) == sin(A)*cos(B) + cos(A)*sin(B) and cos(T) == cos(A)*cos(B) - sin(A)*sin(B) whenever A + B == T, instantiated at '
                 '(A, B) = ((1-t)*T, t*T), T = acos(c) (requires of mix, slerp, gtx slerp(vec3)), T = atan2(sqrt(1-c^2), c) (shortMix), and at '
                 '(A, B) = (T - t*phi, t*phi), phi = T + k*pi_T (slerp with spins)',
                 'c^2 <= 1 => cos(atan2(sqrt(1 - c^2), c)) == c and sin(atan2(sqrt(1 - c^2), c)) == sqrt(1 - c^2) (requires of shortMix)',
                 'ground axioms of the uninterpreted functions: x >= 0 => sqrt(x) >= 0 and sqrt(x)^2 == x; sin^2 + cos^2 == 1; sin(0) == 0, '
                 'cos(0) == 1; -1 <= c <= 1 => cos(acos c) == c, sin(acos c) >= 0, acos c >= 0',
                 'the switch to linear interpolation is specified at |x.y| > 1 - epsilon<T>() with epsilon<float> = 2^-23, epsilon<double> = 2^-52 '
                 '(glm/ext/scalar_constants.hpp); there the result is the affine blend, which is NOT of unit length (only within epsilon)',
                 'extra spins: total angle T + k*pi_T with pi_T = glm::pi<T>(), the float/double nearest to pi (Graphics Gems III p. 96)',
                 'domain of mix (oriented arc): x.y > -1; the great arc from x to -x is not unique and the formula is 0/0 there',
                 'domain of gtx slerp(vec3): unit vectors, x.y > -1; identical / parallel vectors ARE in the domain (the clause demands x)',
                 'lerp and dual-quaternion lerp: 0 <= a <= 1 (GLM asserts it; NDEBUG build)',
                 'the symmetry shim evaluates glm::slerp(y, x, T(1) - a): the subtraction is the "1 - t" of the property statement, the only '
                 'arithmetic in a shim of this module; over the reals 1 - (1 - a) is a',
                 'kind F (lerp<float>): float multiplication abstracted as a commutative uninterpreted function (sound: both sides apply '
                 'the same operation to the same operands)']
P.not_covered = ['"no input pair, however close to parallel or antipodal, makes slerp return NaN or leave the arc" in float arithmetic: needs '
                 'accuracy bounds of acosf/sinf near 1 and of the division by sin(T); over the reals the denominators are proved non-zero',
                 'unit length on the linear-fallback branch (|x.y| > 1 - epsilon): the affine blend is not of unit length; stated, not claimed',
                 'slerp with spins at t = 1 (result +-y) and the documented "long path for negative k": sin(k*pi_T) != 0 for the float constant '
                 'pi_T, so the end point is not a theorem over the reals; t = 0, unit length, plane and both angles are covered for every k',
                 'mix(x, -x, a): 0/0 over the reals (excluded by the domain x.y > -1); in float arithmetic sin(acosf(-1)) != 0 and the code '
                 'returns the zero quaternion for 0 < a < 1 (see proposed/C13_report.md)',
                 'shortMix for a outside [0,1] (the code clamps to x / y; undocumented), fastMix when the blend vanishes (y == -x, a == 1/2: the '
                 'code returns the identity quaternion), gtx squad / intermediate (exp/log of quaternions)',
                 'kind F "slerp negates y iff the float dot < 0" / "mix and slerp return the bitwise affine blend above the threshold" (f32, f64) '
                 'and the bitwise blend of lerp<double>: cadical and minisat time out at 600 s (two float adders per component behind '
                 'uninterpreted products are not recognised as identical); enable with C13_TRY_UNDECIDED=1',
                 'slerp(x,y,t) == +-slerp(y,x,1-t) is claimed in the sharper form "equal for x.y >= 0, opposite for x.y < 0"; the plain disjunction '
                 '(out == rev or out == -rev) is left UNKNOWN by every engine at 300 s (a disjunction of two equality blocks is not split by '
                 'tools/rsplit.py) and is not a separate obligation: it follows from the sharper clause',
                 'GLM_FORCE_QUAT_DATA_WXYZ / aligned / SIMD instantiations (quaternion_common_simd.inl has no mix/slerp specialisation)',
                 'rounding: every equality is over the reals; float results differ by rounding errors that grow like 1/sin(T) near T = pi for mix']
