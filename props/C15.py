"""C15 - non-semantic configuration macros and build settings never change results.
One operation table (shims drawn from the value properties) is compiled under the default configuration and under each
non-semantic configuration / optimisation level; for every (configuration, operation) a relational contract proves
the result bit-identical to the default build's result for all argument values.  Both sides are extracted from /repo."""
import importlib, re
from engine import Prop
from vlib import Shim

P = Prop('C15', 'Non-semantic configuration macros and build settings never change results')

# (module, regex over shim names) - the operation table
TABLE = [
    ('C05', r'^glm_(bitCount|findLSB|findMSB|bitfieldReverse|bitfieldExtract|bitfieldInsert)_(i32|u32)_(s|v4)$|^glm_(uaddCarry|umulExtended|imulExtended)_(s|v4)$'
            # the other widths: under the pre-C++11 language levels GLM uses its own make_signed/make_unsigned tables, one line per width
            r'|^glm_(bitCount|findLSB|findMSB)_(i8|u8|i16|u16|i64|u64)_s$'),
    ('C07', r'^glm_(toFloat32|toFloat16|packHalf2x16|unpackHalf2x16|packHalf4x16)$'),
    ('C06', r'^glm_(pack|unpack)(Unorm4x8|Snorm2x16|Unorm1x16|Snorm1x8|Unorm3x10_1x2|F2x11_1x10|Unorm2x4|Int2x16)$'),
    ('C11', r'^(?!glm_frexp).*_f32$'),   # frexp: libm output parameter is not modelled (uninterpreted call), nothing to compare
    ('C14', r'^glm_(nextFloat|prevFloat|floatDistance|equal_ulps|notEqual_ulps|equal_eps)_f32_s$|^glm_next_float_f32_s$|^glm_prev_float_f32_s$'),
    ('C01', r'^glm_(round|roundEven|trunc|fract|floor|ceil|sign|abs|mod|min|max|clamp|mix|step|smoothstep|isnan|isinf|sqrt|inversesqrt|pow|exp2|log2|sin|atan|fmin|fmax|fclamp)_f32_(v|vv|vs|vvv|vss|vvs|sv|ssv)_v(1|4)$'
            r'|^glm_op_(add|mul|div|mod|shl|shr|and)_(f32|i32|u32)_(vv|vs)_v4$|^glm_(lessThan|equal|notEqual)_(f32|i32)_v4$|^glm_(any|all|not)_v4$'),
    ('C02', r'^glm_(mul_m4x4_m4x4|mul_m3x3_v|mul_v_m4x4|transpose_m3x4|mul_m2x3_m3x2|outerProduct_3x2)_f32$|^glm_conv_m\dx\d_from_m\dx\d$|^glm_mul_m3x3_m3x3_u32$'),
    ('C17', r'^glm_ctor_(vec4_f32_from_2_1_1_f32|vec3_i32_from_1_2_f32_i32_f64_u32|mat\dx\d_(diag|scalars|columns)|quat_s_v)$'),
    # quaternion operations (seed C15_3: dot(quat, quat) summed in storage order, so GLM_FORCE_QUAT_DATA_WXYZ changed its rounding)
    ('C04', r'^glm_(quat_mul_vec3|quat_mul_quat|mat3_cast|mat4_cast|quat_cast_of_mat3_cast|conjugate|inverse_quat|dot_quat|length_quat|normalize_quat|cross_quat_quat|angleAxis|quat_from_euler|quat_from_two_vectors)_f32$'),
    ('C13', r'^glm_quat_(lerp|mix|slerp)_f32$'),
]
d = P.driver('c15', ['<glm/glm.hpp>'])
incl = ['<glm/glm.hpp>']
picked = []
for modname, rx in TABLE:
    try:
        m = importlib.import_module(modname)
    except Exception:
        continue
    for drv in m.P.drivers.values():
        hit = [n for n in drv.order if re.search(rx, n)]
        if not hit:
            continue
        for i in drv.includes:
            if i not in incl and 'gtx' not in i:
                incl.append(i)
        for n in hit:
            s = drv.shims[n]
            if n in d.shims or 'gtx' in s.body:
                continue
            d.shims[n] = s
            d.order.append(n)
            picked.append((modname, n))
d.includes = incl

CONFIGS = {
    'cxx98': ['GLM_FORCE_CXX98'], 'cxx03': ['GLM_FORCE_CXX03'], 'cxx11': ['GLM_FORCE_CXX11'], 'cxx14': ['GLM_FORCE_CXX14'],
    'cxx17': ['GLM_FORCE_CXX17'], 'cxx20': ['GLM_FORCE_CXX20'],
    'inline': ['GLM_FORCE_INLINE'], 'explicit_ctor': ['GLM_FORCE_EXPLICIT_CTOR'], 'ctor_init': ['GLM_FORCE_CTOR_INIT'],
    'size_t_length': ['GLM_FORCE_SIZE_T_LENGTH'], 'xyzw_only': ['GLM_FORCE_XYZW_ONLY'], 'swizzle': ['GLM_FORCE_SWIZZLE'],
    'unrestricted_gentype': ['GLM_FORCE_UNRESTRICTED_GENTYPE'], 'quat_wxyz': ['GLM_FORCE_QUAT_DATA_WXYZ'],
    'compiler_unknown': ['GLM_FORCE_COMPILER_UNKNOWN'], 'platform_unknown': ['GLM_FORCE_PLATFORM_UNKNOWN'], 'arch_unknown': ['GLM_FORCE_ARCH_UNKNOWN'],
    'pure': ['GLM_FORCE_PURE'], 'silent_warnings': ['GLM_FORCE_SILENT_WARNINGS'],
    'cxx98_xyzw_ctor': ['GLM_FORCE_CXX98', 'GLM_FORCE_XYZW_ONLY', 'GLM_FORCE_CTOR_INIT'],
    'inline_sizet_explicit': ['GLM_FORCE_INLINE', 'GLM_FORCE_SIZE_T_LENGTH', 'GLM_FORCE_EXPLICIT_CTOR'],
    # with clang, GLM_HAS_INITIALIZER_LISTS / GLM_HAS_CONSTEXPR / ... come from __has_feature even under GLM_FORCE_CXX98, so the pre-C++11
    # constructor bodies (the ones g++ compiles under GLM_FORCE_CXX98) are only reached once the compiler is 'unknown' as well
    'cxx98_unknown': ['GLM_FORCE_CXX98', 'GLM_FORCE_COMPILER_UNKNOWN'],
}
QUICK_CFG = ('cxx98', 'inline', 'size_t_length', 'xyzw_only', 'pure')
base = P.build(d, 'flat', tag='cfg_default')
builds = {}
for cfg, defs in CONFIGS.items():
    builds[cfg] = P.build(d, 'flat', defines=defs, tag='cfg_' + cfg)
for lvl in ('O0', 'O1', 'O3'):
    builds[lvl] = P.build(d, 'flat_' + lvl, tag='opt_' + lvl)
# GLM's feature detection is compiler specific (clang: __has_feature, g++: GLM_LANG), so under the language-level macros g++ and clang compile
# different bodies: the translator check compares the generated C with a clang-built native reference for these configurations
for cfg in builds:
    if cfg.startswith('cxx'):
        builds[cfg].native_cc = 'clang++-14'


ZERO_SIGN_FREE = False


def beq(t, a, b):
    # identical values: same bits, or both NaN (payloads are outside every property); for the fmin/fmax/fclamp family a zero
    # result is compared by value, because std::fmin/fmax leave the sign of a zero result unspecified for (+0, -0)
    z = ' || (%s == 0 && %s == 0)' % (a, b) if ZERO_SIGN_FREE else ''
    if t == 'float':
        return '(ll2c_f32_bits(%s) == ll2c_f32_bits(%s) || (%s != %s && %s != %s)%s)' % (a, b, a, a, b, b, z)
    if t == 'double':
        return '(ll2c_f64_bits(%s) == ll2c_f64_bits(%s) || (%s != %s && %s != %s)%s)' % (a, b, a, a, b, b, z)
    return '%s == %s' % (a, b)


# the 81 matrix conversions and 27 matrix constructors have two hand-written bodies each (initializer list / assignments, selected by
# GLM_HAS_INITIALIZER_LISTS): every one is compared under GLM_FORCE_CXX98 + GLM_FORCE_COMPILER_UNKNOWN on every change, under the other configurations in the thorough tier
STRUCT_RX = re.compile(r'^glm_conv_m|^glm_ctor_mat')
STRUCT_QUICK_ALL = ('glm_conv_m4x4_from_m3x3', 'glm_ctor_mat3x3_diag')


QUAT_RX = re.compile(r'^glm_(quat_|mat3_cast|mat4_cast|conjugate|inverse_quat|dot_quat|length_quat|normalize_quat|cross_quat|angleAxis)')


def tier_of(cfg, n):
    if QUAT_RX.match(n):
        # quaternion operations: the storage-order configuration is the one that reaches other code in them; per change with cxx98 as well
        return 'quick' if cfg in ('quat_wxyz', 'cxx98') else 'thorough'
    if re.search(r'mul_m4x4_m4x4|mul_m3x3_m3x3_u32', n):
        return 'thorough'
    if STRUCT_RX.match(n) and n not in STRUCT_QUICK_ALL:
        return 'quick' if cfg == 'cxx98_unknown' else 'thorough'
    if re.search(r'_(i8|u8|i16|u16|i64|u64)_s$', n):
        return 'quick' if cfg == 'cxx98' else 'thorough'
    if cfg == 'O0':
        # -O0 keeps every loop and call: the vec4 forms of the bit-counting loops and the float packers take 1-2 min each there
        return 'thorough' if re.search(r'_v4$|^glm_pack|^glm_bitfieldReverse', n) else 'quick'
    return 'quick' if cfg in QUICK_CFG else 'thorough'


src_contracts = {}
for modname, _ in TABLE:
    try:
        m = importlib.import_module(modname)
    except Exception:
        continue
    for c in m.P.contracts:
        src_contracts.setdefault(c.fn, c)

# optimisation levels: the optimiser legitimately rewrites multi-operation float formulas (x/2 -> x*0.5, reassociation-free
# strength reduction), which needs bit-precise multiplier/divider equivalence (out of SAT reach); the op table for -O0/-O1/-O3 is
# therefore the integer/bit, conversion, selection, comparison and single-rounding families
OPT_RX = re.compile(r'^glm_(bitCount|findLSB|findMSB|bitfield|uaddCarry|umulExtended|imulExtended|toFloat|packHalf|unpackHalf|pack|unpack|'
                    r'nextFloat|prevFloat|next_float|prev_float|isnan|isinf|sign|abs|floor|ceil|trunc|round_|min|max|clamp|step|lessThan|equal|notEqual|'
                    r'any|all|not|op_(add|shl|shr|and)|ctor|transpose|conv_|mul_m3x3_m3x3_u32|floatBits|intBits|uintBits)')
for cfg, b in builds.items():
    for modname, n in picked:
        if cfg in ('O0', 'O1', 'O3') and not OPT_RX.match(n):
            continue
        s = d.shims[n].view_sig()
        ZERO_SIGN_FREE = bool(re.search(r'_(fmin|fmax|fclamp)\d?_', n))
        args = ', '.join(nm for _, nm in s['ins'])
        ens = []
        if s['ret'] != 'void':
            ens.append(('same_result_as_default_build', beq(s['ret'], 'RESULT', 'R_%s(%s)' % (n, args))))
        for k, (t, on, cnt) in enumerate(s['outs']):
            for i in range(cnt):
                ens.append(('same_%s_%d_as_default_build' % (on, i), beq(t, '%s[%d]' % (on, i), 'R_%s__o%d_%d(%s)' % (n, k, i, args))))
        sc = src_contracts.get(n)
        # requires of kind-R source contracts are real-arithmetic (Python) expressions: the relational clause is claimed for all argument values instead
        req = list(sc.requires) if (sc is not None and sc.kind != 'R') else []
        if re.match(r'^glm_pack', n):
            # NaN components are outside every pack format's domain (the float->integer conversion of NaN is undefined)
            fl = [nm for (t, nm) in s['ins'] if t in ('float', 'double')]
            if fl:
                req.append(('components_not_nan', ' && '.join('%s == %s' % (x, x) for x in fl)))
        P.contract(n, '%s shim %s under %s vs default configuration' % (modname, n, ' '.join(CONFIGS.get(cfg, ['-' + cfg]))),
                   requires=req, ensures=ens, build=b, rel=('cfg_default', [n]), unwind=max(sc.unwind, 12) if (sc is not None and sc.unwind < 60) else 12,
                   # pre-C++11 round fallback (floor(|x|) plus a comparison of |x| - floor(|x|)): it equals std::round only with exact + and -, so
                   # these two stay interpreted for the functions that round under those configurations; * and / remain abstracted on both sides
                   uf_float=('fmul', 'fdiv', 'sqrt', 'imul', 'iudiv', 'iurem', 'isdiv', 'isrem') if (cfg.startswith('cxx98') or cfg == 'cxx03') and re.search(r'pack|round|Round', n)
                   else ('fmul', 'fdiv', 'fadd', 'fsub', 'sqrt', 'imul', 'iudiv', 'iurem', 'isdiv', 'isrem'), timeout=300 if cfg == 'O0' else 120, tier=tier_of(cfg, n),
                   backends=('sat',))

P.level_text = ('for every (configuration, operation) of the generated table the result computed by the code clang extracts under that '
                'configuration is proved bit-identical, for all argument values in the operation\'s domain, to the result of the code extracted '
                'under the default configuration; also for -O0/-O1/-O3 against -O2')
P.level_note = ('float multiplications/divisions/square roots are abstracted as (commutative for *) uninterpreted functions on both sides, libm calls '
                'are uninterpreted: proved is "same operations on the same bits"; only the operation table and configuration list are covered; '
                'clang-14 only (the optimisation-level claim is about clang IR at the four levels)')
P.technique = 'relational CBMC code contracts between two extractions (configuration X vs default) of the same shim'
P.design_ref = 'DESIGN.md section 6 C15'
P.assumptions = ['the default-configuration behaviour is the reference; it is itself verified by the value properties']
P.not_covered = ['operations outside the table', 'MSVC/ICC-only branches', 'aligned types without intrinsics (not available with clang: see C16)',
                 'semantic switches (handedness, depth range, precision, SIMD) by design']
