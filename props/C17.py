"""C17 - swizzles and constructors select and place exactly the named components.
All source components are symbolic; the expected index of every output component is computed FROM THE ACCESSOR'S
NAME by this generator (the name is the specification).  Bit-exact (kind F)."""
import itertools
from engine import Prop
from shimgen import *

P = Prop('C17', 'Swizzles and constructors select and place exactly the named components')
contracts = []
LETTERS = {'xyzw': 'xyzw', 'rgba': 'rgba', 'stpq': 'stpq'}


def beq(tag, a, b):
    if tag == 'f32':
        return 'll2c_f32_bits(%s) == ll2c_f32_bits(%s)' % (a, b)
    if tag == 'f64':
        return 'll2c_f64_bits(%s) == ll2c_f64_bits(%s)' % (a, b)
    return '%s == %s' % (a, b)


CHUNK = 16
# ---------------------------------------------------------------------------- read swizzles
IMPL = {
    'func': dict(defines=['GLM_FORCE_SWIZZLE'], flags=[], call=lambda v, pat: '%s.%s()' % (v, pat), sets=['xyzw', 'rgba', 'stpq'],
                 real='glm/detail/_swizzle_func.hpp  member-function swizzle'),
    'oper': dict(defines=['GLM_FORCE_SWIZZLE', 'GLM_FORCE_INTRINSICS'], flags=[], call=lambda v, pat: '%s.%s' % (v, pat), sets=['xyzw', 'rgba', 'stpq'],
                 real='glm/detail/_swizzle.hpp  operator swizzle (_swizzle<...>)'),
    'gtx': dict(defines=['GLM_ENABLE_EXPERIMENTAL'], flags=[], call=lambda v, pat: 'glm::%s(%s)' % (pat, v), sets=['xyzw'],
                real='glm/gtx/vec_swizzle.hpp  free-function swizzle'),
}
import re as _re, os as _os
_GTX = set()
for _m in _re.finditer(r'vec<(\d), T, Q> (\w+)\(const glm::vec<(\d), T, Q> &v\)', open(_os.path.join(_os.environ.get('VERIF_REPO', '/repo'), 'glm/gtx/vec_swizzle.hpp')).read()):
    _GTX.add((_m.group(2), int(_m.group(3))))
GTX_MISSING = []
drivers = {}
for impl, cfg in IMPL.items():
    incl = ['<glm/glm.hpp>'] + (['<glm/gtx/vec_swizzle.hpp>'] if impl == 'gtx' else [])
    for tag in (['f32', 'i32'] if impl != 'gtx' else ['f32']):
        T = cpp_type(tag)
        for Ls in (1, 2, 3, 4):
            if impl != 'gtx' and Ls == 1:
                continue  # vec1 has no swizzle members
            # one driver per (implementation, element type, source length): small translation units, compiled in parallel
            btag = 'swz_%s_%s_%d' % (impl, tag, Ls)
            d = P.driver('c17_' + btag, incl)
            drivers[btag] = d
            b = P.build(d, 'flat', defines=cfg['defines'], flags=cfg['flags'], tag=btag)
            for Lo in (2, 3, 4) if impl != 'func' or True else ():
                for setname in cfg['sets']:
                    if impl == 'oper' and Ls == 2 and Lo == 3:
                        continue  # vec2.xxx ... in operator form do not compile in the pinned tree (_swizzle<3,T,Q,E0,E1,E2,-1> has no call operator)
                    L = LETTERS[setname]
                    pats = [''.join(p) for p in itertools.product(L[:Ls], repeat=Lo)]
                    if impl == 'gtx':
                        GTX_MISSING += [(p, Ls) for p in pats if (p, Ls) not in _GTX]
                        pats = [p for p in pats if (p, Ls) in _GTX]
                    for k in range(0, len(pats), CHUNK):
                        chunk = pats[k:k + CHUNK]
                        name = 'glm_swz_%s_%s_%s_from%d_len%d_%d' % (impl, tag, setname, Ls, Lo, k // CHUNK)
                        body = ['%s v = %s;' % (vec_t(Ls, tag), vec_make(Ls, tag, 'a'))]
                        ens = []
                        for j, pat in enumerate(chunk):
                            body.append('{ %s r = %s; %s }' % (vec_t(Lo, tag), cfg['call']('v', pat), vec_store(Lo, 'r', 'out', j * Lo)))
                            for i, ch in enumerate(pat):
                                ens.append(('%s_comp%d_is_%s' % (pat, i, ch), beq(tag, 'out[%d]' % (j * Lo + i), 'a%d' % L.index(ch))))
                        d.shim(name, 'void', vec_ins(Ls, tag, 'a'), ' '.join(body), outs=[(T, 'out', len(chunk) * Lo)])
                        quick = (tag == 'f32') or (setname == 'xyzw' and Ls == 4)
                        contracts.append((name, '%s %s..%s on vec<%d,%s>' % (cfg['real'], chunk[0], chunk[-1], Ls, T),
                                          dict(ensures=ens, build=btag, tier='quick' if quick else 'thorough')))
# ---------------------------------------------------------------------------- writable swizzles (operator form only)
def probe_assignable():
    """which permutation swizzles does GLM accept on the left of '='?  (compile-time fact, probed with std::is_assignable;
    patterns GLM refuses - e.g. 3-letter patterns of a vec4 containing w, because of the dummy E3 = 3 - have nothing to verify)"""
    import subprocess, tempfile, hashlib, json
    repo = _os.environ.get('VERIF_REPO', '/repo')
    items = []
    for Ls in (2, 3, 4):
        for Lo in range(2, Ls + 1):
            for setname in ('xyzw', 'rgba', 'stpq'):
                for p in itertools.permutations(LETTERS[setname][:Ls], Lo):
                    items.append((Ls, Lo, ''.join(p)))
    src = ['#define GLM_FORCE_SWIZZLE', '#define GLM_FORCE_INTRINSICS', '#include <glm/glm.hpp>', '#include <type_traits>', '#include <cstdio>', 'int main(){']
    for Ls, Lo, pat in items:
        src.append('printf("%d %d %s %%d\\n", (int)std::is_assignable<decltype((std::declval<glm::vec<%d,float>&>().%s)), glm::vec<%d,float> >::value);' % (Ls, Lo, pat, Ls, pat, Lo))
    src.append('return 0;}')
    wd = _os.path.join(_os.path.dirname(_os.path.dirname(_os.path.abspath(__file__))), '.work', 'C17_probe')
    _os.makedirs(wd, exist_ok=True)
    open(_os.path.join(wd, 'probe.cpp'), 'w').write('\n'.join(src))
    r = subprocess.run(['clang++-14', '-std=c++17', '-w', '-I' + repo, _os.path.join(wd, 'probe.cpp'), '-o', _os.path.join(wd, 'probe')], capture_output=True)
    if r.returncode != 0:
        return None
    out = subprocess.run([_os.path.join(wd, 'probe')], capture_output=True).stdout.decode()
    ok = set()
    for line in out.splitlines():
        a, b, c, v = line.split()
        if v == '1':
            ok.add((int(a), c))
    return ok


ASSIGNABLE = probe_assignable()
NOT_ASSIGNABLE = []
for tag in ('f32',):
    T = cpp_type(tag)
    for Ls in (2, 3, 4):
        d = P.driver('c17_swzwrite_%s_%d' % (tag, Ls), ['<glm/glm.hpp>'])
        P.build(d, 'flat', defines=IMPL['oper']['defines'], flags=IMPL['oper']['flags'], tag='swzwrite_%s_%d' % (tag, Ls))
        for Lo in range(2, Ls + 1):
            for setname in ('xyzw', 'rgba', 'stpq'):
                L = LETTERS[setname]
                pats = [''.join(p) for p in itertools.permutations(L[:Ls], Lo)]
                if ASSIGNABLE is not None:
                    NOT_ASSIGNABLE += [(p, Ls) for p in pats if (Ls, p) not in ASSIGNABLE]
                    pats = [p for p in pats if (Ls, p) in ASSIGNABLE]
                if not pats:
                    continue
                name = 'glm_swzwrite_%s_%s_vec%d_len%d' % (tag, setname, Ls, Lo)
                body = []
                ens = []
                for j, pat in enumerate(pats):
                    body.append('{ %s v = %s; v.%s = %s; %s }' % (vec_t(Ls, tag), vec_make(Ls, tag, 'a'), pat, vec_make(Lo, tag, 'w'), vec_store(Ls, 'v', 'out', j * Ls)))
                    for comp in range(Ls):
                        ch = L[comp]
                        if ch in pat:
                            ens.append(('%s_writes_%s' % (pat, ch), beq(tag, 'out[%d]' % (j * Ls + comp), 'w%d' % pat.index(ch))))
                        else:
                            ens.append(('%s_keeps_%s' % (pat, ch), beq(tag, 'out[%d]' % (j * Ls + comp), 'a%d' % comp)))
                d.shim(name, 'void', vec_ins(Ls, tag, 'a') + vec_ins(Lo, tag, 'w'), ' '.join(body), outs=[(T, 'out', len(pats) * Ls)])
                contracts.append((name, 'glm/detail/_swizzle.hpp  writable swizzle v.%s = w ... on vec<%d,%s>' % (pats[0], Ls, T),
                                  dict(ensures=ens, build='swzwrite_%s_%d' % (tag, Ls), tier='quick')))

# ---------------------------------------------------------------------------- writable swizzles: compound assignment and aliased right-hand sides
# _swizzle_base2::_apply_op serves =, +=, -=, *=, /= and documents that the right-hand side may be the swizzle's own parent ("Make a copy of the data
# in this == &that"): `v.zyx = v` must read all of the OLD v before writing (seed C17_3 fused the copy loop into the write loop).  Statement: "assigning
# through a writable swizzle changes exactly the named components" - with the named component pat[i] receiving (old value op) source component i.
OPS = (('assign', '=', None), ('add', '+=', '+'), ('sub', '-=', '-'), ('mul', '*=', '*'), ('div', '/=', '/'))
for tag in ('f32',):
    T = cpp_type(tag)
    for Ls in (2, 3, 4):
        d = P.driver('c17_swzop_%s_%d' % (tag, Ls), ['<glm/glm.hpp>'])
        P.build(d, 'flat', defines=IMPL['oper']['defines'], flags=IMPL['oper']['flags'], tag='swzop_%s_%d' % (tag, Ls))
        L = LETTERS['xyzw']
        for Lo in range(2, Ls + 1):
            pats = [''.join(p_) for p_ in itertools.permutations(L[:Ls], Lo)]
            if ASSIGNABLE is not None:
                pats = [p_ for p_ in pats if (Ls, p_) in ASSIGNABLE]
            if not pats:
                continue
            for opname, opcpp, opc in OPS:
                for alias in (False, True):
                    if alias and Lo != Ls:
                        continue        # the parent can only be assigned to a swizzle of its own length
                    if opname == 'assign' and not alias:
                        continue        # v.pat = w with an independent w: glm_swzwrite_* above
                    for ck in range(0, len(pats), 6):        # six patterns per contract (the commutative abstraction of + and * is costly)
                        name = 'glm_swz%s_%s_%s_vec%d_len%d_%d' % ('alias' if alias else 'op', opname, tag, Ls, Lo, ck // 6)
                        body, ens = [], []
                        for j, pat in enumerate(pats[ck:ck + 6]):
                            body.append('{ %s v = %s; v.%s %s %s; %s }' % (vec_t(Ls, tag), vec_make(Ls, tag, 'a'), pat, opcpp,
                                                                          'v' if alias else vec_make(Lo, tag, 'w'), vec_store(Ls, 'v', 'out', j * Ls)))
                            for comp in range(Ls):
                                ch = L[comp]
                                if ch in pat:
                                    src = ('a%d' if alias else 'w%d') % pat.index(ch)
                                    SP = {'+': 'SPEC_FADD32', '-': 'SPEC_FSUB32', '*': 'SPEC_FMUL32', '/': 'SPEC_FDIV32'}
                                    want = src if opc is None else '%s(a%d, %s)' % (SP[opc], comp, src)
                                    ens.append(('%s_%s_%s_gets_old_%s_source_%d' % (pat, opname, ch, 'parent' if alias else 'rhs', pat.index(ch)),
                                                'a%d != a%d || %s != %s || ' % (comp, comp, src, src) + beq(tag, 'out[%d]' % (j * Ls + comp), want) if opc else
                                                beq(tag, 'out[%d]' % (j * Ls + comp), want)))
                                else:
                                    ens.append(('%s_%s_keeps_%s' % (pat, opname, ch), beq(tag, 'out[%d]' % (j * Ls + comp), 'a%d' % comp)))
                        d.shim(name, 'void', vec_ins(Ls, tag, 'a') + ([] if alias else vec_ins(Lo, tag, 'w')), ' '.join(body), outs=[(T, 'out', len(pats[ck:ck + 6]) * Ls)])
                        contracts.append((name, 'glm/detail/_swizzle.hpp  _swizzle_base2::_apply_op: v.%s %s %s ... on vec<%d,%s>' % (pats[ck], opcpp, 'v (aliased)' if alias else 'w', Ls, T),
                                          dict(ensures=ens, build='swzop_%s_%d' % (tag, Ls), tier='quick',
                                               **({'uf_float': ('fmul', 'fdiv', 'fadd', 'fsub')} if opc else {}))))

# ---------------------------------------------------------------------------- constructors
dc = P.driver('c17_ctor', ['<glm/glm.hpp>', '<glm/gtc/quaternion.hpp>'])
P.build(dc, 'flat', tag='ctor')


def compositions(n):
    if n == 0:
        yield ()
        return
    for first in range(1, n + 1):
        for rest in compositions(n - first):
            yield (first,) + rest


def conv_expr(dst, src, e):
    """C-view expression for static_cast<dst>(value of type src held in e)"""
    if src == dst:
        return e
    def as_c(tag, x):
        if tag in FLOAT_TYPES:
            return x
        cpp, n, sg = INT_TYPES[tag]
        return '(s%d)%s' % (n, x) if sg else x
    v = as_c(src, e)
    if dst in FLOAT_TYPES:
        return '(%s)%s' % (FLOAT_TYPES[dst][0], v)
    cpp, n, sg = INT_TYPES[dst]
    if src in FLOAT_TYPES:
        return '(u%d)(s%d)%s' % (n, n, v) if sg else '(u%d)%s' % (n, v)
    return '(u%d)%s' % (n, v)


def conv_requires(dst, src, e):
    if src in FLOAT_TYPES and dst in INT_TYPES:
        cpp, n, sg = INT_TYPES[dst]
        if sg:
            return '%s > -%d.0 && %s < %d.0' % (e, 2 ** (n - 1), e, 2 ** (n - 1) - (129 if n == 32 and src == 'f32' else 1)) if False else \
                '%s >= -%d.0 && %s <= %d.0' % (e, 2 ** (n - 1) // 2, e, 2 ** (n - 1) // 2)
        return '%s >= 0.0 && %s <= %d.0' % (e, e, 2 ** (n - 1))
    return None


TYPE_MIXES = [('f32', ['f32']), ('f32', ['i32', 'f64', 'u32', 'f32']), ('i32', ['f32', 'i32', 'f64', 'u32']), ('f64', ['f32', 'i32'])]
for L in (1, 2, 3, 4):
    for dst, srcs in TYPE_MIXES:
        DT = cpp_type(dst)
        # broadcast of a single scalar
        name = 'glm_ctor_vec%d_%s_broadcast_from_%s' % (L, dst, srcs[0])
        s0 = srcs[0]
        if name in dc.shims:
            continue
        dc.shim(name, 'void', [(cpp_type(s0), 's')], 'auto r = %s(s); %s' % (vec_t(L, dst), vec_store(L, 'r')), outs=[(DT, 'out', L)])
        rq = conv_requires(dst, s0, 's')
        contracts.append((name, 'glm/detail/type_vec%d.inl  vec%d(scalar) broadcast' % (L, L),
                          dict(requires=[('cast_defined', rq)] if rq else [], build='ctor',
                               ensures=[('comp%d' % i, beq(dst, 'out[%d]' % i, conv_expr(dst, s0, 's'))) for i in range(L)])))
        if L == 1:
            continue
        for comp in compositions(L):
            if len(comp) == 1:
                continue  # copy constructor
            for v1 in ((False, True) if 1 in comp else (False,)):
                ins, args, flat = [], [], []
                for pi, sz in enumerate(comp):
                    st = srcs[pi % len(srcs)]
                    pn = 'p%d' % pi
                    if sz == 1 and not v1:
                        ins.append((cpp_type(st), pn))
                        args.append(pn)
                        flat.append((st, pn))
                    else:
                        ins += vec_ins(sz, st, pn + '_')
                        args.append(vec_make(sz, st, pn + '_'))
                        flat += [(st, '%s_%d' % (pn, i)) for i in range(sz)]
                name = 'glm_ctor_vec%d_%s_from_%s%s_%s' % (L, dst, '_'.join(str(c) for c in comp), '_v1' if v1 else '', '_'.join(srcs))
                dc.shim(name, 'void', ins, 'auto r = %s(%s); %s' % (vec_t(L, dst), ', '.join(args), vec_store(L, 'r')), outs=[(DT, 'out', L)])
                reqs = [r for r in (conv_requires(dst, st, e) for st, e in flat) if r]
                contracts.append((name, 'glm/detail/type_vec%d.inl  vec%d(%s) from %s parts' % (L, L, ' + '.join(str(c) for c in comp), '/'.join(srcs)),
                                  dict(requires=[('casts_defined', ' && '.join('(%s)' % r for r in reqs))] if reqs else [], build='ctor',
                                       tier='quick' if (srcs == ['f32'] or dst == 'i32' or L == 4) else 'thorough',
                                       ensures=[('comp%d_in_argument_order' % i, beq(dst, 'out[%d]' % i, conv_expr(dst, flat[i][0], flat[i][1]))) for i in range(L)])))
        # truncating constructors from longer vectors
        for Lsrc in range(L + 1, 5):
            st = srcs[0]
            if 'glm_ctor_vec%d_%s_trunc_vec%d_%s' % (L, dst, Lsrc, st) in dc.shims:
                continue
            name = 'glm_ctor_vec%d_%s_trunc_vec%d_%s' % (L, dst, Lsrc, st)
            dc.shim(name, 'void', vec_ins(Lsrc, st, 'a'), 'auto r = %s(%s); %s' % (vec_t(L, dst), vec_make(Lsrc, st, 'a'), vec_store(L, 'r')), outs=[(DT, 'out', L)])
            reqs = [r for r in (conv_requires(dst, st, 'a%d' % i) for i in range(L)) if r]
            contracts.append((name, 'glm/detail/type_vec%d.inl  vec%d(vec%d) truncation' % (L, L, Lsrc),
                              dict(requires=[('casts_defined', ' && '.join('(%s)' % r for r in reqs))] if reqs else [], build='ctor',
                                   ensures=[('comp%d' % i, beq(dst, 'out[%d]' % i, conv_expr(dst, st, 'a%d' % i))) for i in range(L)])))
# matrix constructors: single scalar (diagonal), C*R scalars, column vectors
for (Cn, Rn) in [(c, r) for c in (2, 3, 4) for r in (2, 3, 4)]:
    tag = 'f32'
    MTn = 'glm/detail/type_mat%dx%d.inl' % (Cn, Rn)
    name = 'glm_ctor_mat%dx%d_diag' % (Cn, Rn)
    dc.shim(name, 'void', [('float', 's')], 'auto m = %s(s); %s' % (mat_t(Cn, Rn, tag), mat_store(Cn, Rn, 'm')), outs=[('float', 'out', Cn * Rn)])
    contracts.append((name, MTn + '  mat(scalar): diagonal', dict(build='ctor', ensures=[
        ('e_c%d_r%d' % (c, r), beq(tag, 'out[%d]' % (c * Rn + r), 's' if c == r else '0.0f')) for c in range(Cn) for r in range(Rn)])))
    name = 'glm_ctor_mat%dx%d_scalars' % (Cn, Rn)
    ins = mat_ins(Cn, Rn, tag, 'a')
    dc.shim(name, 'void', ins, 'auto m = %s(%s); %s' % (mat_t(Cn, Rn, tag), ', '.join(n for _, n in ins), mat_store(Cn, Rn, 'm')), outs=[('float', 'out', Cn * Rn)])
    contracts.append((name, MTn + '  mat(C*R scalars): column-major argument order', dict(build='ctor', ensures=[
        ('e_c%d_r%d' % (c, r), beq(tag, 'out[%d]' % (c * Rn + r), 'a%d%d' % (c, r))) for c in range(Cn) for r in range(Rn)])))
    name = 'glm_ctor_mat%dx%d_columns' % (Cn, Rn)
    dc.shim(name, 'void', ins, 'auto m = %s(%s); %s' % (mat_t(Cn, Rn, tag), ', '.join(
        '%s(%s)' % (vec_t(Rn, tag), ', '.join('a%d%d' % (c, r) for r in range(Rn))) for c in range(Cn)), mat_store(Cn, Rn, 'm')), outs=[('float', 'out', Cn * Rn)])
    contracts.append((name, MTn + '  mat(column vectors)', dict(build='ctor', ensures=[
        ('e_c%d_r%d' % (c, r), beq(tag, 'out[%d]' % (c * Rn + r), 'a%d%d' % (c, r))) for c in range(Cn) for r in range(Rn)])))
# the templated matrix constructors mat(X0, Y0, X1, Y1, ...) and mat(vec<R, V0>, vec<R, V1>, ...): every argument of its own type, neighbours always
# differ (cycle f64, i32, u32, f32, shifted per column), every argument symbolic: element (c, r) is static_cast<float>(argument (c, r)) - a cast
# through a neighbour's type (seed C17_2) loses values of at least one of the four types
MIXCYC = ['f64', 'i32', 'u32', 'f32']
for (Cn, Rn) in [(c, r) for c in (2, 3, 4) for r in (2, 3, 4)]:
    MTn = 'glm/detail/type_mat%dx%d.inl' % (Cn, Rn)
    ty = {(c, r): MIXCYC[(c * Rn + r + c) % 4] for c in range(Cn) for r in range(Rn)}
    ins = [(cpp_type(ty[(c, r)]), 'a%d%d' % (c, r)) for c in range(Cn) for r in range(Rn)]
    ens = [('e_c%d_r%d_is_cast_of_own_argument' % (c, r), beq('f32', 'out[%d]' % (c * Rn + r), conv_expr('f32', ty[(c, r)], 'a%d%d' % (c, r))))
           for c in range(Cn) for r in range(Rn)]
    name = 'glm_ctor_mat%dx%d_scalars_mixed_types' % (Cn, Rn)
    dc.shim(name, 'void', ins, 'auto m = %s(%s); %s' % (mat_t(Cn, Rn, 'f32'), ', '.join(n for _, n in ins), mat_store(Cn, Rn, 'm')), outs=[('float', 'out', Cn * Rn)])
    contracts.append((name, MTn + '  template mat(X0, Y0, ...): C*R scalars of different types', dict(build='ctor', ensures=ens)))
    # column vectors of different element types (one type per column)
    cty = [MIXCYC[(c + 1) % 4] for c in range(Cn)]
    ins2 = [(cpp_type(cty[c]), 'a%d%d' % (c, r)) for c in range(Cn) for r in range(Rn)]
    ens2 = [('e_c%d_r%d_is_cast_of_own_argument' % (c, r), beq('f32', 'out[%d]' % (c * Rn + r), conv_expr('f32', cty[c], 'a%d%d' % (c, r))))
            for c in range(Cn) for r in range(Rn)]
    name = 'glm_ctor_mat%dx%d_columns_mixed_types' % (Cn, Rn)
    dc.shim(name, 'void', ins2, 'auto m = %s(%s); %s' % (mat_t(Cn, Rn, 'f32'), ', '.join(
        '%s(%s)' % (vec_t(Rn, cty[c]), ', '.join('a%d%d' % (c, r) for r in range(Rn))) for c in range(Cn)), mat_store(Cn, Rn, 'm')), outs=[('float', 'out', Cn * Rn)])
    contracts.append((name, MTn + '  template mat(vec<R, V0>, vec<R, V1>, ...): columns of different element types', dict(build='ctor', ensures=ens2)))
# quaternion constructors (named components, configuration independent)
QS = 'out[0] = q.w; out[1] = q.x; out[2] = q.y; out[3] = q.z;'
dc.shim('glm_ctor_quat_wxyz', 'void', [('float', c) for c in 'wxyz'], 'glm::quat q(w, x, y, z); ' + QS, outs=[('float', 'out', 4)])
contracts.append(('glm_ctor_quat_wxyz', 'glm/detail/type_quat.inl  qua(w, x, y, z)', dict(build='ctor', ensures=[
    ('w', beq('f32', 'out[0]', 'w')), ('x', beq('f32', 'out[1]', 'x')), ('y', beq('f32', 'out[2]', 'y')), ('z', beq('f32', 'out[3]', 'z'))])))
dc.shim('glm_ctor_quat_s_v', 'void', [('float', 's'), ('float', 'x'), ('float', 'y'), ('float', 'z')], 'glm::quat q(s, glm::vec3(x, y, z)); ' + QS, outs=[('float', 'out', 4)])
contracts.append(('glm_ctor_quat_s_v', 'glm/detail/type_quat.inl  qua(scalar, vec3)', dict(build='ctor', ensures=[
    ('w', beq('f32', 'out[0]', 's')), ('x', beq('f32', 'out[1]', 'x')), ('y', beq('f32', 'out[2]', 'y')), ('z', beq('f32', 'out[3]', 'z'))])))

for fn, real, kw in contracts:
    kw.setdefault('tier', 'quick')
    P.contract(fn, real, unwind=2, timeout=300, **kw)

P.level_text = ('every generated swizzle accessor (member-function, operator and gtx free-function forms; xyzw/rgba/stpq; all 2-, 3-, 4-letter '
                'patterns per source length) and every generated constructor signature is proved to return/place exactly the components its '
                'name/argument order prescribes, bit-exactly, with all source components symbolic; writable swizzles change exactly the named components')
P.level_note = ('the expected index comes from the accessor name (generator), not from GLM; conversions use C static_cast semantics with in-range '
                'preconditions for float->int; trusted: clang-14 lowering, ll2c (T-checked), CBMC')
P.technique = 'CBMC code contracts (DFCC enforce) on mechanically extracted C; generated accessor/constructor table'
P.design_ref = 'DESIGN.md section 6 C17'
P.assumptions = ['operator swizzles (GLM_SWIZZLE_OPERATOR) are only enabled by GLM when GLM_FORCE_SWIZZLE is combined with a SIMD architecture (GLM_FORCE_INTRINSICS); that build is used for them, with packed (non-aligned) default types']
P.not_covered = ['operator-form 3-letter xyz swizzles of vec2 (v.xxx ...) do not compile in the pinned tree: nothing to verify', '%d permutation swizzles are rejected by GLM on the left of an assignment at compile time (e.g. %s): nothing to verify' % (len(NOT_ASSIGNABLE), ', '.join('vec%d.%s' % (l, p) for p, l in NOT_ASSIGNABLE[:4])), 'gtx/vec_swizzle.hpp does not provide %d of the generated patterns (e.g. %s): nothing to verify for them' % (len(GTX_MISSING), ', '.join('%s(vec%d)' % m for m in GTX_MISSING[:4])), 'SIMD _swizzle_base1 specialisation (C03)', 'element types other than float/int32 in swizzles', '81 matrix shape conversions (proved in C02)']
