"""C03 - SIMD-intrinsic builds return the same results as the pure C++ path.
The value contracts of the other properties are re-enforced on SIMD extractions of the same drivers
(GLM_FORCE_INTRINSICS + GLM_FORCE_DEFAULT_ALIGNED_GENTYPES, so that vec3/vec4/mat4/quat take the *_simd.inl paths) at
three ISA levels.  Since the same contract (same spec functions / same scalar overload) is discharged on the pure
extraction in C01/C02/C04/C10/C12, both builds are proved equal to one specification:
 * kind F contracts of C01 (vector op == scalar overload, bitwise): the scalar overload is pure code even in the SIMD build,
   so this is "SIMD result == pure result" bit-for-bit for the component-wise, integer, bitwise, comparison, selection,
   rounding-to-integer and single-rounded classes, and for branch decisions (kind F contracts of C12: refract zero, faceforward);
 * kind R contracts of C02/C04/C10/C12: multi-term float expressions equal the textbook definition as real functions;
 * where that argument does not apply, a cross-build relational contract (rel=) compares the SIMD extraction with the
   GLM_FORCE_PURE extraction of the same shim at the same ISA flags, bit for bit (NaN == NaN): fma (own shims: the pure vector
   code is a * b + c, the scalar overload std::fma, so C01 has no bitwise fma contract), normalize(vec4) (the SIMD code replaces
   1/sqrt by rsqrtps), refract/faceforward(vec4) (the branch decision including NaN, which the C12 clauses do not pin).

Adaptations of the reused clauses (each with its reason, none weakens what the property statement demands):
 * C01's "identical values" (same bits, or both NaN; fmin/fmax/fclamp: or both zero, whose sign C leaves unspecified) is re-spelt
   through cspec_same32 / cspec_samev32: same predicate, the scalar overload is evaluated once instead of 3-5 times;
 * C01 spells the decrement clause SPEC_FSUB32(a, 1.0f); clang canonicalises x - 1.0f to fadd x, -1.0f in BOTH builds, and
   IEEE x - c == x + (-c), so the clause is re-spelt SPEC_FADD32(a, -1.0f) (same value, same abstraction as the code);
 * SSE2 floor/ceil/round/fract/mod/...(vec4): + and - are not abstracted (the (x + 2^23) - 2^23 fallback needs exact adders).
Everything that is not claimed is listed in EXCLUDE with its reason and repeated in P.not_covered."""
import importlib, re, copy
from engine import Prop
from vlib import Contract

P = Prop('C03', 'SIMD-intrinsic builds return the same results as the pure C++ path')
ISA = {'sse2': ['-msse2'], 'sse41': ['-msse4.1'], 'avx2fma': ['-mavx2', '-mfma']}
SIMD_DEFS = ['GLM_FORCE_INTRINSICS', 'GLM_FORCE_DEFAULT_ALIGNED_GENTYPES']
# (module, regex over contract function names, ISA levels in the per-change tier, regex of the functions that reach SIMD code: only
#  those are in the per-change tier, the rest - scalars, vec2, double - is compiled under the SIMD configuration in the thorough tier)
SOURCES = [
    ('C01', r'_(f32|i32|u32)_.*_v[34]$|^glm_(any|all|not)_v[34]$|_(f32|i32)_v[34]$', ('sse2', 'sse41'), r'.'),
    ('C12', r'.', ('sse2', 'sse41', 'avx2fma'), r'_v[34]_f32$|^glm_(cross|cross_both_orders|mixedProduct)_f32$'),
    ('C10', r'(4x4|3x3)_f32$', ('sse2', 'avx2fma'), r'.'),
    ('C02', r'(m4x4|m3x3|4x4|3x3).*_f32$|_m4x4_v_f32$|_v_m4x4_f32$', ('sse2', 'avx2fma'), r'.'),
    ('C04', r'_f32$|_f$|f32', ('sse2',), r'.'),
]
# Obligations that are NOT claimed: (regex over the function name, regex over the ISA tag, reason).  Deterministic, by name.
EXCLUDE = [
    (r'^glm_op_mul_(i32|u32)_', r'.',
     'integer * of aligned ivec/uvec (SSE2: _mm_mul_epu32 on even/odd lanes + shuffles; SSE4.1/AVX2: _mm_mullo_epi32): the bit-vector multiplier '
     'equivalence with the 32-bit product is not decided reliably (z3 answered the vv forms at SSE4.1 in 25-81 s in one run and hit the 900 s '
     'timeout in another, the vs/sv forms and SSE2 never; SAT never): undecided, not refuted; the T-check compares these shims natively'),
    (r'^glm_mod_f32_v[vs]_v4$', r'^sse2$',
     'mod(vec4) at SSE2: x - y * floor(x / y) in the pure order, with the (x + 2^23) - 2^23 floor: the relational abstraction of * and / fails (cause not isolated; '
     'presumably a NaN quotient reaches the uninterpreted product with different payloads on the two sides) and the exact multiplier/divider instance times out; '
     'undecided, not refuted: the SSE2 floor itself is claimed (glm_floor/ceil/fract_f32_v_v4), mod is claimed at SSE4.1/AVX2'),
    (r'^glm_dot_bits_v4_f32$', r'^sse2$',
     'bit-exact evaluation order of dot(vec4): at SSE2 glm_vec1_dot adds (x*x+z*z)+(y*y+w*w), the pure code (x*x+y*y)+(z*z+w*w); the property '
     'allows multi-term float expressions to differ by rounding, so the bitwise clause demands more than the property (the kind-R contract '
     'glm_dot_v4_f32 is kept; at SSE4.1 (haddps) and AVX (dpps) the order is the pure one and the bitwise contract is claimed, thorough tier)'),
    (r'^glm_(refract|faceforward)_(bits|tir)_v4_f32$', r'^sse2$',
     'bit-exact branch contracts of refract/faceforward(vec4) at SSE2: their clauses take the branch condition from glm::dot(N, I) stored by the same '
     'shim, which in the pure build (and at SSE4.1/AVX) is bit-identical to the dot computed inside refract/faceforward; at SSE2 glm::dot is '
     'glm_vec1_dot ((x+z)+(y+w)) while refract/faceforward use glm_vec4_dot ((x+y)+(z+w), the pure order), so the stored dot is a differently rounded '
     'number and the clause premise is not the decision the code takes (contract assumption, not a code defect); claimed instead at SSE2: the '
     'four result components equal those of the GLM_FORCE_PURE extraction bit for bit (relational contracts on glm_refract_bits_v4_f32 / '
     'glm_faceforward_bits_v4_f32), which includes the branch decision'),
    (r'^glm_faceforward_v4_f32$', r'.',
     'faceforward(vec4) over the reals: the SIMD code selects with sign masks (and/andnot/xor on the float bits), which has no real-arithmetic '
     'meaning (not eligible); the kind-F contract glm_faceforward_bits_v4_f32 states the result bit-exactly (N when dot < 0, -N otherwise)'),
    (r'^glm_normalize_v4_f32$', r'.',
     'normalize(vec4) over the reals: glm_vec4_normalize multiplies by _mm_rsqrt_ps, a hardware approximation without real-arithmetic meaning '
     '(not eligible); the defect itself - highp normalize uses the 12-bit approximation - is caught bit-level by the relational contract '
     'glm_normalize_v4_f32 [rel] against the pure build'),
]
# Shims whose excluded contract is replaced by a cross-build relational contract "SIMD extraction == GLM_FORCE_PURE extraction, bitwise
# (NaN == NaN)": (regex over the function name, regex over the ISA tag, number of leading out[] elements compared or None = all)
REL = [
    (r'^glm_normalize_v4_f32$', r'.', None),
    (r'^glm_(refract|faceforward)_bits_v4_f32$', r'.', 4),
]
# expensive obligations measured on the SIMD extractions: thorough tier only (regex over the function name)
SLOW = r'^glm_mirrorRepeat_f32_v_v4$|^glm_(mul_scalar|scalar_mul|add_scalar)_m4x4_f32$|^glm_refract_snell_v3_f32$'

P.reused = []
P.skipped_sources = []
P.excluded = []


def _int_minmax_guarded():
    """does the tree under verification guard the ivec4/uvec4 min/max/clamp specialisations by GLM_ARCH_SSE41_BIT (proposed patch
    C03_simd_int_minmax_needs_sse41)?  Then they compile at -msse2 (generic code) and their contracts are claimed there too"""
    import os
    try:
        t = open(os.path.join(os.environ.get('VERIF_REPO', '/repo'), 'glm/detail/func_common_simd.inl')).read()
    except OSError:
        return False
    return re.search(r'#\s*if GLM_ARCH & GLM_ARCH_SSE41_BIT[^\n]*\n\s*template<qualifier Q>\s*struct compute_min_vector<4, int', t) is not None


if _int_minmax_guarded():
    EXCLUDE = [e for e in EXCLUDE if 'does not compile at -msse2' not in e[2]]


def excluded(fn, isa):
    for rx, irx, why in EXCLUDE:
        if re.search(rx, fn) and re.search(irx, isa):
            return why
    return None


def same32(e):
    """C01 spells "identical values" as  (bits(O) == bits(X) || (O != O && X != X))  [ || (O == 0 && X == 0) for fmin/fmax ], which
    evaluates the scalar overload X three (five) times; the same predicate through the spec functions cspec_same32 / cspec_samev32
    (same bits or both NaN / numerically equal or both NaN) evaluates it once - the SAT instances are 2-3 times smaller"""
    m = re.match(r'^\(*ll2c_f32_bits\((out\[\d+\]|RESULT)\) == ll2c_f32_bits\(', e)
    if not m:
        return e
    O = m.group(1)
    head = '(ll2c_f32_bits(%s) == ll2c_f32_bits(' % O
    sep = ') || (%s != %s && ' % (O, O)
    for zero in (False, True):
        body = e[1:] if zero else e
        if not body.startswith(head) or sep not in body:
            continue
        X = body[len(head):body.index(sep)]
        plain = head + X + sep + X + ' != ' + X + '))'
        if not zero and body == plain:
            return 'cspec_same32(%s, %s)' % (O, X)
        if zero and body == plain + ' || (%s == 0 && %s == 0))' % (O, X):
            return 'cspec_samev32(%s, %s)' % (O, X)
    m = re.match(r'^ll2c_f32_bits\((out\[\d+\]|RESULT)\) == ll2c_f32_bits\((.*)\)$', e)
    return 'cspec_same32(%s, %s)' % (m.group(1), m.group(2)) if m else e


def adapt(modname, c2, isa):
    """clause adaptations described in the module docstring; returns new lists (the source contract is shared with its module)"""
    ens = list(c2.ensures)
    req = list(c2.requires)
    if modname == 'C01':
        ens = [(n, same32(e)) for n, e in ens]
        if re.match(r'^glm_op_(pre|post)dec_f32_', c2.fn):
            ens = [(n, re.sub(r'SPEC_FSUB32\((\w+), 1\.0f\)', r'SPEC_FADD32(\1, -1.0f)', e)) for n, e in ens]
        if re.match(r'^glm_(fmin|fmax|fclamp)_f32_', c2.fn):
            # C (F.10.9.2) and LLVM minnum/maxnum leave the sign of fmin/fmax(+0, -0) unspecified: the compiler may commute the operands of the
            # vectorised call, so neither build has a defined zero sign there (the T-check tolerates it for the same reason): numeric equality
            ens = [(n, e.replace('cspec_same32(', 'cspec_samev32(')) for n, e in ens]
        if isa == 'sse2' and re.match(r'^glm_(floor|ceil|round|fract|mod|repeat|mirrorClamp|mirrorRepeat|iround|uround)_f32_.*_v4$', c2.fn):
            # the SSE2 fallback of glm_vec4_round is (x + 2^23) - 2^23: it only means something with exact adders, so + and - are not
            # abstracted here (* and / still are, on both sides)
            c2.uf_float = tuple(u for u in c2.uf_float if u not in ('fadd', 'fsub'))
    c2.ensures, c2.requires = ens, req


pure_builds = {}
rel_done = set()
for modname, rx, quick_isa, simd_rx in SOURCES:
    try:
        m = importlib.import_module(modname)
    except Exception as e:
        P.skipped_sources.append('%s (%s)' % (modname, e))
        continue
    Q = m.P
    for isa, flags in ISA.items():
        bmap = {}
        for c in Q.contracts:
            if not re.search(rx, c.fn) or c.sig is not None or getattr(c, 'rel', None):
                continue
            b0 = Q.builds[c.build]
            if b0.mode != 'flat' or any(d.startswith('GLM_FORCE_') and d not in ('GLM_FORCE_QUAT_DATA_WXYZ',) for d in b0.defines):
                continue
            why = excluded(c.fn, isa)
            rel_n = [n for rx_, irx_, n in REL if re.search(rx_, c.fn) and re.search(irx_, isa)]
            if why:
                P.excluded.append((c.fn, isa, why))
            tier = c.tier if (isa in quick_isa and re.search(simd_rx, c.fn) and not re.search(SLOW, c.fn)) else 'thorough'
            if rel_n and (modname, c.fn, isa) not in rel_done:
                # SIMD extraction against the GLM_FORCE_PURE extraction of the same shim at the same ISA flags (bitwise, NaN == NaN); own pair
                # of builds, so that the shim can also keep its reused contract in the ordinary SIMD build
                rel_done.add((modname, c.fn, isa))
                key = (modname, b0.tag, isa)
                if key not in pure_builds:
                    sb = P.build(b0.driver, 'flat', defines=list(b0.defines) + SIMD_DEFS, flags=list(b0.flags) + flags,
                                 tag='%s_%s_%s_rel' % (modname.lower(), b0.tag, isa))
                    pb = P.build(b0.driver, 'flat', defines=list(b0.defines) + ['GLM_FORCE_PURE'], flags=list(b0.flags) + flags,
                                 tag='%s_%s_%s_pure' % (modname.lower(), b0.tag, isa))
                    sb.only, pb.only = set(), set()
                    pure_builds[key] = (sb, pb)
                sb, pb = pure_builds[key]
                sb.only.add(c.fn)
                pb.only.add(c.fn)
                s = b0.driver.shims[c.fn].view_sig()
                args = ', '.join(nm for _, nm in s['ins'])
                ens = []
                for k, (t, on, cnt) in enumerate(s['outs']):
                    for i in range(cnt if rel_n[0] is None else min(cnt, rel_n[0])):
                        ens.append(('simd_%s_%d_is_pure_%s_%d' % (on, i, on, i), 'cspec_same32(%s[%d], R_%s__o%d_%d(%s))' % (on, i, c.fn, k, i, args)))
                req = []
                if c.fn.startswith('glm_normalize_'):
                    # components of moderate magnitude (2^-20 <= |x| <= 2^20): x.x neither overflows nor underflows, so a counterexample is a
                    # representative input (outside, both builds return 0/inf/NaN alike and an abstract rsqrt value does not replay)
                    req = [('components_of_moderate_magnitude', ' && '.join(
                        '((%s >= 9.5367431640625e-07f && %s <= 1048576.0f) || (%s <= -9.5367431640625e-07f && %s >= -1048576.0f))' % (nm, nm, nm, nm)
                        for _, nm in s['ins']))]
                c2 = Contract(c.fn, '[SIMD %s vs GLM_FORCE_PURE] %s' % (isa, c.real), requires=req, ensures=ens, build=sb.tag, rel=(pb.tag, [c.fn]), unwind=12,
                              uf_float=('fmul', 'fdiv', 'fadd', 'fsub', 'sqrt'), timeout=300,
                              # refract: four lanes of k through the uninterpreted products, > 300 s for the SAT race: thorough tier only
                              tier=tier if (isa in quick_isa and 'refract' not in c.fn) else 'thorough')
                P.contracts.append(c2)
                P.reused.append((modname, c.fn + ' [rel]', isa))
            if why:
                continue
            if b0.tag not in bmap:
                bmap[b0.tag] = P.build(b0.driver, 'flat', defines=list(b0.defines) + SIMD_DEFS, flags=list(b0.flags) + flags,
                                       tag='%s_%s_%s' % (modname.lower(), b0.tag, isa))
                bmap[b0.tag].only = set()
            bs = bmap[b0.tag]
            bs.only.add(c.fn)
            for u in c.uses:
                bs.only.add(u)
            c2 = copy.copy(c)
            c2.build = bs.tag
            c2.real = '[SIMD %s] %s' % (isa, c.real)
            c2.tier = tier
            adapt(modname, c2, isa)
            P.contracts.append(c2)
            P.reused.append((modname, c.fn, isa))

# fma(vec3/vec4): C01 does not claim "vector == scalar overload" for fma (the pure vector code is a * b + c, the scalar overload std::fma), so the
# shims live here: SIMD fma == GLM_FORCE_PURE vector fma, bit for bit (NaN == NaN), at the same ISA flags
from shimgen import vec_ins, vec_make, vec_store
dfma = P.driver('c03_fma', ['<glm/glm.hpp>'])
for L in (3, 4):
    dfma.shim('glm_fma_f32_vvv_v%d' % L, 'void', vec_ins(L, 'f32', 'a') + vec_ins(L, 'f32', 'b') + vec_ins(L, 'f32', 'c'),
              'auto r = glm::fma(%s, %s, %s); %s' % (vec_make(L, 'f32', 'a'), vec_make(L, 'f32', 'b'), vec_make(L, 'f32', 'c'), vec_store(L, 'r')),
              outs=[('float', 'out', L)])
for isa, flags in ISA.items():
    sb = P.build(dfma, 'flat', defines=list(SIMD_DEFS), flags=list(flags), tag='c03_fma_%s_rel' % isa)
    pb = P.build(dfma, 'flat', defines=['GLM_FORCE_PURE'], flags=list(flags), tag='c03_fma_%s_pure' % isa)
    for L in (3, 4):
        fn = 'glm_fma_f32_vvv_v%d' % L
        args = ', '.join(nm for _, nm in dfma.shims[fn].view_sig()['ins'])
        P.contracts.append(Contract(fn, '[SIMD %s vs GLM_FORCE_PURE] glm/detail/func_common_simd.inl  compute_fma<%d, float, Q, true> (glm_vec4_fma)' % (isa, L),
                                    ensures=[('simd_out_%d_is_pure_out_%d' % (i, i), 'cspec_same32(out[%d], R_%s__o0_%d(%s))' % (i, fn, i, args)) for i in range(L)],
                                    build=sb.tag, rel=(pb.tag, [fn]), unwind=12, uf_float=('fmul', 'fdiv', 'fadd', 'fsub', 'sqrt'), timeout=300,
                                    tier='quick' if isa in ('sse2', 'sse41') else 'thorough'))
        P.reused.append(('C03', fn + ' [rel]', isa))

# ---------------------------------------------------------------------------------------------------------------------------
# Padding lane of aligned vec3: an aligned float vec3 is a __m128 whose 4th lane is not part of the value.  Lane-wise operators
# carry it along (vec3(1) / d leaves 1/0 or 0/0 there; a later component write does not touch it), so any bit pattern is reachable.
# Every vec3 function must return what the pure code returns for (x, y, z): in particular the result must not depend on the padding lanes.
# The shims build the arguments from raw lanes twice (paddings p and q) and return both results; the contract states they are identical
# (same bits or both NaN) for all lane values; operator==/!= are in addition stated against the three scalar comparisons.
from padfam import add_pad_family
add_pad_family(P, 'c03', ISA, SIMD_DEFS, reused=P.reused)

# "only lowp types may use hardware reciprocal/rsqrt approximations": a structural obligation on every function under contract here that is not a
# lowp instantiation - no call reachable from it in the SIMD extraction is an rcp/rsqrt intrinsic (decided by a scan of the IR call graph)
for _c in P.contracts:
    if 'lowp' not in _c.fn:
        _c.forbid_calls = r'^llvm\.x86\.(sse|avx)[0-9a-z]*\.(rcp|rsqrt)\.'

P.level_text = ('the value contracts of C01 (vector op == scalar overload, bitwise), C12/C10/C02/C04 (textbook definitions over the reals, plus the '
                'bit-exact branch facts of C12) are enforced on SIMD extractions (GLM_FORCE_INTRINSICS + aligned default types) at SSE2, SSE4.1 and '
                'AVX2+FMA; the same contracts hold on the pure extraction in those properties, so both builds equal one specification; fma and '
                'normalize(vec4) are compared directly with the GLM_FORCE_PURE extraction')
P.level_note = ('x86 intrinsics that survive in the IR (min/max.ps, cmp.ss, hadd.ps, dpps, round.ps, psign.d) are modelled from the Intel SDM pseudo-code '
                '(trusted); rsqrt/rcp approximations are uninterpreted (lowp only); kind R part: over the reals (machine arithmetic treated as '
                'mathematical), so "a few units of rounding" is not bounded; a float result that is NaN in both builds counts as equal whatever its '
                'sign/payload; ISA levels other than the three compiled are not covered')
P.technique = 'CBMC code contracts + real-arithmetic contracts re-enforced on SIMD extractions of the same drivers; cross-build relational contracts'
P.design_ref = 'DESIGN.md section 6 C03 and section 10'
P.assumptions = ['machine arithmetic treated as mathematical for the kind-R obligations', 'x86 intrinsic models (Intel SDM)',
                 'MXCSR in its default state (round to nearest, no FTZ/DAZ)']
_why = {}
for fn, isa, why in P.excluded:
    _why.setdefault(why, set()).add(isa)
P.not_covered = ['%s [%s]' % (why, ','.join(sorted(isas))) for why, isas in _why.items()] + [
    'SSE3/SSSE3/SSE4.2/AVX-only levels (select among the same code paths)', 'double / dvec4 AVX paths (compiled and checked only in the thorough tier through the f64 contracts of C12)',
    'rcp/rsqrt accuracy (relative error 2^-11) of the lowp paths', 'size of the rounding difference of multi-term expressions',
    'integer SIMD kernels without a reused contract: bitfieldReverse/bitCount(uvec4) (func_integer_simd.inl), glm_i128_interleave (simd/integer.h)',
    'operator==/!= of aligned vec4 and SIMD swizzle operators (no contract of C01/C17 is reused for them)',
    'GCC: -ffp-contract=fast fuses the _mm_mul_ps/_mm_add_ps pairs at -mfma; the extraction is clang-14 (no contraction across intrinsics)',
    'NEON'] + ['source module not available: ' + x for x in P.skipped_sources]
