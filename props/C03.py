"""C03 - SIMD-intrinsic builds return the same results as the pure C++ path.
The value contracts of the other properties are re-enforced on SIMD extractions of the same drivers
(GLM_FORCE_INTRINSICS + GLM_FORCE_DEFAULT_ALIGNED_GENTYPES, so that vec3/vec4/mat4/quat take the *_simd.inl paths) at
three ISA levels.  Since the same contract (same spec functions / same scalar overload) is discharged on the pure
extraction in C01/C02/C04/C10/C12, both builds are proved equal to one specification:
 * kind F contracts of C01 (vector op == scalar overload, bitwise): the scalar overload is pure code even in the SIMD build,
   so this is "SIMD result == pure result" bit-for-bit for the component-wise, integer, bitwise, comparison, selection,
   rounding-to-integer and single-rounded classes, and for branch decisions (kind F contracts of C12: refract zero, faceforward);
 * kind R contracts of C02/C04/C10/C12: multi-term float expressions equal the textbook definition as real functions."""
import importlib, re, copy
from engine import Prop
from vlib import Contract

P = Prop('C03', 'SIMD-intrinsic builds return the same results as the pure C++ path')
ISA = {'sse2': ['-msse2'], 'sse41': ['-msse4.1'], 'avx2fma': ['-mavx2', '-mfma']}
SIMD_DEFS = ['GLM_FORCE_INTRINSICS', 'GLM_FORCE_DEFAULT_ALIGNED_GENTYPES']
# (module, regex over contract function names, ISA levels in the per-change tier)
SOURCES = [
    ('C01', r'_(f32|i32|u32)_.*_v[34]$|^glm_(any|all|not)_v[34]$|_(f32|i32)_v[34]$', ('sse2', 'sse41')),
    ('C12', r'.', ('sse2', 'sse41', 'avx2fma')),
    ('C10', r'(4x4|3x3)_f32$', ('sse2', 'avx2fma')),
    ('C02', r'(m4x4|m3x3|4x4|3x3).*_f32$|_m4x4_v_f32$|_v_m4x4_f32$', ('sse2', 'avx2fma')),
    ('C04', r'_f32$|_f$|f32', ('sse2',)),
]
P.reused = []
P.skipped_sources = []
for modname, rx, quick_isa in SOURCES:
    try:
        m = importlib.import_module(modname)
    except Exception as e:
        P.skipped_sources.append('%s (%s)' % (modname, e))
        continue
    Q = m.P
    for isa, flags in ISA.items():
        bmap = {}
        for c in Q.contracts:
            if not re.search(rx, c.fn) or c.sig is not None or getattr(c, 'rel', None):
                continue
            b0 = Q.builds[c.build]
            if b0.mode != 'flat' or any(d.startswith('GLM_FORCE_') and d not in ('GLM_FORCE_QUAT_DATA_WXYZ',) for d in b0.defines):
                continue
            if b0.tag not in bmap:
                bmap[b0.tag] = P.build(b0.driver, 'flat', defines=list(b0.defines) + SIMD_DEFS, flags=list(b0.flags) + flags,
                                       tag='%s_%s_%s' % (modname.lower(), b0.tag, isa))
                bmap[b0.tag].only = set()
            if isa == 'sse2' and re.search(r'_(min|max|clamp)_(i32|u32)_', c.fn):
                # func_common_simd.inl implements integer min/max/clamp with _mm_min/max_epi32/_epu32 (SSE4.1) unconditionally: that
                # instantiation does not compile at -msse2 (compile-time defect, nothing to verify)
                continue
            bmap[b0.tag].only.add(c.fn)
            for u in c.uses:
                bmap[b0.tag].only.add(u)
            c2 = copy.copy(c)
            c2.build = bmap[b0.tag].tag
            c2.real = '[SIMD %s] %s' % (isa, c.real)
            c2.tier = c.tier if isa in quick_isa else 'thorough'
            P.contracts.append(c2)
            P.reused.append((modname, c.fn, isa))

P.level_text = ('the value contracts of C01 (vector op == scalar overload, bitwise), C12/C10/C02/C04 (textbook definitions over the reals, plus the '
                'bit-exact branch facts of C12) are enforced on SIMD extractions (GLM_FORCE_INTRINSICS + aligned default types) at SSE2, SSE4.1 and '
                'AVX2+FMA; the same contracts hold on the pure extraction in those properties, so both builds equal one specification')
P.level_note = ('x86 intrinsics that survive in the IR (min/max.ps, cmp.ss, hadd.ps, dpps, round.ps) are modelled from the Intel SDM pseudo-code '
                '(trusted); rsqrt/rcp approximations are uninterpreted (lowp only); kind R part: over the reals (machine arithmetic treated as '
                'mathematical), so "a few units of rounding" is not bounded; ISA levels other than the three compiled are not covered')
P.technique = 'CBMC code contracts + real-arithmetic contracts re-enforced on SIMD extractions of the same drivers'
P.design_ref = 'DESIGN.md section 6 C03 and section 10'
P.assumptions = ['machine arithmetic treated as mathematical for the kind-R obligations', 'x86 intrinsic models (Intel SDM)']
P.not_covered = ['integer clamp (ivec4/uvec4) at SSE2: func_common_simd.inl uses SSE4.1 intrinsics unconditionally and does not compile at -msse2', 'SSE3/SSSE3/SSE4.2/AVX-only levels (select among the same code paths)', 'double / dvec4 AVX paths', 'rcp/rsqrt accuracy (relative error 2^-11)',
                 'size of the rounding difference of multi-term expressions', 'NEON'] + ['source module not available: ' + x for x in P.skipped_sources]
