"""C18 - power-of-two, multiple and bitfield utilities return the documented integer."""
from engine import Prop
from shimgen import *

P = Prop('C18', 'Power-of-two, multiple and bitfield utilities return the documented integer')
INC = ['<glm/glm.hpp>', '<glm/integer.hpp>', '<glm/ext/scalar_integer.hpp>', '<glm/ext/vector_integer.hpp>',
       '<glm/gtc/round.hpp>', '<glm/gtc/bitfield.hpp>', '<glm/gtc/integer.hpp>', '<glm/gtx/integer.hpp>', '<glm/gtx/bit.hpp>']
DEF = ['GLM_ENABLE_EXPERIMENTAL']
d_p2 = P.driver('c18_pow2', INC)     # power-of-two family, highest/lowestBitValue, log2, factorial
d_mu = P.driver('c18_mult', INC)     # multiples
d_bf = P.driver('c18_bits', INC)     # findNSB, mask, fill, rotate, interleave
d_gx = P.driver('c18_gtx', INC)      # gtx_integer pow sqrt mod nlz
# signed 32/64-bit multiples: the source negates / increments Source in its own type, which overflows at the ends of the
# range (undefined behaviour, the subject of C20).  clang and g++ resolve it differently (clang folds `Source + -Source % M`
# into `Source - Source % M`), which the T-check rejects; this driver is therefore compiled with -fwrapv by every compiler
# involved (two's complement wrapping, the framework's default reading of overflow).
d_mw = P.driver('c18_mult_wrapv', INC)
B = {}
for d in (d_p2, d_mu, d_bf, d_gx):
    B[d.name] = P.build(d, 'flat', defines=DEF)
B[d_mw.name] = P.build(d_mw, 'flat', defines=DEF, flags=['-fwrapv'])

F_EXT, F_EXTV = 'glm/ext/scalar_integer.inl', 'glm/ext/vector_integer.inl'
F_RND, F_BF, F_GI, F_XI, F_XB = 'glm/gtc/round.inl', 'glm/gtc/bitfield.inl', 'glm/gtc/integer.inl', 'glm/gtx/integer.inl', 'glm/gtx/bit.inl'

# ------------------------------------------------------------------------------------------------
# instantiation table.  Every function is taken at every integer element type it accepts (all of them compile) in scalar
# form and as vec4; the 32-bit types additionally as vec1..3.
NARROW = ('i8', 'u8', 'i16', 'u16')


def shapes(tag):
    return [0, 4] + ([1, 2, 3] if tag in ('i32', 'u32') else [])


def base_tier(tag, L):
    """per-change tier: every type in scalar form, the 32-bit types also as vec4"""
    return 'quick' if L == 0 or (L == 4 and tag in ('i32', 'u32')) else 'thorough'


def sfx(tag, L):
    return '%s_%s' % (tag, 's' if L == 0 else 'v%d' % L)


def U(tag):
    return 'u%d' % INT_TYPES[tag][1]


def S(tag):
    return 's%d' % INT_TYPES[tag][1]


def pv(tag, e):
    """mathematical value of a (positive) argument, held in u64"""
    return '(u64)(s64)(%s)%s' % (S(tag), e) if INT_TYPES[tag][2] else '(u64)%s' % e


def mwidth(tag):
    """arithmetic used by the multiple specs: (suffix of the spec family, C type)"""
    n = INT_TYPES[tag][1]
    return ('_n', 's32') if n <= 16 else (('', 's64') if n == 32 else ('_w', 's128'))


def mv(tag, e):
    """mathematical value in the arithmetic of the multiple specs"""
    W = mwidth(tag)[1]
    return '(%s)(%s)%s' % (W, S(tag), e) if INT_TYPES[tag][2] else '(%s)%s' % (W, e)


def tmax(tag):
    cpp, n, sg = INT_TYPES[tag]
    v = (1 << (n - sg)) - 1
    return '((s128)0x%xull)' % v if n == 64 else ('0x%xll' % v if n == 32 else '0x%x' % v)


def tmin(tag):
    cpp, n, sg = INT_TYPES[tag]
    if not sg:
        return '((s128)0)' if n == 64 else '0'
    return '(-(s128)0x7fffffffffffffffll - 1)' if n == 64 else ('(-0x%xll - 1)' if n == 32 else '(-0x%x - 1)') % ((1 << (n - 1)) - 1)


def positive(tag, e):
    return '(%s)%s > 0' % (S(tag), e) if INT_TYPES[tag][2] else '%s != 0' % e


def results(L):
    return ['RESULT'] if L == 0 else ['out[%d]' % i for i in range(L)]


def cn(name, L, i):
    return name if L == 0 else '%s_comp%d' % (name, i)


def gen(d, fname, file, tag, L, args, rt, req, ens, label=None, **kw):
    """one shim + one contract.  args: [(kind, name)]; kind 'T' (element type; a vector in vector form), 'Ts' (element
    type, always scalar), 'T8' (element type passed through an 8-bit shim parameter, see P.assumptions), 'I' (int,
    scalar), 'IV' (int; vec<L,int> in vector form).
    req/ens: [(name, fn(c) -> expr or None)], evaluated per component; c maps argument names to the component's C
    expression, c['R'] is the result component."""
    cpp, n, sg = INT_TYPES[tag]
    name = 'glm_%s_%s' % (label or fname, sfx(tag, L))
    ins, call_args = [], []
    for kind, a in args:
        if kind == 'T' and L:
            ins += vec_ins(L, tag, a)
            call_args.append(vec_make(L, tag, a))
        elif kind == 'T8':
            t8 = 'i8' if sg else 'u8'
            if L:
                ins += vec_ins(L, t8, a)
                call_args.append(vec_make(L, tag, a))
            else:
                ins.append((cpp_type(t8), a))
                call_args.append('static_cast<%s>(%s)' % (cpp, a))
        elif kind == 'IV' and L:
            ins += vec_ins(L, 'i32', a)
            call_args.append(vec_make(L, 'i32', a))
        else:
            ins.append((cpp if kind in ('T', 'Ts') else 'int32_t', a))
            call_args.append(a)
    rtype = {'T': cpp, 'bool': 'bool', 'int': 'int32_t'}[rt]
    fcall = 'glm::%s(%s)' % (fname, ', '.join(call_args))
    if L == 0:
        d.shim(name, rtype, ins, 'return %s;' % fcall)
    else:
        d.shim(name, 'void', ins, 'auto r = %s; %s' % (fcall, vec_store(L, 'r')), outs=[(rtype, 'out', L)])
    R, E = [], []
    for i in range(max(L, 1)):
        c = {'R': results(L)[i]}
        for kind, a in args:
            c[a] = '%s%d' % (a, i) if (L and kind in ('T', 'IV', 'T8')) else a
        for rn, f in req:
            e = f(c)
            if e and all(e != e2 for _, e2 in R):
                R.append((cn(rn, L, i), e))
        for en, f in ens:
            e = f(c)
            if e:
                E.append((cn(en, L, i), e))
    real = 'glm::%s%s  %s' % (fname, '<%s>' % cpp if L == 0 else '(vec<%d,%s>)' % (L, cpp), file)
    kw.setdefault('unwind', 67)
    kw.setdefault('build', B[d.name])
    kw.setdefault('tier', base_tier(tag, L))
    P.contract(name, real, requires=R, ensures=E, **kw)


# ------------------------------------------------------------------------------------------------
# power-of-two family.  Domain: x > 0 (the value at 0 is a convention; negative x: see P.not_covered) and the answer
# representable in the type.  vb = number of value bits.
for tag, (cpp, n, sg) in INT_TYPES.items():
    vb = n - sg
    pos = ('x_positive', lambda c: positive(tag, c['x']))
    ceil_fits = ('result_representable', lambda c: '%s <= 0x%xull' % (pv(tag, c['x']), 1 << (vb - 1)))
    near_fits = ('a_nearest_power_representable', lambda c: '%s <= 0x%xull' % (pv(tag, c['x']), 3 << (vb - 2)))
    e_is = [('true_iff_power_of_two', lambda c: '(%s != 0) == spec_is_pow2(%s, %d)' % (c['R'], pv(tag, c['x']), vb))]
    e_ceil = [('smallest_power_of_two_not_below_x', lambda c: '%s == spec_ceil_pow2(%s, %d)' % (pv(tag, c['R']), pv(tag, c['x']), vb))]
    e_floor = [('largest_power_of_two_not_above_x', lambda c: '%s == spec_floor_pow2(%s, %d)' % (pv(tag, c['R']), pv(tag, c['x']), vb))]
    e_near = [('nearest_power_of_two_either_on_tie',
               lambda c: '%sspec_is_nearest_pow2(%s, %s)' % ('(%s)%s > 0 && ' % (S(tag), c['R']) if sg else '', pv(tag, c['R']), pv(tag, c['x'])))]
    for L in shapes(tag):
        a = [('T', 'x')]
        fx = F_EXTV if L else F_EXT
        near_kw = dict(tier='thorough') if (n == 64 and L) else {}
        gen(d_p2, 'isPowerOfTwo', fx, tag, L, a, 'bool', [pos], e_is)
        gen(d_p2, 'nextPowerOfTwo', fx, tag, L, a, 'T', [pos, ceil_fits], e_ceil)
        gen(d_p2, 'prevPowerOfTwo', fx, tag, L, a, 'T', [pos], e_floor)
        gen(d_p2, 'ceilPowerOfTwo', F_RND, tag, L, a, 'T', [pos, ceil_fits], e_ceil)
        gen(d_p2, 'floorPowerOfTwo', F_RND, tag, L, a, 'T', [pos], e_floor)
        gen(d_p2, 'roundPowerOfTwo', F_RND, tag, L, a, 'T', [pos, near_fits], e_near, **near_kw)
        gen(d_p2, 'powerOfTwoAbove', F_XB, tag, L, a, 'T', [pos, ceil_fits], e_ceil)
        gen(d_p2, 'powerOfTwoBelow', F_XB, tag, L, a, 'T', [pos], e_floor)
        gen(d_p2, 'powerOfTwoNearest', F_XB, tag, L, a, 'T', [pos, near_fits], e_near, **near_kw)
        # highest / lowest set bit: statements about the bit pattern, so negative values are in scope
        nz = ('x_nonzero', lambda c: '%s != 0' % c['x'])
        gen(d_p2, 'highestBitValue', F_XB, tag, L, a, 'T', [nz],
            [('value_of_highest_set_bit', lambda c: '%s == (%s)(1ull << spec_msb_index((u64)%s, %d))' % (c['R'], U(tag), c['x'], n))])
        gen(d_p2, 'lowestBitValue', F_XB, tag, L, a, 'T', [nz],
            [('value_of_lowest_set_bit', lambda c: '%s == (%s)(1ull << spec_lsb_index((u64)%s, %d))' % (c['R'], U(tag), c['x'], n))])
        gen(d_p2, 'log2', F_GI, tag, L, a, 'T', [pos],
            [('floor_log2_exact', lambda c: 'spec_is_floor_log2(%s, %s)' % (pv(tag, c['R']), pv(tag, c['x'])))])
        if L != 1:   # gtx factorial has scalar, vec2, vec3, vec4 forms
            t8 = 'i8' if sg else 'u8'
            gen(d_p2, 'factorial', F_XI, tag, L, [('T8', 'x')], 'T',
                [('x_in_documented_range_0_12', lambda c: '%s%s <= 12' % ('(s8)%s >= 0 && ' % c['x'] if sg else '', pv(t8, c['x']))),
                 ('result_representable', lambda c: 'spec_factorial(%s) <= 0x%xull' % (pv(t8, c['x']), (1 << vb) - 1))],
                [('factorial_exact', lambda c: '%s == spec_factorial(%s)' % (pv(tag, c['R']), pv(t8, c['x'])))],
                bounded='x <= 12', unwind=22, timeout=600, tier='quick' if (L == 0 and n == 32) else 'thorough')

# ------------------------------------------------------------------------------------------------
# multiples.  Domain: m > 0 and the answer representable.  8-bit: SAT, per-change tier; 16-bit: SAT, several minutes per
# obligation, thorough tier; 32/64-bit: SMT, thorough tier.
for tag, (cpp, n, sg) in INT_TYPES.items():
    w = mwidth(tag)[0]
    mpos = ('multiple_positive', lambda c: '%s > 0' % mv(tag, c['m']))
    cfit = ('result_representable', lambda c: 'spec_ceil_multiple_fits%s(%s, %s, %s)' % (w, mv(tag, c['x']), mv(tag, c['m']), tmax(tag)))
    ffit = ('result_representable', lambda c: 'spec_floor_multiple_fits%s(%s, %s, %s)' % (w, mv(tag, c['x']), mv(tag, c['m']), tmin(tag)) if sg else None)
    nfit = ('a_nearest_multiple_representable',
            lambda c: 'spec_nearest_multiple_fits%s(%s, %s, %s, %s)' % (w, mv(tag, c['x']), mv(tag, c['m']), tmin(tag), tmax(tag)))
    e_is = [('true_iff_divisible', lambda c: '(%s != 0) == spec_is_multiple%s(%s, %s)' % (c['R'], w, mv(tag, c['x']), mv(tag, c['m'])))]
    e_ceil = [('smallest_multiple_not_below_x', lambda c: 'spec_is_ceil_multiple%s(%s, %s, %s)' % (w, mv(tag, c['R']), mv(tag, c['x']), mv(tag, c['m'])))]
    e_floor = [('largest_multiple_not_above_x', lambda c: 'spec_is_floor_multiple%s(%s, %s, %s)' % (w, mv(tag, c['R']), mv(tag, c['x']), mv(tag, c['m'])))]
    e_near = [('nearest_multiple_either_on_tie', lambda c: 'spec_is_nearest_multiple%s(%s, %s, %s)' % (w, mv(tag, c['R']), mv(tag, c['x']), mv(tag, c['m'])))]
    dm = d_mw if tag in ('i32', 'i64') else d_mu
    if n >= 32:
        # 32/64-bit: neither SAT nor z3/cvc5 decides these division identities over the full range (probed: > 900 s).  What is
        # claimed instead are two embedded 8-bit problems, each exhaustive: x and m multiples of 2^(n-8) (the top byte: sign,
        # range ends, overflow) and |x|, m below 2^8 (the low byte); scalar forms only; reported as bounded.
        low = (1 << (n - 8)) - 1
        sub = [('_top8', 'x, m multiples of 2^%d' % (n - 8),
                lambda c: '(%s & 0x%xull) == 0 && (%s & 0x%xull) == 0' % (c['x'], low, c['m'], low)),
               ('_low8', '|x|, m < 2^8',
                lambda c: ('(%s)%s >= -128 && (%s)%s <= 127' % (S(tag), c['x'], S(tag), c['x']) if sg else '%s <= 255' % c['x']) + ' && %s <= %d' % (c['m'], 127 if sg else 255))]
        vv = [('T', 'x'), ('T', 'm')]
        for ss, btxt, bf in sub:
            bq = ('bounded_subdomain', bf)
            kw = dict(backends=('sat',), timeout=900, tier='thorough', bounded=btxt)
            gen(dm, 'isMultiple', F_EXT, tag, 0, vv, 'bool', [mpos, bq], e_is, label='isMultiple' + ss, **kw)
            gen(dm, 'nextMultiple', F_EXT, tag, 0, vv, 'T', [mpos, cfit, bq], e_ceil, label='nextMultiple' + ss, **kw)
            gen(dm, 'prevMultiple', F_EXT, tag, 0, vv, 'T', [mpos, ffit, bq], e_floor, label='prevMultiple' + ss, **kw)
            gen(dm, 'ceilMultiple', F_RND, tag, 0, vv, 'T', [mpos, cfit, bq], e_ceil, label='ceilMultiple' + ss, **kw)
            gen(dm, 'floorMultiple', F_RND, tag, 0, vv, 'T', [mpos, ffit, bq], e_floor, label='floorMultiple' + ss, **kw)
            gen(dm, 'roundMultiple', F_RND, tag, 0, vv, 'T', [mpos, nfit, bq], e_near, label='roundMultiple' + ss, **kw)
        continue
    for L in shapes(tag):
        if n == 8:
            kw = dict(backends=('sat',), timeout=300, tier='quick' if L == 0 else 'thorough')
        elif L == 0:
            kw = dict(backends=('sat',), timeout=3600, tier='thorough')   # 16-bit: 5-12 min each on cadical
        else:
            continue   # 16-bit vector forms: about 4 x the scalar cost per obligation, not run (P.not_covered)
        vv = [('T', 'x'), ('T', 'm')]
        fx = F_EXTV if L else F_EXT
        forms = [(None, vv)] + ([('_scalarMultiple', [('T', 'x'), ('Ts', 'm')])] if L else [])   # ext: vector source, scalar multiple
        for fs, a in forms:
            lab = lambda f: f + fs if fs else None
            gen(dm, 'isMultiple', fx, tag, L, a, 'bool', [mpos], e_is, label=lab('isMultiple'), **kw)
            gen(dm, 'nextMultiple', fx, tag, L, a, 'T', [mpos, cfit], e_ceil, label=lab('nextMultiple'), **kw)
            gen(dm, 'prevMultiple', fx, tag, L, a, 'T', [mpos, ffit], e_floor, label=lab('prevMultiple'), **kw)
        gen(dm, 'ceilMultiple', F_RND, tag, L, vv, 'T', [mpos, cfit], e_ceil, **kw)
        gen(dm, 'floorMultiple', F_RND, tag, L, vv, 'T', [mpos, ffit], e_floor, **kw)
        gen(dm, 'roundMultiple', F_RND, tag, L, vv, 'T', [mpos, nfit], e_near, **kw)

# ------------------------------------------------------------------------------------------------
# bit utilities
for tag, (cpp, n, sg) in INT_TYPES.items():
    for L in shapes(tag):
        if not (n == 64 and L):   # 64-bit vec4: 4 x ~4 min per obligation, not run (P.not_covered); the scalar form is proved
            gen(d_bf, 'findNSB', F_EXTV if L else F_EXT, tag, L, [('T', 'x'), ('IV', 'k')], 'int',
                [('count_at_least_1', lambda c: '(s32)%s >= 1' % c['k'])],
                [('position_of_kth_set_bit_or_minus_1', lambda c: '(s32)%s == spec_nth_set_bit((u64)%s, %d, (s32)%s)' % (c['R'], c['x'], n, c['k']))],
                timeout=900, tier='quick' if (L == 0 and n <= 16) else 'thorough')
        gen(d_bf, 'mask', F_BF, tag, L, [('T', 'b')], 'T',
            [('count_within_width', lambda c: ('(%s)%s >= 0 && ' % (S(tag), c['b']) if sg else '') + '%s <= %d' % (c['b'], n))],
            [('low_b_bits_set', lambda c: '%s == (%s)spec_ones(0, %s)' % (c['R'], U(tag), c['b']))])
        # rotate by s, 0 <= s < width.  For the 32/64-bit types s == 0 makes the code shift by the full width (undefined
        # behaviour, C20); the extracted code is then nondeterministic while x86 returns x, so s == 0 is not claimed there.
        s_lo = 0 if n <= 16 else 1
        rdom = [('shift_within_width', lambda c: '(s32)s >= %d && (s32)s < %d' % (s_lo, n))]
        rkw = dict(tier='thorough') if (n == 64 and L) else {}
        gen(d_bf, 'bitfieldRotateLeft', F_BF, tag, L, [('T', 'x'), ('I', 's')], 'T', rdom,
            [('rotated_left_by_s', lambda c: '%s == (%s)spec_rotl((u64)%s, s, %d)' % (c['R'], U(tag), c['x'], n))], **rkw)
        gen(d_bf, 'bitfieldRotateRight', F_BF, tag, L, [('T', 'x'), ('I', 's')], 'T', rdom,
            [('rotated_right_by_s', lambda c: '%s == (%s)spec_rotr((u64)%s, s, %d)' % (c['R'], U(tag), c['x'], n))], **rkw)
        # fill: FirstBit is a bit position (0 <= first < width), the range must end inside the value
        fdom = [('range_within_width', lambda c: '(s32)first >= 0 && (s32)first < %d && (s32)count >= 0 && (s32)count <= %d && (s32)first + (s32)count <= %d' % (n, n, n))]
        one = lambda c: '%s == (%s)((u64)%s | spec_ones(first, count))' % (c['R'], U(tag), c['x'])
        zero = lambda c: '%s == (%s)((u64)%s & ~spec_ones(first, count))' % (c['R'], U(tag), c['x'])
        if n < 64:
            e_one, e_zero = [('range_set_rest_kept', one)], [('range_cleared_rest_kept', zero)]
        else:
            # stated in two halves so that a failure in the lower half (no shift >= 32 on the int mask, hence reproducible)
            # is reported with its own counterexample
            e_one = [('range_set_rest_kept_first_below_32', lambda c: '(s32)first >= 32 || ' + one(c)),
                     ('range_set_rest_kept_first_from_32', lambda c: '(s32)first < 32 || ' + one(c))]
            e_zero = [('range_cleared_rest_kept_first_below_32', lambda c: '(s32)first >= 32 || ' + zero(c)),
                      ('range_cleared_rest_kept_first_from_32', lambda c: '(s32)first < 32 || ' + zero(c))]
        gen(d_bf, 'bitfieldFillOne', F_BF, tag, L, [('T', 'x'), ('I', 'first'), ('I', 'count')], 'T', fdom, e_one)
        gen(d_bf, 'bitfieldFillZero', F_BF, tag, L, [('T', 'x'), ('I', 'first'), ('I', 'count')], 'T', fdom, e_zero)

# bitfieldInterleave / bitfieldDeinterleave: the width overloads that exist
OPN = 'xyzw'


def interleave(cnt, tin, tout, vec=False):
    w = INT_TYPES[tin][1]
    cin, cout = cpp_type(tin), cpp_type(tout)
    ops = list(OPN[:cnt])
    spec = 'spec_interleave%d(%s, %d)' % (cnt, ', '.join('(u64)' + o for o in ops), w)
    name = 'glm_bitfieldInterleave%d_%s%s' % (cnt, tin, '_vec' if vec else '')
    if vec:
        call = 'glm::bitfieldInterleave(glm::vec<%d, %s>(%s))' % (cnt, cin, ', '.join(ops))
        real = 'glm::bitfieldInterleave(%svec%d)' % (tin, cnt)
    else:
        call = 'glm::bitfieldInterleave(%s)' % ', '.join(ops)
        real = 'glm::bitfieldInterleave(%s)' % ', '.join([cin] * cnt)
    d_bf.shim(name, cout, [(cin, o) for o in ops], 'return %s;' % call)
    P.contract(name, real + '  ' + F_BF, build=B[d_bf.name], unwind=67,
               ensures=[('bit_i_of_operand_k_at_bit_%d_i_plus_k' % cnt, 'RESULT == (%s)%s' % (U(tout), spec))])


for tin, tout in (('i8', 'i16'), ('u8', 'u16'), ('i16', 'i32'), ('u16', 'u32'), ('i32', 'i64'), ('u32', 'u64')):
    interleave(2, tin, tout)
for tin, tout in (('i8', 'i32'), ('u8', 'u32'), ('i16', 'i64'), ('u16', 'u64'), ('i32', 'i64'), ('u32', 'u64')):
    interleave(3, tin, tout)
for tin, tout in (('i8', 'i32'), ('u8', 'u32'), ('i16', 'i64'), ('u16', 'u64')):
    interleave(4, tin, tout)
for tin, tout in (('u8', 'u16'), ('u16', 'u32'), ('u32', 'u64')):
    interleave(2, tin, tout, vec=True)
for tin, tout in (('u8', 'u32'), ('u16', 'u64'), ('u32', 'u64')):
    interleave(3, tin, tout, vec=True)
for tin, tout in (('u8', 'u32'), ('u16', 'u64')):
    interleave(4, tin, tout, vec=True)
for tin, tout in (('u8', 'u16'), ('u16', 'u32'), ('u32', 'u64')):
    w = INT_TYPES[tin][1]
    cin, cout = cpp_type(tin), cpp_type(tout)
    d_bf.shim('glm_bitfieldDeinterleave_' + tout, 'void', [(cout, 'v')],
              'auto r = glm::bitfieldDeinterleave(v); out[0] = r.x; out[1] = r.y;', outs=[(cin, 'out', 2)])
    P.contract('glm_bitfieldDeinterleave_' + tout, 'glm::bitfieldDeinterleave(%s)  %s' % (cout, F_BF), build=B[d_bf.name], unwind=67,
               ensures=[('component_%d_is_every_second_bit_from_%d' % (k, k), 'out[%d] == (%s)spec_gather((u64)v, %d, 2, %d)' % (k, U(tin), w, k)) for k in (0, 1)])
    d_bf.shim('glm_bitfieldDeinterleave_of_Interleave_' + tin, 'void', [(cin, 'x'), (cin, 'y')],
              'auto r = glm::bitfieldDeinterleave(glm::bitfieldInterleave(x, y)); out[0] = r.x; out[1] = r.y;', outs=[(cin, 'out', 2)])
    P.contract('glm_bitfieldDeinterleave_of_Interleave_' + tin, 'glm::bitfieldDeinterleave(glm::bitfieldInterleave(x, y))  ' + F_BF, build=B[d_bf.name],
               ensures=[('deinterleave_inverts_interleave', 'out[0] == x && out[1] == y')])

# ------------------------------------------------------------------------------------------------
# gtx_integer: int / unsigned int only.  "Exact mathematical value", result representable.  The loops of pow and sqrt are
# value-bounded: each function has a small-bound contract in the per-change tier and a larger one in the thorough tier
# (two shims of the same call, because a contract is keyed by its shim).
XI = dict(build=B[d_gx.name])
for sfx_, ymax, tier_ in (('_y2', 2, 'quick'), ('', 12, 'thorough')):
    d_gx.shim('glm_pow_i32' + sfx_, 'int32_t', [('int32_t', 'x'), ('uint8_t', 'y')], 'return glm::pow(x, static_cast<glm::uint>(y));')
    d_gx.shim('glm_pow_u32' + sfx_, 'uint32_t', [('uint32_t', 'x'), ('uint8_t', 'y')], 'return glm::pow(x, static_cast<glm::uint>(y));')
    P.contract('glm_pow_i32' + sfx_, 'glm::pow(int, uint)  ' + F_XI, unwind=ymax + 2, bounded='y <= %d' % ymax, backends=('sat', 'z3'), timeout=300, tier=tier_,
               requires=[('exponent_bound', 'y <= %d' % ymax), ('result_representable', 'spec_ipow_fits_s32((s64)(s32)x, y)')],
               ensures=[('x_to_the_y_exact', 'RESULT == spec_pow_wrap32(x, y, %d)' % ymax)], **XI)
    P.contract('glm_pow_u32' + sfx_, 'glm::pow(uint, uint)  ' + F_XI, unwind=ymax + 2, bounded='y <= %d' % ymax, backends=('sat', 'z3'), timeout=300, tier=tier_,
               requires=[('exponent_bound', 'y <= %d' % ymax), ('result_representable', 'spec_upow_fits_u32((u64)x, y)')],
               ensures=[('x_to_the_y_exact', 'RESULT == spec_pow_wrap32(x, y, %d)' % ymax)], **XI)
for sfx_, xmax, unw, tier_ in (('_x255', 255, 12, 'quick'), ('', 65535, 20, 'thorough')):
    d_gx.shim('glm_sqrt_i32' + sfx_, 'int32_t', [('int32_t', 'x')], 'return glm::sqrt(x);')
    d_gx.shim('glm_sqrt_u32' + sfx_, 'uint32_t', [('uint32_t', 'x')], 'return glm::sqrt(x);')
    P.contract('glm_sqrt_i32' + sfx_, 'glm::sqrt(int)  ' + F_XI, unwind=unw, bounded='x <= %d' % xmax, backends=('sat', 'z3'), timeout=600, tier=tier_,
               requires=[('x_nonnegative_and_bounded', '(s32)x >= 0 && x <= %d' % xmax)],
               ensures=[('floor_sqrt_exact', '(s32)RESULT >= 0 && spec_is_floor_sqrt((u64)RESULT, (u64)x)')], **XI)
    P.contract('glm_sqrt_u32' + sfx_, 'glm::sqrt(uint)  ' + F_XI, unwind=unw, bounded='x <= %d' % xmax, backends=('sat', 'z3'), timeout=600, tier=tier_,
               requires=[('x_bounded', 'x <= %d' % xmax)],
               ensures=[('floor_sqrt_exact', 'spec_is_floor_sqrt((u64)RESULT, (u64)x)')], **XI)
# the whole 32-bit argument range of sqrt is out of the verifier's reach (value-bounded Newton loop, one 32-bit division per step): kind X runs the
# real code natively on every argument (complete by enumeration; reported as bounded, never as proved)
XB = 'complete enumeration: the real code (g++ -O2) executed on all 2^32 argument values; not a deductive proof'
d_gx.shim('glm_sqrt_u32_all', 'uint32_t', [('uint32_t', 'x')], 'return glm::sqrt(x);')
P.contract('glm_sqrt_u32_all', 'glm::sqrt(uint)  ' + F_XI, kind='X', bounded=XB, timeout=900, tier='quick',
           ensures=[('floor_sqrt_exact', 'spec_is_floor_sqrt((u64)RESULT, (u64)x)')], **XI)
d_gx.shim('glm_sqrt_i32_all', 'int32_t', [('int32_t', 'x')], 'return glm::sqrt(x);')
P.contract('glm_sqrt_i32_all', 'glm::sqrt(int)  ' + F_XI, kind='X', bounded=XB, timeout=900, tier='quick',
           requires=[('x_nonnegative', '(s32)x >= 0')],
           ensures=[('floor_sqrt_exact', '(s32)RESULT >= 0 && spec_is_floor_sqrt((u64)RESULT, (u64)x)')], **XI)
d_gx.shim('glm_nlz_u32', 'uint32_t', [('uint32_t', 'x')], 'return glm::nlz(x);')
# mod exists for int / unsigned int only; the full 32-bit range is not decided by any back end (probed), so as for the
# multiples two embedded 8-bit problems are claimed, each exhaustive and reported as bounded
for ss, btxt, bi, bu in (('_top8', 'x, y multiples of 2^24', '(x & 0xffffffu) == 0 && (y & 0xffffffu) == 0', '(x & 0xffffffu) == 0 && (y & 0xffffffu) == 0'),
                         ('_low8', '|x|, |y| < 2^8', '(s32)x >= -128 && (s32)x <= 127 && (s32)y >= -128 && (s32)y <= 127', 'x <= 255 && y <= 255')):
    d_gx.shim('glm_mod_i32' + ss, 'int32_t', [('int32_t', 'x'), ('int32_t', 'y')], 'return glm::mod(x, y);')
    d_gx.shim('glm_mod_u32' + ss, 'uint32_t', [('uint32_t', 'x'), ('uint32_t', 'y')], 'return glm::mod(x, y);')
    P.contract('glm_mod_i32' + ss, 'glm::mod(int, int)  ' + F_XI, backends=('sat',), timeout=900, tier='thorough', bounded=btxt,
               requires=[('divisor_nonzero', 'y != 0'), ('remainder_defined_in_cxx', '!(x == 0x80000000u && y == 0xffffffffu)'), ('bounded_subdomain', bi)],
               ensures=[('x_minus_y_floor_x_over_y', 'spec_is_floor_mod((s64)(s32)RESULT, (s64)(s32)x, (s64)(s32)y)')], **XI)
    P.contract('glm_mod_u32' + ss, 'glm::mod(uint, uint)  ' + F_XI, backends=('sat',), timeout=900, tier='thorough', bounded=btxt,
               requires=[('divisor_nonzero', 'y != 0'), ('bounded_subdomain', bu)],
               ensures=[('x_minus_y_floor_x_over_y', 'spec_is_floor_mod((s64)RESULT, (s64)x, (s64)y)')], **XI)
P.contract('glm_nlz_u32', 'glm::nlz(uint)  ' + F_XI, unwind=67,
           ensures=[('number_of_leading_zeros', 'RESULT == spec_nlz((u64)x, 32)')], **XI)

P.level_text = ('each instantiation (8..64 bit, signed/unsigned, scalar and vec4, 32-bit also vec1..3) is a contract clause on the code clang '
                'extracts from /repo, proved for every argument value in the documented domain (symbolic arguments = all 2^N inputs; the '
                '%-based multiple functions completely for the 8- and 16-bit types = all (x, m) pairs); loops closed by width-bounded '
                'unwinding with unwinding assertions; gtx pow/sqrt/factorial are bounded by a REQUIRES on the argument and reported as bounded')
P.level_note = ('trusted: clang-14 lowering, ll2c (T-checked), CBMC bit-vector semantics, spec_pow2.h written from the property statement '
                'and the .hpp doc comments (self-tested against brute force at 8 bit)')
P.technique = 'CBMC code contracts (DFCC enforce) on mechanically extracted C; SAT/SMT bit-precise'
P.design_ref = 'DESIGN.md section 6 C18'
P.assumptions = [
    'the shim table (function x element type x shape) is the instantiation set covered; other instantiations are not verified',
    'power-of-two family: domain x > 0 and result representable (x <= 2^(vb-1) for ceil/next/Above, x <= 3*2^(vb-2) for round/Nearest, vb = value bits)',
    'multiples: domain Multiple > 0 and result representable in the type (the doc comment "null or positive" is read as positive: 0 divides by zero)',
    'bitfieldRotateLeft/Right: 0 <= Shift < width for 8/16-bit types, 1 <= Shift < width for 32/64-bit types (Shift == 0 executes a shift by the full width, undefined behaviour: C20)',
    'bitfieldFillOne/Zero: 0 <= FirstBit < width, 0 <= BitCount, FirstBit + BitCount <= width; mask: 0 <= Bits <= width; findNSB: significantBitCount >= 1',
    'signed 32/64-bit multiples are extracted and replayed with -fwrapv (signed overflow wraps); all other code with the default flags, where ll2c also reads nsw/nuw overflow as wrapping',
    'gtx mod(int,int): INT_MIN % -1 excluded (undefined in C++: C20)',
    'gtx factorial / pow: the loop-bounding argument (x resp. y) reaches the GLM function through an 8-bit shim parameter and a value-preserving conversion, so that the T-check terminates on random inputs',
    'gtx pow: "x^y representable" is taken from a table of integer roots (spec_ipow_fits_s32 / spec_upow_fits_u32), cross-checked natively against exact 64-bit powers',
]
P.not_covered = [
    'float/double overloads of ceilMultiple, floorMultiple, roundMultiple: they call std::fmod, for which CBMC 6.11 has no faithful model (fmodf(7,3) != 1 there); observed natively and reported in proposed/C18_report.md: ceilMultiple(6.f,3.f) == 9, floorMultiple(-6.f,3.f) == -9, roundMultiple(-1.4,0.3) == -0.6',
    'negative arguments of the signed power-of-two family: GLM follows a sign-magnitude convention there (ceilPowerOfTwo(-3) == -4 is pinned by test/gtc/gtc_round.cpp; isPowerOfTwo(-4) is true; floor/round/prev use findMSB of a negative value) that the statement does not describe; like the value at 0 it is not claimed',
    '%-based functions (isMultiple, next/prev/ceil/floor/roundMultiple) on 32/64-bit types over their full range, and gtx mod(int/uint) over the full range: no back end finishes (sat, z3, cvc5 probed, > 900 s); claimed instead, as bounded, on two embedded exhaustive 8-bit sub-domains (arguments multiples of 2^(n-8); arguments below 2^8), scalar forms only',
    '%-based functions at 16 bit in vector form (component-wise functor2 application of the proved scalar function): ~4 x 5-12 min per obligation, not run; the 8-bit vector forms are proved',
    'findNSB(vec4) for the 64-bit element types (functor2_vec_int application of the proved scalar function): > 900 s per contract, not run',
    'gtx pow for y > 12, factorial for x > 12: value-bounded loops (reported as bounded below these limits); gtx sqrt: the verifier reaches x <= 65535 (bounded), the full 32-bit range is covered by complete native enumeration (kind X, reported as bounded, not as proved)',
    'gtx floor_log2: declared in gtx/integer.hpp but its definition is commented out (does not link)',
    'bitfieldRotate with Shift == 0 on 32/64-bit types and bitfieldFill with FirstBit == width: shift by the full width (C20)',
    'glm/simd/integer.h (SSE2 interleave): covered by C03',
]
