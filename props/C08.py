"""C08 - projection builders map the view volume onto the configured clip volume (kind R: over the reals).

Clauses come from proposed/C08_property.json and from the textbook definitions it points to (glOrtho / gluOrtho2D /
glFrustum / gluPerspective / gluProject / gluUnProject / gluPickMatrix man pages, D3DXMatrixPerspective*LH for the
left-handed zero-to-one forms, Lengyel's infinite projection): the eight corners of the view volume go to the eight
corners of the clip cube after the perspective divide.  Nothing is taken from glm/ext/matrix_clip_space.inl.

Conventions used in the clause generators below:
  s   = -1 (RH: the eye looks down -z, the near plane is z_eye = -near) or +1 (LH: looks down +z)
  zn0 = -1 (NO: near plane -> z_ndc = -1) or 0 (ZO: near plane -> z_ndc = 0); the far plane always -> +1
  `ndc_is(c, x, y, z)` (specs/rspec.py): clip point c has w > 0 and c.xyz == (x,y,z) * c.w (perspective divide without division)
"""
import os, re
from engine import Prop
from vlib import REPO
from shimgen import *

P = Prop('C08', 'projection builders map the view volume onto the configured clip volume')
# <glm/ext/matrix_transform.hpp> must come before matrix_projection.hpp: pickMatrix calls translate/scale, which that header does
# not include itself (see report: header not self-contained)
INC = ['<glm/glm.hpp>', '<glm/ext/matrix_transform.hpp>', '<glm/ext/matrix_clip_space.hpp>', '<glm/ext/matrix_projection.hpp>']
d = P.driver('c08', INC)                 # suffixed builders and their compositions (default configuration)
dp = P.driver('c08_projection', INC)     # project / unProject / pickMatrix (default configuration)
CFG_DEFINES = {'RH_NO': [], 'RH_ZO': ['GLM_FORCE_DEPTH_ZERO_TO_ONE'], 'LH_NO': ['GLM_FORCE_LEFT_HANDED'],
               'LH_ZO': ['GLM_FORCE_LEFT_HANDED', 'GLM_FORCE_DEPTH_ZERO_TO_ONE']}
ddrivers = {cfg: P.driver('c08_' + cfg.lower(), INC) for cfg in CFG_DEFINES}     # dispatch shims, one driver+build per configuration
CS = 'glm/ext/matrix_clip_space.inl'
PJ = 'glm/ext/matrix_projection.inl'
# glm::infinitePerspectiveLH / infinitePerspectiveRH are declared in matrix_clip_space.hpp but the tree under verification has
# no definition (calling them is a link error, see proposed/C08_report.md and C08_infinitePerspective_LH_RH.patch).  A shim
# that calls them cannot be linked for the T-check, so their dispatch contracts are generated only when the definition exists.
INF_HALF_DEFINED = all(re.search(r'\binfinitePerspective%s\s*\(T fovy' % h, open(os.path.join(REPO, CS)).read()) for h in ('LH', 'RH'))
contracts = []      # (fn, real, kw) on the default build
dcontracts = []     # (cfg, fn, real, kw) on the dispatch builds

VARIANTS = (('RH', 'NO'), ('RH', 'ZO'), ('LH', 'NO'), ('LH', 'ZO'))
SGN = {'RH': -1, 'LH': 1}
ZN0 = {'NO': -1, 'ZO': 0}
M = 'mat(out, 4, 4)'
TAN = 'tan(fovy/R(2))'
# 0 < fovy < pi is the documented domain; z3 has no pi, 3.1415927 > pi keeps the whole domain (the bound only steers
# counterexample models towards angles where the native tan(fovy/2) is positive as well)
# sin(fovy/2) > 0 and cos(fovy/2) > 0 are true on 0 < fovy < pi (listed in P.assumptions); they imply tan(fovy/2) > 0 through the
# tan*cos = sin axiom and let ll2smt report a counterexample angle whose native sine/cosine are the ones the solver chose
FOVY_DOMAIN = [('fovy_positive', 'fovy > 0'), ('fovy_below_pi', 'fovy * 10000000 < 31415927'),
               ('sin_half_fovy_positive', 'sin(fovy/R(2)) > 0'), ('cos_half_fovy_positive', 'cos(fovy/R(2)) > 0')]


def R(fn, real, **kw):
    contracts.append((fn, real, kw))


def RP(fn, real, **kw):
    contracts.append((fn, real, dict(kw, build='c08_projection_flat')))


def corner_clauses(xs, ys, zs, zn0, far_scale=None):
    """8 clauses: corner (x,y,z) of the view volume -> corner of the clip cube.
    xs = (left, right) ys = (bottom, top) zs = (z_eye of near plane, z_eye of far plane) as expression strings;
    far_scale: factor by which the far-plane x,y extents are larger than the near-plane ones (frustum: far/near)"""
    out = []
    for zi, (zname, zndc) in enumerate((('near', zn0), ('far', 1))):
        for xi, xname in enumerate(('left', 'right')):
            for yi, yname in enumerate(('bottom', 'top')):
                x, y = xs[xi], ys[yi]
                if zi == 1 and far_scale:
                    x, y = '(%s)*(%s)' % (x, far_scale), '(%s)*(%s)' % (y, far_scale)
                out.append(('%s_%s_%s_corner' % (zname, xname, yname),
                            'And(ndc_is(hom(%s, [%s, %s, %s]), %d, %d, %d))' % (M, x, y, zs[zi], 2 * xi - 1, 2 * yi - 1, zndc)))
    return out


def infinity_clauses(xs, ys, s, limit='1'):
    """the four edges of an infinite frustum meet the plane at infinity in the ideal points (x, y, s*1, 0) (per unit of
    depth); their images must have z_ndc = +1 (x, y = -1/+1), i.e. the far plane at infinity -> +1"""
    out = []
    for xi, xname in enumerate(('left', 'right')):
        for yi, yname in enumerate(('bottom', 'top')):
            out.append(('infinity_%s_%s_edge' % (xname, yname),
                        'And(ndc_is(matvec(%s, [%s, %s, %d, 0]), %d, %d, %s))' % (M, xs[xi], ys[yi], s, 2 * xi - 1, 2 * yi - 1, limit)))
    return out


def last_row(vals):
    return 'And(eqv([out[3], out[7], out[11], out[15]], [%s]))' % ', '.join(str(v) for v in vals)


for tag in ('f32', 'f64'):
    T = cpp_type(tag)
    O16 = [(T, 'out', 16)]
    ST = mat_store(4, 4, 'm')

    def ins(*names):
        return [(T, n) for n in names]

    # ------------------------------------------------------------------ ortho (2D): gluOrtho2D = glOrtho(l,r,b,t,-1,1)
    fn = 'glm_ortho2D_' + tag
    d.shim(fn, 'void', ins('l', 'r', 'b', 't'), 'auto m = glm::ortho(l, r, b, t); ' + ST, outs=O16)
    R(fn, 'glm::ortho(left,right,bottom,top)  ' + CS,
      requires=[('left_ne_right', 'l != r'), ('bottom_ne_top', 'b != t')],
      ensures=corner_clauses(('l', 'r'), ('b', 't'), ('1', '-1'), -1) + [('clip_w_is_one', last_row([0, 0, 0, 1]))])

    # ------------------------------------------------------------------ ortho / frustum (glOrtho, glFrustum)
    OREQ = [('left_ne_right', 'l != r'), ('bottom_ne_top', 'b != t'), ('near_ne_far', 'zn != zf')]                       # glOrtho
    FRREQ = OREQ[:2] + [('near_positive', 'zn > 0'), ('far_positive', 'zf > 0'), ('near_ne_far', 'zn != zf')]          # glFrustum
    for H, Z in VARIANTS:
        s, zn0 = SGN[H], ZN0[Z]
        fn = 'glm_ortho%s_%s_%s' % (H, Z, tag)
        d.shim(fn, 'void', ins('l', 'r', 'b', 't', 'zn', 'zf'), 'auto m = glm::ortho%s_%s(l, r, b, t, zn, zf); %s' % (H, Z, ST), outs=O16)
        R(fn, 'glm::ortho%s_%s  %s' % (H, Z, CS),
          requires=OREQ,
          ensures=corner_clauses(('l', 'r'), ('b', 't'), ('%d*zn' % s, '%d*zf' % s), zn0) + [('clip_w_is_one', last_row([0, 0, 0, 1]))])

        fn = 'glm_frustum%s_%s_%s' % (H, Z, tag)
        d.shim(fn, 'void', ins('l', 'r', 'b', 't', 'zn', 'zf'), 'auto m = glm::frustum%s_%s(l, r, b, t, zn, zf); %s' % (H, Z, ST), outs=O16)
        R(fn, 'glm::frustum%s_%s  %s' % (H, Z, CS),
          requires=FRREQ,
          ensures=corner_clauses(('l', 'r'), ('b', 't'), ('%d*zn' % s, '%d*zf' % s), zn0, far_scale='zf/zn') +
          [('clip_w_is_view_depth', last_row([0, 0, s, 0]))])

        # -------------------------------------------------------------- perspective (gluPerspective): symmetric frustum with
        # top = tan(fovy/2)*near, right = top*aspect
        PREQ = FOVY_DOMAIN + [('tan_half_fovy_positive', TAN + ' > 0'), ('aspect_positive', 'aspect > 0'), ('near_positive', 'zn > 0'),
                              ('far_positive', 'zf > 0'), ('near_ne_far', 'zn != zf')]
        top = '%s*zn' % TAN
        right = '%s*zn*aspect' % TAN
        fn = 'glm_perspective%s_%s_%s' % (H, Z, tag)
        d.shim(fn, 'void', ins('fovy', 'aspect', 'zn', 'zf'), 'auto m = glm::perspective%s_%s(fovy, aspect, zn, zf); %s' % (H, Z, ST), outs=O16)
        R(fn, 'glm::perspective%s_%s  %s' % (H, Z, CS), requires=PREQ,
          ensures=corner_clauses(('-' + right, right), ('-' + top, top), ('%d*zn' % s, '%d*zf' % s), zn0, far_scale='zf/zn') +
          [('clip_w_is_view_depth', last_row([0, 0, s, 0]))])
        # perspective == frustum(-right, right, -top, top, near, far), entrywise (composed shim: both results are stored;
        # the frustum extents are extra inputs tied to the perspective parameters by the requires)
        fn = 'glm_perspective%s_%s_vs_frustum_%s' % (H, Z, tag)
        d.shim(fn, 'void', ins('fovy', 'aspect', 'zn', 'zf', 'l', 'r', 'b', 't'),
               'auto m = glm::perspective%s_%s(fovy, aspect, zn, zf); %s auto q = glm::frustum%s_%s(l, r, b, t, zn, zf); %s' % (
                   H, Z, ST, H, Z, mat_store(4, 4, 'q', 'fr')), outs=O16 + [(T, 'fr', 16)])
        R(fn, 'glm::perspective%s_%s vs glm::frustum%s_%s  %s' % (H, Z, H, Z, CS),
          requires=PREQ + [('top_is_tan_half_fovy_times_near', 't == ' + top), ('bottom_is_minus_top', 'b == -t'),
                           ('right_is_top_times_aspect', 'r == t*aspect'), ('left_is_minus_right', 'l == -r')],
          ensures=[('equals_symmetric_frustum', 'And(eqv(out, fr))')])

        # -------------------------------------------------------------- perspectiveFov(fov, width, height, near, far)
        # == perspective(fov, width/height, near, far)
        FREQ = [('fov_positive', 'fov > 0'), ('fov_below_pi', 'fov * 10000000 < 31415927'),
                ('sin_half_fov_positive', 'sin(fov/R(2)) > 0'), ('cos_half_fov_positive', 'cos(fov/R(2)) > 0'),
                ('width_positive', 'width > 0'), ('height_positive', 'height > 0'), ('near_positive', 'zn > 0'), ('far_positive', 'zf > 0'),
                ('near_ne_far', 'zn != zf')]
        ftop = 'tan(fov/R(2))*zn'
        fright = 'tan(fov/R(2))*zn*(width/height)'
        fn = 'glm_perspectiveFov%s_%s_%s' % (H, Z, tag)
        d.shim(fn, 'void', ins('fov', 'width', 'height', 'zn', 'zf'),
               'auto m = glm::perspectiveFov%s_%s(fov, width, height, zn, zf); %s' % (H, Z, ST), outs=O16)
        R(fn, 'glm::perspectiveFov%s_%s  %s' % (H, Z, CS), requires=FREQ,
          ensures=corner_clauses(('-' + fright, fright), ('-' + ftop, ftop), ('%d*zn' % s, '%d*zf' % s), zn0, far_scale='zf/zn') +
          [('clip_w_is_view_depth', last_row([0, 0, s, 0]))])
        fn = 'glm_perspectiveFov%s_%s_vs_perspective_%s' % (H, Z, tag)
        d.shim(fn, 'void', ins('fov', 'width', 'height', 'aspect', 'zn', 'zf'),
               'auto m = glm::perspectiveFov%s_%s(fov, width, height, zn, zf); %s auto q = glm::perspective%s_%s(fov, aspect, zn, zf); %s' % (
                   H, Z, ST, H, Z, mat_store(4, 4, 'q', 'pe')), outs=O16 + [(T, 'pe', 16)])
        R(fn, 'glm::perspectiveFov%s_%s vs glm::perspective%s_%s  %s' % (H, Z, H, Z, CS),
          requires=FREQ + [('tan_half_fov_positive', 'tan(fov/R(2)) > 0'), ('aspect_is_width_over_height', 'aspect * height == width')],
          ensures=[('equals_perspective_with_aspect_width_over_height', 'And(eqv(out, pe))')])

        # -------------------------------------------------------------- infinitePerspective: far plane at infinity
        IREQ = FOVY_DOMAIN + [('tan_half_fovy_positive', TAN + ' > 0'), ('aspect_positive', 'aspect > 0'), ('near_positive', 'zn > 0')]
        fn = 'glm_infinitePerspective%s_%s_%s' % (H, Z, tag)
        d.shim(fn, 'void', ins('fovy', 'aspect', 'zn'), 'auto m = glm::infinitePerspective%s_%s(fovy, aspect, zn); %s' % (H, Z, ST), outs=O16)
        R(fn, 'glm::infinitePerspective%s_%s  %s' % (H, Z, CS), requires=IREQ,
          ensures=corner_clauses(('-' + right, right), ('-' + top, top), ('%d*zn' % s, None), zn0)[:4] +
          infinity_clauses(('-%s*aspect' % TAN, '%s*aspect' % TAN), ('-' + TAN, TAN), s) +
          [('m22_is_the_limit_of_the_finite_far_entry', 'out[10] == %d' % s),     # lim f->oo of -(f+n)/(f-n) resp. f/(n-f) is -1 (RH), +1 (LH)
           ('clip_w_is_view_depth', last_row([0, 0, s, 0]))])

    # ------------------------------------------------------------------ tweakedInfinitePerspective (Lengyel, GDC 2007): right-handed,
    # -1..1, the plane at infinity goes to 1 - ep instead of 1
    top, right = '%s*zn' % TAN, '%s*zn*aspect' % TAN
    fn = 'glm_tweakedInfinitePerspective_ep_' + tag
    d.shim(fn, 'void', ins('fovy', 'aspect', 'zn', 'ep'), 'auto m = glm::tweakedInfinitePerspective(fovy, aspect, zn, ep); ' + ST, outs=O16)
    R(fn, 'glm::tweakedInfinitePerspective(fovy,aspect,near,ep)  ' + CS, requires=IREQ,
      ensures=corner_clauses(('-' + right, right), ('-' + top, top), ('-zn', None), -1)[:4] +
      infinity_clauses(('-%s*aspect' % TAN, '%s*aspect' % TAN), ('-' + TAN, TAN), -1, limit='(1 - ep)') +
      [('clip_w_is_view_depth', last_row([0, 0, -1, 0]))])
    EPS = {'f32': 'R(1)/2**23', 'f64': 'R(1)/2**52'}[tag]
    fn = 'glm_tweakedInfinitePerspective_' + tag
    d.shim(fn, 'void', ins('fovy', 'aspect', 'zn'), 'auto m = glm::tweakedInfinitePerspective(fovy, aspect, zn); ' + ST, outs=O16)
    R(fn, 'glm::tweakedInfinitePerspective(fovy,aspect,near)  ' + CS, requires=IREQ,
      ensures=corner_clauses(('-' + right, right), ('-' + top, top), ('-zn', None), -1)[:4] +
      infinity_clauses(('-%s*aspect' % TAN, '%s*aspect' % TAN), ('-' + TAN, TAN), -1, limit='(1 - %s)' % EPS) +
      [('clip_w_is_view_depth', last_row([0, 0, -1, 0]))])

    # ------------------------------------------------------------------ project / unProject / pickMatrix
    # gluProject: clip = proj * model * (obj,1); ndc = clip.xyz / clip.w; win.xy = viewport.xy + viewport.zw * (ndc.xy + 1)/2;
    # depth = (ndc.z + 1)/2 for the -1..1 clip volume (NO), ndc.z for the 0..1 clip volume (ZO)
    def names(lst):
        return ', '.join(n for _, n in lst)
    OBJ, WIN, MOD, PRJ, VP = vec_ins(3, tag, 'o'), vec_ins(3, tag, 'w'), mat_ins(4, 4, tag, 'm'), mat_ins(4, 4, tag, 'p'), vec_ins(4, tag, 'v')
    O3 = [(T, 'out', 3)]
    V3 = lambda nm: 'glm::vec<3, %s, glm::defaultp>(%s0, %s1, %s2)' % (T, nm, nm, nm)
    GEN = {  # generality level -> (shim inputs, model C++ expr, proj C++ expr, model spec, proj spec)
        'general': (MOD + PRJ, mat_make(4, 4, tag, 'm'), mat_make(4, 4, tag, 'p'), 'mat([%s], 4, 4)' % names(MOD), 'mat([%s], 4, 4)' % names(PRJ)),
        'proj_only': (PRJ, '%s(%s(1))' % (mat_t(4, 4, tag), T), mat_make(4, 4, tag, 'p'), 'ident(4)', 'mat([%s], 4, 4)' % names(PRJ)),
        'model_only': (MOD, mat_make(4, 4, tag, 'm'), '%s(%s(1))' % (mat_t(4, 4, tag), T), 'mat([%s], 4, 4)' % names(MOD), 'ident(4)'),
        'diagonal': ([(T, 'a%d' % i) for i in range(4)] + [(T, 'e%d' % i) for i in range(4)],
                     '%s(%s)' % (mat_t(4, 4, tag), ', '.join('a%d' % c if c == r else '%s(0)' % T for c in range(4) for r in range(4))),
                     '%s(%s)' % (mat_t(4, 4, tag), ', '.join('e%d' % c if c == r else '%s(0)' % T for c in range(4) for r in range(4))),
                     'diag([a0, a1, a2, a3])', 'diag([e0, e1, e2, e3])'),
        'identity': ([], '%s(%s(1))' % (mat_t(4, 4, tag), T), '%s(%s(1))' % (mat_t(4, 4, tag), T), 'ident(4)', 'ident(4)'),
        # proj with the zero pattern of every frustum/perspective/infinitePerspective result, resp. of every ortho result
        'frustum_shaped_proj': (ins('pa', 'pb', 'pc', 'pd', 'pe', 'pg', 'ph'), '%s(%s(1))' % (mat_t(4, 4, tag), T),
                                '%s(pa, Z, Z, Z,  Z, pb, Z, Z,  pc, pd, pe, pg,  Z, Z, ph, Z)'.replace('Z', '%s(0)' % T) % mat_t(4, 4, tag),
                                'ident(4)', '[[pa, 0, 0, 0], [0, pb, 0, 0], [pc, pd, pe, pg], [0, 0, ph, 0]]'),
        'ortho_shaped_proj': (ins('pa', 'pb', 'pc', 'pd', 'pe', 'ph'), '%s(%s(1))' % (mat_t(4, 4, tag), T),
                              '%s(pa, Z, Z, Z,  Z, pb, Z, Z,  Z, Z, pe, Z,  pc, pd, ph, %s(1))'.replace('Z', '%s(0)' % T) % (mat_t(4, 4, tag), T),
                              'ident(4)', '[[pa, 0, 0, 0], [0, pb, 0, 0], [0, 0, pe, 0], [pc, pd, ph, 1]]'),
    }
    CHEAP = ('identity', 'diagonal', 'frustum_shaped_proj', 'ortho_shaped_proj')
    # measured (z3 5.1 + sympy, timeout 300 s per clause): project decides at full generality in 1-3 s; unProject with one of the
    # two matrices symbolic needs ~175 s (thorough); left out because UNKNOWN at 300 s (see P.not_covered): unProject with both
    # matrices symbolic, unProject(project(.)) with a full symbolic 4x4 in either position
    LEVELS = {'project': ('general', 'diagonal', 'identity'),
              'unProject': CHEAP + ('proj_only', 'model_only'),
              'roundtrip': CHEAP}
    for Z in ('NO', 'ZO'):
        zn0 = ZN0[Z]
        depth = '(c[2]/c[3] + 1)/2' if Z == 'NO' else 'c[2]/c[3]'
        for gen, (gins, cmod, cprj, smod, sprj) in GEN.items():
            CLIP = 'matvec(%s, matvec(%s, [o0, o1, o2, 1]))' % (sprj, smod)
            L = lambda body: '(lambda c: %s)(%s)' % (body, CLIP)
            # shims exist at every level (T-check compares them with the real code); contracts only at the claimed levels
            fn = 'glm_project%s_%s_%s' % (Z, gen, tag)
            dp.shim(fn, 'void', OBJ + gins + VP, 'auto q = glm::project%s(%s, %s, %s, %s); %s' % (
                Z, V3('o'), cmod, cprj, vec_make(4, tag, 'v'), vec_store(3, 'q')), outs=O3)
            ens = [('window_x', L('out[0] == v0 + v2*(c[0]/c[3] + 1)/2')), ('window_y', L('out[1] == v1 + v3*(c[1]/c[3] + 1)/2')),
                   ('depth', L('out[2] == ' + depth))]
            for zi, (zname, zndc) in enumerate((('near', zn0), ('far', 1))):
                for xi, xname in enumerate(('left', 'right')):
                    for yi, yname in enumerate(('bottom', 'top')):
                        ens.append(('clip_cube_%s_%s_%s_corner_to_viewport_corner' % (zname, xname, yname),
                                    L('Implies(And(c[0] == %d*c[3], c[1] == %d*c[3], c[2] == %d*c[3]), '
                                      'And(out[0] == v0 + %d*v2, out[1] == v1 + %d*v3, out[2] == %d))' % (2 * xi - 1, 2 * yi - 1, zndc, xi, yi, zi))))
            if gen in LEVELS['project']:
                RP(fn, 'glm::project%s (%s model/proj)  %s' % (Z, gen, PJ), requires=[('clip_w_nonzero', L('c[3] != 0'))], ensures=ens)
            if gen == 'general' and tag == 'f32':     # integer viewport (glm::ivec4, the GLint viewport[4] of gluProject)
                fn = 'glm_project%s_general_ivec4_viewport_%s' % (Z, tag)
                dp.shim(fn, 'void', OBJ + gins + [('int32_t', 'v%d' % i) for i in range(4)],
                       'auto q = glm::project%s(%s, %s, %s, glm::vec<4, int, glm::defaultp>(v0, v1, v2, v3)); %s' % (
                           Z, V3('o'), cmod, cprj, vec_store(3, 'q')), outs=O3)
                RP(fn, 'glm::project%s (ivec4 viewport)  %s' % (Z, PJ), requires=[('clip_w_nonzero', L('c[3] != 0'))], ensures=ens)

            # gluUnProject: the object point whose projection is win, i.e. proj*model*(result,1) is proportional to the
            # clip-space point q of win; domain: proj*model invertible, viewport not empty, the preimage is a finite point
            # (Cramer: its homogeneous w is det(PM with column 3 replaced by q) / det(PM))
            PM = 'matmul(%s, %s)' % (sprj, smod)
            QZ = '2*w2 - 1' if Z == 'NO' else 'w2'
            Q = '[2*(w0 - v0)/v2 - 1, 2*(w1 - v1)/v3 - 1, %s, 1]' % QZ
            UREQ = [('viewport_width_nonzero', 'v2 != 0'), ('viewport_height_nonzero', 'v3 != 0'), ('proj_times_model_invertible', 'det(%s) != 0' % PM)]
            fn = 'glm_unProject%s_%s_%s' % (Z, gen, tag)
            dp.shim(fn, 'void', WIN + gins + VP, 'auto q = glm::unProject%s(%s, %s, %s, %s); %s' % (
                Z, V3('w'), cmod, cprj, vec_make(4, tag, 'v'), vec_store(3, 'q')), outs=O3)
            if gen in LEVELS['unProject']:
                RP(fn, 'glm::unProject%s (%s model/proj)  %s' % (Z, gen, PJ),
                  requires=UREQ + [('preimage_is_a_finite_point', 'det(setcol(%s, 3, %s)) != 0' % (PM, Q))],
                  ensures=[('projects_back_to_win', 'And(proportional(matvec(%s, [out[0], out[1], out[2], 1]), %s))' % (PM, Q))],
                  tier='quick' if gen in CHEAP else 'thorough', timeout=300)
            # unProject(project(obj)) == obj
            fn = 'glm_unProject%s_of_project%s_%s_%s' % (Z, Z, gen, tag)
            dp.shim(fn, 'void', OBJ + gins + VP, 'auto q = glm::unProject%s(glm::project%s(%s, %s, %s, %s), %s, %s, %s); %s' % (
                Z, Z, V3('o'), cmod, cprj, vec_make(4, tag, 'v'), cmod, cprj, vec_make(4, tag, 'v'), vec_store(3, 'q')), outs=O3)
            if gen in LEVELS['roundtrip']:
                RP(fn, 'glm::unProject%s(glm::project%s(obj)) (%s model/proj)  %s' % (Z, Z, gen, PJ),
                  requires=UREQ + [('clip_w_nonzero', L('c[3] != 0'))],
                  ensures=[('roundtrip_is_identity', 'And(eqv(out, [o0, o1, o2]))')])

    # gluPickMatrix: the pick region center +- delta/2 (window coordinates) becomes the whole clip square: its corners, written in
    # normalised device coordinates of `viewport`, go to x,y = -1/+1; z and w are untouched; no region (delta <= 0) -> identity
    PIN = ins('cx', 'cy', 'dx', 'dy') + VP
    fn = 'glm_pickMatrix_' + tag
    dp.shim(fn, 'void', PIN, 'auto m = glm::pickMatrix(glm::vec<2, %s, glm::defaultp>(cx, cy), glm::vec<2, %s, glm::defaultp>(dx, dy), %s); %s' % (
        T, T, vec_make(4, tag, 'v'), ST), outs=O16)
    pens = []
    for xi, xname in enumerate(('left', 'right')):
        for yi, yname in enumerate(('bottom', 'top')):
            pt = '[2*(cx + (%d)*dx/2 - v0)/v2 - 1, 2*(cy + (%d)*dy/2 - v1)/v3 - 1, fresh("pz")]' % (2 * xi - 1, 2 * yi - 1)
            pens.append(('region_%s_%s_corner_to_clip_square_corner' % (xname, yname),
                         'Implies(And(dx > 0, dy > 0), (lambda c: And(c[3] == 1, c[0] == %d, c[1] == %d, c[2] == fresh("pz")))(hom(%s, %s)))' % (
                             2 * xi - 1, 2 * yi - 1, M, pt)))
    pens.append(('no_region_gives_identity', 'Implies(Not(And(dx > 0, dy > 0)), And(eqm(%s, ident(4))))' % M))
    RP(fn, 'glm::pickMatrix  ' + PJ, requires=[('viewport_width_positive', 'v2 > 0'), ('viewport_height_positive', 'v3 > 0')], ensures=pens)

    # ------------------------------------------------------------------ dispatch: one driver per configuration (the engine keys
    # contracts by shim name, so the configuration is part of the name); each shim stores the unsuffixed / half-suffixed
    # builder next to the variant that GLM_FORCE_LEFT_HANDED / GLM_FORCE_DEPTH_ZERO_TO_ONE must select, same arguments
    FAMILIES = (('ortho', ('l', 'r', 'b', 't', 'zn', 'zf')), ('frustum', ('l', 'r', 'b', 't', 'zn', 'zf')),
                ('perspective', ('fovy', 'aspect', 'zn', 'zf')), ('perspectiveFov', ('fov', 'width', 'height', 'zn', 'zf')),
                ('infinitePerspective', ('fovy', 'aspect', 'zn')))
    FAMREQ = {'ortho': OREQ, 'frustum': FRREQ, 'perspective': PREQ, 'perspectiveFov': FREQ, 'infinitePerspective': IREQ}
    for cH, cZ in VARIANTS:
        cfg = cH + '_' + cZ
        dc = ddrivers[cfg]
        for fam, params in FAMILIES:
            args = ', '.join(params)
            halves = ('', 'ZO', 'NO', 'LH', 'RH')
            if fam == 'infinitePerspective':      # the header declares only infinitePerspective, ...LH and ...RH
                halves = ('', 'LH', 'RH') if INF_HALF_DEFINED else ('',)
            for half in halves:
                H, Z = (cH, cZ) if half == '' else (cH, half) if half in ('ZO', 'NO') else (half, cZ)
                fn = 'glm_%s%s_cfg%s_is_%s_%s_%s' % (fam, half, cfg, H, Z, tag)
                dc.shim(fn, 'void', ins(*params), 'auto m = glm::%s%s(%s); %s auto q = glm::%s%s_%s(%s); %s' % (
                    fam, half, args, ST, fam, H, Z, args, mat_store(4, 4, 'q', 'sel')), outs=O16 + [(T, 'sel', 16)])
                dcontracts.append((cfg, fn, 'glm::%s%s under GLM_CLIP_CONTROL_%s  %s' % (fam, half, cfg, CS),
                                   dict(requires=FAMREQ[fam], ensures=[('equals_selected_variant_%s%s_%s' % (fam, H, Z), 'And(eqv(out, sel))')])))
        # project / unProject select projectZO / unProjectZO iff GLM_FORCE_DEPTH_ZERO_TO_ONE (project at full generality; unProject
        # at the levels whose division-safety obligations the solvers decide)
        for gen in ('general',) + CHEAP:
            gins, cmod, cprj, smod, sprj = GEN[gen]
            CLIP = 'matvec(%s, matvec(%s, [o0, o1, o2, 1]))' % (sprj, smod)
            PM = 'matmul(%s, %s)' % (sprj, smod)
            Q = '[2*(w0 - v0)/v2 - 1, 2*(w1 - v1)/v3 - 1, %s, 1]' % ('2*w2 - 1' if cZ == 'NO' else 'w2')
            O3S = [(T, 'out', 3), (T, 'sel', 3)]
            if gen in LEVELS['project']:
                fn = 'glm_project_cfg%s_is_%s_%s_%s' % (cfg, cZ, gen, tag)
                a = '%s, %s, %s, %s' % (V3('o'), cmod, cprj, vec_make(4, tag, 'v'))
                dc.shim(fn, 'void', OBJ + gins + VP, 'auto q = glm::project(%s); %s auto u = glm::project%s(%s); %s' % (
                    a, vec_store(3, 'q'), cZ, a, vec_store(3, 'u', 'sel')), outs=O3S)
                dcontracts.append((cfg, fn, 'glm::project under GLM_CLIP_CONTROL_%s  %s' % (cfg, PJ),
                                   dict(requires=[('clip_w_nonzero', '(lambda c: c[3] != 0)(%s)' % CLIP)],
                                        ensures=[('equals_selected_variant_project' + cZ, 'And(eqv(out, sel))')])))
            if gen in CHEAP:
                fn = 'glm_unProject_cfg%s_is_%s_%s_%s' % (cfg, cZ, gen, tag)
                a = '%s, %s, %s, %s' % (V3('w'), cmod, cprj, vec_make(4, tag, 'v'))
                dc.shim(fn, 'void', WIN + gins + VP, 'auto q = glm::unProject(%s); %s auto u = glm::unProject%s(%s); %s' % (
                    a, vec_store(3, 'q'), cZ, a, vec_store(3, 'u', 'sel')), outs=O3S)
                dcontracts.append((cfg, fn, 'glm::unProject under GLM_CLIP_CONTROL_%s  %s' % (cfg, PJ),
                                   dict(requires=[('viewport_width_nonzero', 'v2 != 0'), ('viewport_height_nonzero', 'v3 != 0'),
                                                  ('proj_times_model_invertible', 'det(%s) != 0' % PM),
                                                  ('preimage_is_a_finite_point', 'det(setcol(%s, 3, %s)) != 0' % (PM, Q))],
                                        ensures=[('equals_selected_variant_unProject' + cZ, 'And(eqv(out, sel))')])))

flat = P.build(d, 'flat')
P.build(dp, 'flat')
for fn, real, kw in contracts:
    kw.setdefault('timeout', 120)
    P.contract(fn, real, kind='R', **kw)
cfg_build = {cfg: P.build(ddrivers[cfg], 'flat', defines=CFG_DEFINES[cfg], tag='c08_' + cfg.lower()) for cfg in CFG_DEFINES}
for cfg, fn, real, kw in dcontracts:
    kw.setdefault('timeout', 60)
    P.contract(fn, real, kind='R', build=cfg_build[cfg], **kw)

P.level_text = ('over the reals (machine arithmetic treated as mathematical): for all real parameters in the documented domain (left != right, '
                'bottom != top, near != far for ortho; additionally near, far > 0 for frustum; 0 < fovy < pi, aspect > 0 for perspective) the '
                'real-valued matrix computed by the code clang extracts from /repo sends the eight corners of the view volume to the eight corners of '
                'the clip cube after the perspective divide (x,y = -1/+1, near -> -1 (NO) or 0 (ZO), far or infinity -> +1, w > 0, RH looks down -z, LH '
                'down +z), perspective equals the symmetric frustum and perspectiveFov equals perspective(width/height) entrywise; in each of the four '
                'GLM_FORCE_LEFT_HANDED x GLM_FORCE_DEPTH_ZERO_TO_ONE builds every unsuffixed/half-suffixed builder, project and unProject equal the '
                'selected variant as real functions; project is gluProject for arbitrary model/proj/viewport (float and int viewport) and maps the '
                'clip-cube corners to the viewport corners at depth 0/1; unProject projects back onto win; unProject(project(p)) = p for diagonal, '
                'frustum-shaped and ortho-shaped projections; pickMatrix maps the pick region onto the clip square')
P.level_note = ('trusted: clang-14 lowering, tools/ll2smt.py symbolic execution over the reals, z3 5.1 (QF_NRA) and sympy (polynomial identity / '
                'Groebner) as deciding engines, specs/rspec.py (matrix-vector product, determinant, ndc_is, proportional, setcol); tan/sin/cos are '
                'uninterpreted functions with the ground axioms sin^2+cos^2=1, cos != 0 => tan*cos = sin; blind to rounding (e.g. loss of accuracy of '
                'far/(far-near) for far >> near), overflow/underflow, NaN/Inf (fovy -> pi, near = far, left = right give Inf/NaN in machine arithmetic: '
                'excluded by the requires), and to bit-level differences between a dispatcher and its selected variant (there are none in the IR: the '
                'compiler merges both calls)')
P.technique = 'contracts over the reals on mechanically extracted LLVM IR: symbolic execution + z3 QF_NRA / sympy Groebner'
P.design_ref = 'DESIGN.md sections 5 and 6 C08'
P.assumptions = ['machine arithmetic treated as mathematical (IEEE float/double identified with the reals)',
                 'for 0 < fovy < pi: sin(fovy/2) > 0, cos(fovy/2) > 0 and hence tan(fovy/2) = sin(fovy/2)/cos(fovy/2) > 0 (stated as requires of every '
                 'perspective / perspectiveFov / infinitePerspective / tweakedInfinitePerspective contract)',
                 'the bound fovy < 3.1415927 in the requires is weaker than fovy < pi (it does not restrict the documented domain)',
                 'view volume of the 4-argument ortho is that of gluOrtho2D: near = -1, far = +1, right-handed, -1..1 depth, in every configuration',
                 'clip w: ortho matrices have last row (0,0,0,1), perspective matrices (0,0,-1,0) (RH) / (0,0,1,0) (LH) as in glFrustum / '
                 'D3DXMatrixPerspectiveOffCenterLH (fixes the free scale factor that the corner clauses leave open)',
                 'tweakedInfinitePerspective is specified as Lengyel\'s right-handed -1..1 matrix (infinity -> 1 - ep) in every configuration; the '
                 '3-argument form uses ep = 2^-23 (float) / 2^-52 (double)',
                 'dispatch contracts compare the dispatcher and the selected variant inside one shim (two calls, two output buffers); the selection '
                 'table (unsuffixed -> cfg; ZO/NO-suffixed -> handedness of cfg; LH/RH-suffixed -> depth range of cfg) is written from manual.md / setup.hpp comments',
                 'unProject domain: viewport width/height != 0, det(proj*model) != 0, and the pre-image of win is a finite point '
                 '(Cramer: det(proj*model with column 3 replaced by the clip point of win) != 0)']
P.not_covered = ['glm::infinitePerspectiveLH / glm::infinitePerspectiveRH: declared in glm/ext/matrix_clip_space.hpp, never defined (link error) - genuine defect, '
                 'see proposed/C08_report.md and proposed/C08_infinitePerspective_LH_RH.patch; their dispatch contracts are generated automatically '
                 'once the definitions exist' + (' (present in this tree: contracts active)' if INF_HALF_DEFINED else ' (absent in this tree)'),
                 'unProjectNO/ZO with model AND proj both fully symbolic (32 matrix entries): z3 and sympy return UNKNOWN at 300 s on the division-safety '
                 'and projects_back_to_win clauses; covered instead: either matrix symbolic with the other the identity (thorough tier, ~175 s), '
                 'diagonal, frustum-shaped and ortho-shaped projections',
                 'unProject(project(p)) == p with a fully symbolic 4x4 in either position (proj_only, model_only, general): UNKNOWN at 300 s; '
                 'covered for identity, diagonal model x diagonal proj, frustum-shaped and ortho-shaped proj with identity model',
                 'dispatch of unProject is shown on diagonal / frustum-shaped / ortho-shaped / identity matrices only (the division-safety obligations '
                 'of the general shim are undecided); dispatch of project is shown at full generality',
                 'bit-exact (kind F) equality of dispatcher and selected variant: CBMC/minisat timed out (120 s) on the tan-based families; the '
                 'real-function equality (kind R) is claimed instead',
                 'float rounding, overflow, fovy -> pi, near -> far (condition of the depth mapping)',
                 'half (T = half) instantiations; integer viewport for unProject / pickMatrix (project with ivec4 viewport is covered)']
