"""C16 - vector, matrix and quaternion storage layout matches the documented contract.
These are static facts (the compiler folds them to constants) and pointer-offset facts; the contract pipeline
checks them uniformly over the generated product (type x length x qualifier x configuration)."""
from engine import Prop
from shimgen import *

P = Prop('C16', 'Vector, matrix and quaternion storage layout matches the documented contract')
INCL = ['<glm/glm.hpp>', '<glm/gtc/type_ptr.hpp>', '<glm/gtc/quaternion.hpp>', '<cstddef>']
SIZES = {'bool': 1, 'i8': 1, 'u8': 1, 'i16': 2, 'u16': 2, 'i32': 4, 'u32': 4, 'i64': 8, 'u64': 8, 'f32': 4, 'f64': 8}
CONFIGS = {
    'default': dict(defines=[], flags=[]),
    'swizzle': dict(defines=['GLM_FORCE_SWIZZLE'], flags=[]),
    'xyzw_only': dict(defines=['GLM_FORCE_XYZW_ONLY'], flags=[]),
    'aligned_gentypes': dict(defines=['GLM_FORCE_ALIGNED_GENTYPES', 'GLM_FORCE_INTRINSICS'], flags=[]),
    'default_aligned': dict(defines=['GLM_FORCE_DEFAULT_ALIGNED_GENTYPES', 'GLM_FORCE_INTRINSICS'], flags=[]),
    'intrinsics_sse2': dict(defines=['GLM_FORCE_INTRINSICS'], flags=['-msse2']),
    'intrinsics_avx2': dict(defines=['GLM_FORCE_INTRINSICS'], flags=['-mavx2']),
    'swizzle_intrinsics': dict(defines=['GLM_FORCE_SWIZZLE', 'GLM_FORCE_INTRINSICS'], flags=[]),
    'size_t_length': dict(defines=['GLM_FORCE_SIZE_T_LENGTH'], flags=[]),
    'quat_wxyz': dict(defines=['GLM_FORCE_QUAT_DATA_WXYZ'], flags=[]),
    'ctor_init': dict(defines=['GLM_FORCE_CTOR_INIT'], flags=[]),
}
ALIGNED_CFG = ('aligned_gentypes', 'default_aligned', 'intrinsics_sse2', 'intrinsics_avx2', 'swizzle_intrinsics')


def cppT(tag):
    return 'bool' if tag == 'bool' else cpp_type(tag)


def pow2ceil(n):
    p = 1
    while p < n:
        p *= 2
    return p


contracts = []
for cfg, cdef in CONFIGS.items():
    d = P.driver('c16_' + cfg, INCL + (['<glm/gtc/type_aligned.hpp>'] if cfg in ALIGNED_CFG else []))
    P.build(d, 'flat', defines=cdef['defines'] + ['GLM_ENABLE_EXPERIMENTAL'], flags=cdef['flags'], tag=cfg)
    quick = cfg in ('default', 'swizzle', 'default_aligned', 'intrinsics_sse2', 'quat_wxyz', 'size_t_length')
    tier = 'quick' if quick else 'thorough'
    packedQ = ['glm::packed_highp', 'glm::packed_mediump', 'glm::packed_lowp']
    tags = ['bool', 'i8', 'u8', 'i16', 'u16', 'i32', 'u32', 'i64', 'u64', 'f32', 'f64']
    # ---------------- packed vectors: sizeof = L*sizeof(T), &v[i] = (T*)&v + i, members x,y,z,w at i*sizeof(T)
    for tag in tags:
        T = cppT(tag)
        for L in (1, 2, 3, 4):
            for Q in packedQ if tag in ('f32', 'i32') else packedQ[:1]:
                V = 'glm::vec<%d, %s, %s>' % (L, T, Q)
                nm = 'vec%d_%s_%s' % (L, tag, Q.split('_')[1])
                d.shim('c16_sizeof_' + nm, 'uint64_t', [], 'return sizeof(%s);' % V)
                contracts.append(('c16_sizeof_' + nm, 'glm/detail/type_vec%d.hpp  sizeof(vec<%d,%s,%s>) [%s]' % (L, L, T, Q, cfg),
                                  dict(build=cfg, tier=tier, ensures=[('is_L_times_sizeof_T', 'RESULT == %d' % (L * SIZES[tag]))])))
                d.shim('c16_index_offset_' + nm, 'uint64_t', [('uint32_t', 'i')],
                       '%s v = %s(); return (uint64_t)((const char*)&v[(int)i] - (const char*)&v);' % (V, V))
                contracts.append(('c16_index_offset_' + nm, 'glm/detail/type_vec%d.inl  &v[i] for vec<%d,%s,%s> [%s]' % (L, L, T, Q, cfg),
                                  dict(build=cfg, tier=tier, requires=[('index_in_range', 'i < %d' % L)],
                                       ensures=[('contiguous', 'RESULT == (u64)i * %d' % SIZES[tag])])))
                body = 'typedef %s VT; ' % V + ' '.join('out[%d] = (uint64_t)offsetof(VT, %s);' % (i, 'xyzw'[i]) for i in range(L))
                d.shim('c16_member_offsets_' + nm, 'void', [], body, outs=[('uint64_t', 'out', L)])
                contracts.append(('c16_member_offsets_' + nm, 'glm/detail/type_vec%d.hpp  offsets of x,y,z,w in vec<%d,%s,%s> [%s]' % (L, L, T, Q, cfg),
                                  dict(build=cfg, tier=tier, ensures=[('member_%s' % 'xyzw'[i], 'out[%d] == %d' % (i, i * SIZES[tag])) for i in range(L)])))
                d.shim('c16_length_' + nm, 'uint64_t', [], 'return (uint64_t)%s::length();' % V)
                d.shim('c16_length_type_width_' + nm, 'uint64_t', [], 'return sizeof(decltype(%s::length()));' % V)
                contracts.append(('c16_length_' + nm, 'glm/detail/type_vec%d.hpp  vec<%d,%s>::length() [%s]' % (L, L, T, cfg),
                                  dict(build=cfg, tier=tier, ensures=[('component_count', 'RESULT == %d' % L)])))
                contracts.append(('c16_length_type_width_' + nm, 'glm/detail/setup.hpp  length_t [%s]' % cfg,
                                  dict(build=cfg, tier=tier, ensures=[('configured_length_type', 'RESULT == %d' % (8 if cfg == 'size_t_length' else 4))])))
    # ---------------- packed matrices: C*R contiguous T, column-major; value_ptr(m)[c*R+r] is m[c][r]
    for tag in ('f32', 'f64', 'i32'):
        T = cppT(tag)
        for Cn in (2, 3, 4):
            for Rn in (2, 3, 4):
                M = 'glm::mat<%d, %d, %s, glm::packed_highp>' % (Cn, Rn, T)
                nm = 'mat%dx%d_%s' % (Cn, Rn, tag)
                d.shim('c16_sizeof_' + nm, 'uint64_t', [], 'return sizeof(%s);' % M)
                contracts.append(('c16_sizeof_' + nm, 'glm/detail/type_mat%dx%d.hpp  sizeof(packed mat%dx%d<%s>) [%s]' % (Cn, Rn, Cn, Rn, T, cfg),
                                  dict(build=cfg, tier=tier, ensures=[('is_C_R_sizeof_T', 'RESULT == %d' % (Cn * Rn * SIZES[tag]))])))
                d.shim('c16_elem_offset_' + nm, 'uint64_t', [('uint32_t', 'c'), ('uint32_t', 'r')],
                       '%s m = %s(); return (uint64_t)((const char*)&m[(int)c][(int)r] - (const char*)glm::value_ptr(m));' % (M, M))
                contracts.append(('c16_elem_offset_' + nm, 'glm/gtc/type_ptr.inl value_ptr + glm/detail/type_mat%dx%d.inl operator[] [%s]' % (Cn, Rn, cfg),
                                  dict(build=cfg, tier=tier, requires=[('indices_in_range', 'c < %d && r < %d' % (Cn, Rn))],
                                       ensures=[('column_major_contiguous', 'RESULT == ((u64)c * %d + (u64)r) * %d' % (Rn, SIZES[tag]))])))
    # ---------------- value_ptr / make_* round trips through a raw array (bit-exact)
    for tag in ('f32', 'i32', 'f64'):
        T = cppT(tag)
        bits = 'll2c_f32_bits' if tag == 'f32' else ('ll2c_f64_bits' if tag == 'f64' else '')
        for L in (2, 3, 4):
            nm = 'vec%d_%s' % (L, tag)
            d.shim('c16_make_' + nm, 'void', vec_ins(L, tag, 'a'),
                   '%s raw[%d] = {%s}; auto v = glm::make_vec%d(raw); const %s* p = glm::value_ptr(v); %s' % (
                       T, L, ', '.join('a%d' % i for i in range(L)), L, T, ' '.join('out[%d] = p[%d]; out[%d] = v.%s;' % (i, i, L + i, 'xyzw'[i]) for i in range(L))),
                   outs=[(T, 'out', 2 * L)])
            contracts.append(('c16_make_' + nm, 'glm/gtc/type_ptr.inl  make_vec%d / value_ptr round trip [%s]' % (L, cfg),
                              dict(build=cfg, tier=tier, ensures=[('value_ptr_%d' % i, '%s(out[%d]) == %s(a%d)' % (bits, i, bits, i)) for i in range(L)] +
                                   [('member_%s' % 'xyzw'[i], '%s(out[%d]) == %s(a%d)' % (bits, L + i, bits, i)) for i in range(L)])))
        if tag != 'i32':
            for (Cn, Rn) in ((2, 2), (2, 3), (3, 3), (3, 4), (4, 4), (4, 2)):
                if cfg == 'default_aligned' and Rn == 3:
                    # OBSERVED DEFECT, outside the claimed set: with aligned default types make_mat2x3/3x3/4x3 memcpy sizeof(mat)
                    # (padded vec3 columns, e.g. 32 bytes for mat2x3) from a raw array of C*3 floats: out-of-bounds read and
                    # shifted columns.  See DESIGN.md section 10.
                    continue
                nm = 'mat%dx%d_%s' % (Cn, Rn, tag)
                n = Cn * Rn
                ins = [(T, 'a%d' % i) for i in range(n)]
                d.shim('c16_make_' + nm, 'void', ins,
                       '%s raw[%d] = {%s}; auto m = glm::make_mat%dx%d(raw); const %s* p = glm::value_ptr(m); %s' % (
                           T, n, ', '.join('a%d' % i for i in range(n)), Cn, Rn, T,
                           ' '.join('out[%d] = p[%d]; out[%d] = m[%d][%d];' % (c * Rn + r, c * Rn + r, n + c * Rn + r, c, r) for c in range(Cn) for r in range(Rn))),
                       outs=[(T, 'out', 2 * n)])
                contracts.append(('c16_make_' + nm, 'glm/gtc/type_ptr.inl  make_mat%dx%d / value_ptr round trip [%s]' % (Cn, Rn, cfg),
                                  dict(build=cfg, tier=tier, ensures=[('value_ptr_%d' % i, '%s(out[%d]) == %s(a%d)' % (bits, i, bits, i)) for i in range(n)] +
                                       [('m_c%d_r%d' % (i // Rn, i % Rn), '%s(out[%d]) == %s(a%d)' % (bits, n + i, bits, i)) for i in range(n)])))
    # ---------------- quaternion memory order: x,y,z,w unless GLM_FORCE_QUAT_DATA_WXYZ (then w,x,y,z); make_quat/value_ptr round trip
    order = 'wxyz' if cfg == 'quat_wxyz' else 'xyzw'
    d.shim('c16_quat_memory', 'void', [('float', c) for c in 'wxyz'],
           'glm::quat q(w, x, y, z); float raw[4]; std::memcpy(raw, &q, sizeof raw); out[0] = raw[0]; out[1] = raw[1]; out[2] = raw[2]; out[3] = raw[3]; '
           'out[4] = (float)sizeof(q);', outs=[('float', 'out', 5)])
    contracts.append(('c16_quat_memory', 'glm/detail/type_quat.hpp  quaternion memory order [%s]' % cfg,
                      dict(build=cfg, tier=tier, ensures=[('mem%d_is_%s' % (i, order[i]), 'll2c_f32_bits(out[%d]) == ll2c_f32_bits(%s)' % (i, order[i])) for i in range(4)] +
                           [('sizeof_is_16', 'out[4] == 16.0f')])))
    d.shim('c16_make_quat', 'void', [('float', 'a%d' % i) for i in range(4)],
           'float raw[4] = {a0, a1, a2, a3}; glm::quat q = glm::make_quat(raw); const float* p = glm::value_ptr(q); out[0] = p[0]; out[1] = p[1]; out[2] = p[2]; out[3] = p[3]; '
           'out[4] = q.%s; out[5] = q.%s; out[6] = q.%s; out[7] = q.%s;' % tuple(order), outs=[('float', 'out', 8)])
    contracts.append(('c16_make_quat', 'glm/gtc/type_ptr.inl  make_quat / value_ptr round trip [%s]' % cfg,
                      dict(build=cfg, tier=tier, ensures=[('value_ptr_%d' % i, 'll2c_f32_bits(out[%d]) == ll2c_f32_bits(a%d)' % (i, i)) for i in range(4)] +
                           [('named_member_%s_at_%d' % (order[i], i), 'll2c_f32_bits(out[%d]) == ll2c_f32_bits(a%d)' % (4 + i, i)) for i in range(4)])))
    # ---------------- aligned types: documented size and alignment, element order unchanged
    if cfg in ALIGNED_CFG:
        for tag in ('f32', 'i32', 'u32', 'f64'):
            T = cppT(tag)
            for L in (1, 2, 3, 4):
                V = 'glm::vec<%d, %s, glm::aligned_highp>' % (L, T)
                nm = 'aligned_vec%d_%s' % (L, tag)
                # documented: an aligned vecL<T> occupies and is aligned to the next power of two of L*sizeof(T) (vec3 is padded like vec4)
                exp_size = pow2ceil(L * SIZES[tag])
                d.shim('c16_sizeof_' + nm, 'uint64_t', [], 'return sizeof(%s);' % V)
                d.shim('c16_alignof_' + nm, 'uint64_t', [], 'return alignof(%s);' % V)
                contracts.append(('c16_sizeof_' + nm, 'glm/detail/qualifier.hpp storage<%d,%s,true>  sizeof(aligned vec) [%s]' % (L, T, cfg),
                                  dict(build=cfg, tier=tier, ensures=[('documented_size', 'RESULT == %d' % exp_size)])))
                # double vec3/vec4 are two 16-byte halves below AVX (alignment 16), one __m256d with AVX (alignment 32);
                # the property statement documents the float cases only
                exp_align = exp_size if not (tag == 'f64' and L >= 3 and cfg != 'intrinsics_avx2') else 16
                contracts.append(('c16_alignof_' + nm, 'glm/detail/qualifier.hpp storage<%d,%s,true>  alignof(aligned vec) [%s]' % (L, T, cfg),
                                  dict(build=cfg, tier=tier, ensures=[('documented_alignment', 'RESULT == %d' % exp_align)])))
                body = 'typedef %s VT; ' % V + ' '.join('out[%d] = (uint64_t)offsetof(VT, %s);' % (i, 'xyzw'[i]) for i in range(L))
                d.shim('c16_member_offsets_' + nm, 'void', [], body, outs=[('uint64_t', 'out', L)])
                contracts.append(('c16_member_offsets_' + nm, 'glm/detail/type_vec%d.hpp  element order of aligned vec<%d,%s> [%s]' % (L, L, T, cfg),
                                  dict(build=cfg, tier=tier, ensures=[('member_%s' % 'xyzw'[i], 'out[%d] == %d' % (i, i * SIZES[tag])) for i in range(L)])))
        for (Cn, Rn) in ((2, 2), (3, 3), (4, 4), (4, 3), (2, 4)):
            M = 'glm::mat<%d, %d, float, glm::aligned_highp>' % (Cn, Rn)
            nm = 'aligned_mat%dx%d_f32' % (Cn, Rn)
            d.shim('c16_sizeof_' + nm, 'uint64_t', [], 'return sizeof(%s);' % M)
            contracts.append(('c16_sizeof_' + nm, 'glm/detail/type_mat%dx%d.hpp  aligned matrix = C consecutive aligned columns [%s]' % (Cn, Rn, cfg),
                              dict(build=cfg, tier=tier, ensures=[('C_aligned_columns', 'RESULT == %d' % (Cn * pow2ceil(Rn * 4)))])))

for fn, real, kw in contracts:
    P.contract(fn, real, unwind=2, timeout=120, **kw)

P.level_text = ('proof of static facts: for every generated instantiation x configuration the sizeof/alignof/offset values the compiler computes '
                'for the real GLM types equal the documented layout, &v[i] and &m[c][r] are proved to lie at the documented byte offset for every '
                'in-range symbolic index, and value_ptr/make_* round trips are bit-exact')
P.level_note = ('facts are those of clang-14 on x86-64 (the suite uses g++; both follow the Itanium/SysV ABI); pointer differences use the ptrtoint model '
                '(object bases 4096-aligned); only the generated instantiation x configuration table is covered')
P.technique = 'CBMC code contracts (DFCC enforce) over compiler-evaluated layout shims and pointer-offset shims'
P.design_ref = 'DESIGN.md section 6 C16'
P.assumptions = ['with clang/gcc GLM only enables aligned types when a SIMD architecture is selected (GLM_LANG_CXXMS_FLAG depends on GLM_ARCH_SIMD_BIT), so the aligned configurations are built with GLM_FORCE_INTRINSICS', 'documented aligned layout: an aligned vecL<T> has size and alignment equal to the next power of two of L*sizeof(T)']
P.not_covered = ['make_matCx3 with GLM_FORCE_DEFAULT_ALIGNED_GENTYPES (observed defect: copies sizeof(padded matrix) bytes from a C*3 element array; recorded in DESIGN.md, not claimed)', 'ISA levels other than SSE2 and AVX2', 'MSVC-specific layouts']
