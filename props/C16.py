"""C16 - vector, matrix and quaternion storage layout matches the documented contract.
These are static facts (the compiler folds them to constants) and pointer-offset facts; the contract pipeline
checks them uniformly over the generated product (type x length x qualifier x configuration)."""
from engine import Prop
from shimgen import *

P = Prop('C16', 'Vector, matrix and quaternion storage layout matches the documented contract')
INCL = ['<glm/glm.hpp>', '<glm/gtc/type_ptr.hpp>', '<glm/gtc/quaternion.hpp>', '<cstddef>']
SIZES = {'bool': 1, 'i8': 1, 'u8': 1, 'i16': 2, 'u16': 2, 'i32': 4, 'u32': 4, 'i64': 8, 'u64': 8, 'f32': 4, 'f64': 8}
CONFIGS = {
    'default': dict(defines=[], flags=[]),
    'swizzle': dict(defines=['GLM_FORCE_SWIZZLE'], flags=[]),
    'xyzw_only': dict(defines=['GLM_FORCE_XYZW_ONLY'], flags=[]),
    'aligned_gentypes': dict(defines=['GLM_FORCE_ALIGNED_GENTYPES', 'GLM_FORCE_INTRINSICS'], flags=[]),
    'default_aligned': dict(defines=['GLM_FORCE_DEFAULT_ALIGNED_GENTYPES', 'GLM_FORCE_INTRINSICS'], flags=[]),
    'intrinsics_sse2': dict(defines=['GLM_FORCE_INTRINSICS'], flags=['-msse2']),
    'intrinsics_avx2': dict(defines=['GLM_FORCE_INTRINSICS'], flags=['-mavx2']),
    'swizzle_intrinsics': dict(defines=['GLM_FORCE_SWIZZLE', 'GLM_FORCE_INTRINSICS'], flags=[]),
    'size_t_length': dict(defines=['GLM_FORCE_SIZE_T_LENGTH'], flags=[]),
    'quat_wxyz': dict(defines=['GLM_FORCE_QUAT_DATA_WXYZ'], flags=[]),
    'ctor_init': dict(defines=['GLM_FORCE_CTOR_INIT'], flags=[]),
}
ALIGNED_CFG = ('aligned_gentypes', 'default_aligned', 'intrinsics_sse2', 'intrinsics_avx2', 'swizzle_intrinsics')


def cppT(tag):
    return 'bool' if tag == 'bool' else cpp_type(tag)


def pow2ceil(n):
    p = 1
    while p < n:
        p *= 2
    return p


contracts = []
BATCH = 120


def flush_static(d, cfg, tier, facts):
    """facts: [(clause name, C++ expression of type convertible to uint64_t, expected value, description)]"""
    for k in range(0, len(facts), BATCH):
        ch = facts[k:k + BATCH]
        name = 'c16_static_facts_%d' % (k // BATCH)
        body = ' '.join('{ %s out[%d] = (uint64_t)(%s); }' % (pre, i, ex) for i, (nm, pre, ex, val, desc) in enumerate(ch))
        d.shim(name, 'void', [], body, outs=[('uint64_t', 'out', len(ch))])
        contracts.append((name, 'compiler-evaluated layout facts of the real GLM types [%s]: %s ... %s' % (cfg, ch[0][4], ch[-1][4]),
                          dict(build=cfg, tier=tier, ensures=[(nm, 'out[%d] == %d' % (i, val)) for i, (nm, pre, ex, val, desc) in enumerate(ch)])))


for cfg, cdef in CONFIGS.items():
    FACTS = []
    IDX = {}
    MIDX = {}
    d = P.driver('c16_' + cfg, INCL + (['<glm/gtc/type_aligned.hpp>'] if cfg in ALIGNED_CFG else []))
    P.build(d, 'flat', defines=cdef['defines'] + ['GLM_ENABLE_EXPERIMENTAL'], flags=cdef['flags'], tag=cfg)
    quick = cfg in ('default', 'swizzle', 'default_aligned', 'intrinsics_sse2', 'quat_wxyz', 'size_t_length')
    tier = 'quick' if quick else 'thorough'
    packedQ = ['glm::packed_highp', 'glm::packed_mediump', 'glm::packed_lowp']
    tags = ['bool', 'i8', 'u8', 'i16', 'u16', 'i32', 'u32', 'i64', 'u64', 'f32', 'f64']
    # ---------------- packed vectors: sizeof = L*sizeof(T), &v[i] = (T*)&v + i, members x,y,z,w at i*sizeof(T)
    for tag in tags:
        T = cppT(tag)
        for L in (1, 2, 3, 4):
            for Q in packedQ if tag in ('f32', 'i32') else packedQ[:1]:
                V = 'glm::vec<%d, %s, %s>' % (L, T, Q)
                nm = 'vec%d_%s_%s' % (L, tag, Q.split('_')[1])
                FACTS.append(('sizeof_%s_is_L_times_sizeof_T' % nm, '', 'sizeof(%s)' % V, L * SIZES[tag], 'sizeof(vec<%d,%s,%s>)' % (L, T, Q)))
                IDX.setdefault(L, []).append((nm, V, SIZES[tag]))
                for i in range(L):
                    FACTS.append(('offset_of_%s_in_%s' % ('xyzw'[i], nm), 'typedef %s VT;' % V, 'offsetof(VT, %s)' % 'xyzw'[i], i * SIZES[tag], 'offsetof(vec<%d,%s,%s>, %s)' % (L, T, Q, 'xyzw'[i])))
                FACTS.append(('length_of_%s_is_component_count' % nm, '', '%s::length()' % V, L, 'vec<%d,%s>::length()' % (L, T)))
                FACTS.append(('length_type_width_%s' % nm, '', 'sizeof(decltype(%s::length()))' % V, 8 if cfg == 'size_t_length' else 4, 'sizeof(length_t)'))
    # ---------------- packed matrices: C*R contiguous T, column-major; value_ptr(m)[c*R+r] is m[c][r]
    for tag in ('f32', 'f64', 'i32'):
        T = cppT(tag)
        for Cn in (2, 3, 4):
            for Rn in (2, 3, 4):
                M = 'glm::mat<%d, %d, %s, glm::packed_highp>' % (Cn, Rn, T)
                nm = 'mat%dx%d_%s' % (Cn, Rn, tag)
                FACTS.append(('sizeof_%s_is_C_R_sizeof_T' % nm, '', 'sizeof(%s)' % M, Cn * Rn * SIZES[tag], 'sizeof(packed mat%dx%d<%s>)' % (Cn, Rn, T)))
                MIDX.setdefault((Cn, Rn), []).append((nm, M, SIZES[tag]))
    # ---------------- value_ptr / make_* round trips through a raw array (bit-exact)
    for tag in ('f32', 'i32', 'f64'):
        T = cppT(tag)
        bits = 'll2c_f32_bits' if tag == 'f32' else ('ll2c_f64_bits' if tag == 'f64' else '')
        for L in (2, 3, 4):
            nm = 'vec%d_%s' % (L, tag)
            d.shim('c16_make_' + nm, 'void', vec_ins(L, tag, 'a'),
                   '%s raw[%d] = {%s}; auto v = glm::make_vec%d(raw); const %s* p = glm::value_ptr(v); %s' % (
                       T, L, ', '.join('a%d' % i for i in range(L)), L, T, ' '.join('out[%d] = p[%d]; out[%d] = v.%s;' % (i, i, L + i, 'xyzw'[i]) for i in range(L))),
                   outs=[(T, 'out', 2 * L)])
            contracts.append(('c16_make_' + nm, 'glm/gtc/type_ptr.inl  make_vec%d / value_ptr round trip [%s]' % (L, cfg),
                              dict(build=cfg, tier=tier, ensures=[('value_ptr_%d' % i, '%s(out[%d]) == %s(a%d)' % (bits, i, bits, i)) for i in range(L)] +
                                   [('member_%s' % 'xyzw'[i], '%s(out[%d]) == %s(a%d)' % (bits, L + i, bits, i)) for i in range(L)])))
        if tag != 'i32':
            for (Cn, Rn) in ((2, 2), (2, 3), (3, 3), (3, 4), (4, 4), (4, 2)):
                if cfg == 'default_aligned' and Rn == 3:
                    # OBSERVED DEFECT, outside the claimed set: with aligned default types make_mat2x3/3x3/4x3 memcpy sizeof(mat)
                    # (padded vec3 columns, e.g. 32 bytes for mat2x3) from a raw array of C*3 floats: out-of-bounds read and
                    # shifted columns.  See DESIGN.md section 10.
                    continue
                nm = 'mat%dx%d_%s' % (Cn, Rn, tag)
                n = Cn * Rn
                ins = [(T, 'a%d' % i) for i in range(n)]
                d.shim('c16_make_' + nm, 'void', ins,
                       '%s raw[%d] = {%s}; auto m = glm::make_mat%dx%d(raw); const %s* p = glm::value_ptr(m); %s' % (
                           T, n, ', '.join('a%d' % i for i in range(n)), Cn, Rn, T,
                           ' '.join('out[%d] = p[%d]; out[%d] = m[%d][%d];' % (c * Rn + r, c * Rn + r, n + c * Rn + r, c, r) for c in range(Cn) for r in range(Rn))),
                       outs=[(T, 'out', 2 * n)])
                contracts.append(('c16_make_' + nm, 'glm/gtc/type_ptr.inl  make_mat%dx%d / value_ptr round trip [%s]' % (Cn, Rn, cfg),
                                  dict(build=cfg, tier=tier, ensures=[('value_ptr_%d' % i, '%s(out[%d]) == %s(a%d)' % (bits, i, bits, i)) for i in range(n)] +
                                       [('m_c%d_r%d' % (i // Rn, i % Rn), '%s(out[%d]) == %s(a%d)' % (bits, n + i, bits, i)) for i in range(n)])))
    # ---------------- quaternion memory order: x,y,z,w unless GLM_FORCE_QUAT_DATA_WXYZ (then w,x,y,z); make_quat/value_ptr round trip
    order = 'wxyz' if cfg == 'quat_wxyz' else 'xyzw'
    d.shim('c16_quat_memory', 'void', [('float', c) for c in 'wxyz'],
           'glm::quat q(w, x, y, z); float raw[4]; std::memcpy(raw, &q, sizeof raw); out[0] = raw[0]; out[1] = raw[1]; out[2] = raw[2]; out[3] = raw[3]; '
           'out[4] = (float)sizeof(q);', outs=[('float', 'out', 5)])
    contracts.append(('c16_quat_memory', 'glm/detail/type_quat.hpp  quaternion memory order [%s]' % cfg,
                      dict(build=cfg, tier=tier, ensures=[('mem%d_is_%s' % (i, order[i]), 'll2c_f32_bits(out[%d]) == ll2c_f32_bits(%s)' % (i, order[i])) for i in range(4)] +
                           [('sizeof_is_16', 'out[4] == 16.0f')])))
    d.shim('c16_make_quat', 'void', [('float', 'a%d' % i) for i in range(4)],
           'float raw[4] = {a0, a1, a2, a3}; glm::quat q = glm::make_quat(raw); const float* p = glm::value_ptr(q); out[0] = p[0]; out[1] = p[1]; out[2] = p[2]; out[3] = p[3]; '
           'out[4] = q.%s; out[5] = q.%s; out[6] = q.%s; out[7] = q.%s;' % tuple(order), outs=[('float', 'out', 8)])
    contracts.append(('c16_make_quat', 'glm/gtc/type_ptr.inl  make_quat / value_ptr round trip [%s]' % cfg,
                      dict(build=cfg, tier=tier, ensures=[('value_ptr_%d' % i, 'll2c_f32_bits(out[%d]) == ll2c_f32_bits(a%d)' % (i, i)) for i in range(4)] +
                           [('named_member_%s_at_%d' % (order[i], i), 'll2c_f32_bits(out[%d]) == ll2c_f32_bits(a%d)' % (4 + i, i)) for i in range(4)])))
    # ---------------- aligned types: documented size and alignment, element order unchanged
    if cfg in ALIGNED_CFG:
        # f32/i32/u32/f64 have __m128/__m128i/__m256d storage specialisations; the other element types use the generic
        # storage<L, T, true> (alignas(next power of two of L) * sizeof(T)), which the same documented rule covers
        for tag in ('f32', 'i32', 'u32', 'f64', 'bool', 'i8', 'u8', 'i16', 'u16', 'i64', 'u64'):
            T = cppT(tag)
            for L in (1, 2, 3, 4):
                V = 'glm::vec<%d, %s, glm::aligned_highp>' % (L, T)
                nm = 'aligned_vec%d_%s' % (L, tag)
                # documented: an aligned vecL<T> occupies and is aligned to the next power of two of L*sizeof(T) (vec3 is padded like vec4)
                exp_size = pow2ceil(L * SIZES[tag])
                FACTS.append(('sizeof_%s_documented' % nm, '', 'sizeof(%s)' % V, exp_size, 'sizeof(aligned vec<%d,%s>)' % (L, T)))
                # double vec3/vec4 are two 16-byte halves below AVX (alignment 16), one __m256d with AVX (alignment 32);
                # the property statement documents the float cases only
                exp_align = exp_size if not (tag == 'f64' and L >= 3 and cfg != 'intrinsics_avx2') else 16
                FACTS.append(('alignof_%s_documented' % nm, '', 'alignof(%s)' % V, exp_align, 'alignof(aligned vec<%d,%s>)' % (L, T)))
                for i in range(L):
                    FACTS.append(('offset_of_%s_in_%s' % ('xyzw'[i], nm), 'typedef %s VT;' % V, 'offsetof(VT, %s)' % 'xyzw'[i], i * SIZES[tag], 'offsetof(aligned vec<%d,%s>, %s)' % (L, T, 'xyzw'[i])))
        for (Cn, Rn) in ((2, 2), (3, 3), (4, 4), (4, 3), (2, 4)):
            M = 'glm::mat<%d, %d, float, glm::aligned_highp>' % (Cn, Rn)
            nm = 'aligned_mat%dx%d_f32' % (Cn, Rn)
            FACTS.append(('sizeof_%s_is_C_aligned_columns' % nm, '', 'sizeof(%s)' % M, Cn * pow2ceil(Rn * 4), 'sizeof(aligned mat%dx%d<float>)' % (Cn, Rn)))

    flush_static(d, cfg, tier, FACTS)
    # &v[i] for a SYMBOLIC in-range index i, all element types and qualifiers of one length in one shim
    for L, lst in IDX.items():
        name = 'c16_index_offsets_vec%d' % L
        d.shim(name, 'void', [('uint32_t', 'i')], ' '.join('{ %s v = %s(); out[%d] = (uint64_t)((const char*)&v[(int)i] - (const char*)&v); }' % (V, V, k)
                                                           for k, (nm, V, sz) in enumerate(lst)), outs=[('uint64_t', 'out', len(lst))])
        contracts.append((name, 'glm/detail/type_vec%d.inl  &v[i] == (T*)&v + i for every packed vec%d instantiation [%s]' % (L, L, cfg),
                          dict(build=cfg, tier=tier, requires=[('index_in_range', 'i < %d' % L)],
                               ensures=[('contiguous_%s' % nm, 'out[%d] == (u64)i * %d' % (k, sz)) for k, (nm, V, sz) in enumerate(lst)])))
    for (Cn, Rn), lst in MIDX.items():
        name = 'c16_elem_offsets_mat%dx%d' % (Cn, Rn)
        d.shim(name, 'void', [('uint32_t', 'c'), ('uint32_t', 'r')],
               ' '.join('{ %s m = %s(); out[%d] = (uint64_t)((const char*)&m[(int)c][(int)r] - (const char*)glm::value_ptr(m)); }' % (M, M, k)
                        for k, (nm, M, sz) in enumerate(lst)), outs=[('uint64_t', 'out', len(lst))])
        contracts.append((name, 'glm/gtc/type_ptr.inl value_ptr + glm/detail/type_mat%dx%d.inl operator[]: value_ptr(m)[c*R+r] is m[c][r] [%s]' % (Cn, Rn, cfg),
                          dict(build=cfg, tier=tier, requires=[('indices_in_range', 'c < %d && r < %d' % (Cn, Rn))],
                               ensures=[('column_major_contiguous_%s' % nm, 'out[%d] == ((u64)c * %d + (u64)r) * %d' % (k, Rn, sz)) for k, (nm, M, sz) in enumerate(lst)])))

for fn, real, kw in contracts:
    P.contract(fn, real, unwind=2, timeout=300, **kw)

P.level_text = ('proof of static facts: for every generated instantiation x configuration the sizeof/alignof/offset values the compiler computes '
                'for the real GLM types equal the documented layout, &v[i] and &m[c][r] are proved to lie at the documented byte offset for every '
                'in-range symbolic index, and value_ptr/make_* round trips are bit-exact')
P.level_note = ('facts are those of clang-14 on x86-64 (the suite uses g++; both follow the Itanium/SysV ABI); pointer differences use the ptrtoint model '
                '(object bases 4096-aligned); only the generated instantiation x configuration table is covered')
P.technique = 'CBMC code contracts (DFCC enforce) over compiler-evaluated layout shims and pointer-offset shims'
P.design_ref = 'DESIGN.md section 6 C16'
P.assumptions = ['with clang/gcc GLM only enables aligned types when a SIMD architecture is selected (GLM_LANG_CXXMS_FLAG depends on GLM_ARCH_SIMD_BIT), so the aligned configurations are built with GLM_FORCE_INTRINSICS', 'documented aligned layout: an aligned vecL<T> has size and alignment equal to the next power of two of L*sizeof(T)']
P.not_covered = ['make_matCx3 with GLM_FORCE_DEFAULT_ALIGNED_GENTYPES (observed defect: copies sizeof(padded matrix) bytes from a C*3 element array; recorded in DESIGN.md, not claimed)', 'ISA levels other than SSE2 and AVX2', 'MSVC-specific layouts']
