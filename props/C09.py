"""C09 - translate / rotate / scale / shear / lookAt build the transforms they name (kind R: over the reals).

Every top-level ensures is  f(M, p) == M * E(p)  entrywise, with M fully symbolic and E the elementary matrix written
from the textbook in specs/rspec.py terms (translation column, Rodrigues rotation about the NORMALISED axis, diagonal
scale, elementary shear I + k e_r e_c^T, the matrix printed in the documentation of glm::shear), or, for lookAt, the
geometric facts of the statement (rigid, proper, eye -> origin, view direction -> -z (RH) / +z (LH), up in the +y
half-plane, handedness dispatch checked in two builds of the same driver)."""
import os
from engine import Prop
from shimgen import *

P = Prop('C09', 'translate/rotate/scale/shear/lookAt/decompose build the transforms they name')
d = P.driver('c09', ['<glm/glm.hpp>', '<glm/ext/matrix_transform.hpp>', '<glm/gtc/quaternion.hpp>', '<glm/gtx/transform.hpp>',
                     '<glm/gtx/transform2.hpp>', '<glm/gtx/rotate_vector.hpp>', '<glm/gtx/rotate_normalized_axis.hpp>',
                     '<glm/gtx/matrix_transform_2d.hpp>', '<glm/gtx/matrix_interpolation.hpp>', '<glm/gtx/matrix_decompose.hpp>'])
contracts = []


def R(fn, real, **kw):
    contracts.append((fn, real, kw))


def names(ins):
    return '[%s]' % ', '.join(n for _, n in ins)


EXT = 'glm/ext/matrix_transform.inl'
for tag in ('f32', 'f64'):
    T = cpp_type(tag)
    dbl = tag == 'f64'
    m4, m3 = mat_ins(4, 4, tag, 'm'), mat_ins(3, 3, tag, 'm')
    M4, M3 = 'mat(%s, 4, 4)' % names(m4), 'mat(%s, 3, 3)' % names(m3)
    mk4, mk3 = mat_make(4, 4, tag, 'm'), mat_make(3, 3, tag, 'm')
    st4, st3 = mat_store(4, 4, 'r'), mat_store(3, 3, 'r')
    O4, O3 = 'mat(out, 4, 4)', 'mat(out, 3, 3)'
    v3, v2 = vec_ins(3, tag, 'v'), vec_ins(2, tag, 'v')
    V3, V2 = names(v3), names(v2)
    mkv3, mkv2 = vec_make(3, tag, 'v'), vec_make(2, tag, 'v')
    ang = [(T, 'a')]
    UNIT = 'vdiv(%s, sqrt(norm2(%s)))' % (V3, V3)          # the normalised axis  v / |v|
    ROD = 'rodrigues(cos(a), sin(a), %s)' % UNIT            # textbook Rodrigues rotation about v / |v|
    NZ = [('axis_nonzero', 'norm2(%s) > 0' % V3)]

    def shim_m4(name, ins, call):
        d.shim(name, 'void', ins, 'auto r = %s; %s' % (call, st4), outs=[(T, 'out', 16)])

    def shim_m3(name, ins, call):
        d.shim(name, 'void', ins, 'auto r = %s; %s' % (call, st3), outs=[(T, 'out', 9)])

    def shim_v(name, L, ins, call):
        d.shim(name, 'void', ins, 'auto r = %s; %s' % (call, vec_store(L, 'r')), outs=[(T, 'out', L)])

    # ------------------------------------------------------------------ ext/matrix_transform: M * E
    shim_m4('glm_translate_' + tag, m4 + v3, 'glm::translate(%s, %s)' % (mk4, mkv3))
    R('glm_translate_' + tag, 'glm::translate(mat4, vec3)  ' + EXT,
      ensures=[('is_m_times_translation', 'And(eqm(%s, matmul(%s, translation(%s))))' % (O4, M4, V3))])

    for fn in ('rotate', 'rotate_slow'):
        shim_m4('glm_%s_%s' % (fn, tag), m4 + ang + v3, 'glm::%s(%s, a, %s)' % (fn, mk4, mkv3))
        R('glm_%s_%s' % (fn, tag), 'glm::%s(mat4, angle, vec3)  %s' % (fn, EXT), requires=NZ,
          ensures=[('is_m_times_rodrigues_about_normalised_axis', 'And(eqm(%s, matmul(%s, embed4(%s))))' % (O4, M4, ROD))])

    for fn in ('scale', 'scale_slow'):
        shim_m4('glm_%s_%s' % (fn, tag), m4 + v3, 'glm::%s(%s, %s)' % (fn, mk4, mkv3))
        R('glm_%s_%s' % (fn, tag), 'glm::%s(mat4, vec3)  %s' % (fn, EXT),
          ensures=[('is_m_times_diagonal', 'And(eqm(%s, matmul(%s, diag(%s + [1]))))' % (O4, M4, V3))])

    p3, lx, ly, lz = vec_ins(3, tag, 'p'), vec_ins(2, tag, 'lx'), vec_ins(2, tag, 'ly'), vec_ins(2, tag, 'lz')
    for fn in ('shear', 'shear_slow'):
        shim_m4('glm_%s_%s' % (fn, tag), m4 + p3 + lx + ly + lz, 'glm::%s(%s, %s, %s, %s, %s)' % (
            fn, mk4, vec_make(3, tag, 'p'), vec_make(2, tag, 'lx'), vec_make(2, tag, 'ly'), vec_make(2, tag, 'lz')))
        R('glm_%s_%s' % (fn, tag), 'glm::%s(mat4, p, l_x, l_y, l_z)  %s' % (fn, EXT),
          ensures=[('is_m_times_documented_shear_matrix', 'And(eqm(%s, matmul(%s, shear4_doc(%s, %s, %s, %s))))' % (
              O4, M4, names(p3), names(lx), names(ly), names(lz)))])

    # ------------------------------------------------------------------ lookAt
    e3, c3, u3 = vec_ins(3, tag, 'e'), vec_ins(3, tag, 'c'), vec_ins(3, tag, 'u')
    E, C, U = names(e3), names(c3), names(u3)
    D = 'vsub(%s, %s)' % (C, E)
    F = 'vdiv(%s, sqrt(norm2(%s)))' % (D, D)                # f = normalize(center - eye)
    look_req = [('eye_differs_from_center', 'norm2(%s) > 0' % D),
                ('up_not_parallel_to_view_direction', 'norm2(cross(%s, %s)) > 0' % (F, U))]
    RB = 'block(%s, 3)' % O4

    def look_ens(zsign):
        return [('last_row_is_0001', 'And(eqv([%s[c][3] for c in range(4)], [0, 0, 0, 1]))' % O4),
                ('rotation_block_orthonormal', 'And(eqm(matmul(%s, transpose(%s)), ident(3)))' % (RB, RB)),
                ('rotation_block_proper_det_plus_one', 'det(%s) == 1' % RB),
                ('eye_maps_to_origin', 'And(eqv(hom(%s, %s), [0, 0, 0, 1]))' % (O4, E)),
                ('view_direction_maps_to_%s_z' % ('minus' if zsign < 0 else 'plus'),
                 'And(eqv(matvec(%s, %s + [0]), [0, 0, %d, 0]))' % (O4, F, zsign)),
                ('up_image_has_zero_x', 'matvec(%s, %s)[0] == 0' % (RB, U)),
                ('up_image_has_positive_y', 'matvec(%s, %s)[1] > 0' % (RB, U))]
    lk_args = '%s, %s, %s' % (vec_make(3, tag, 'e'), vec_make(3, tag, 'c'), vec_make(3, tag, 'u'))
    for fn, zs, build in (('lookAtRH', -1, None), ('lookAtLH', +1, None), ('lookAt', -1, None), ('lookAt', +1, 'c09_lh')):
        nm = 'glm_%s%s_%s' % (fn, '_cfgLH' if build else '', tag)
        shim_m4(nm, e3 + c3 + u3, 'glm::%s(%s)' % (fn, lk_args))
        kw = dict(requires=look_req, ensures=look_ens(zs))
        if build:
            kw['build'] = build
        R(nm, 'glm::%s(eye, center, up)%s  %s' % (fn, ' [GLM_FORCE_LEFT_HANDED]' if build else '', EXT), **kw)
    # handedness dispatch, relational: lookAt is entrywise lookAtRH (default) / lookAtLH (GLM_FORCE_LEFT_HANDED)
    # (the depth-range switch must not influence it: GLM_FORCE_DEPTH_ZERO_TO_ONE alone -> RH, together with GLM_FORCE_LEFT_HANDED -> LH)
    for other, build in (('lookAtRH', None), ('lookAtLH', 'c09_lh'), ('lookAtRH', 'c09_rh_zo'), ('lookAtLH', 'c09_lh_zo')):
        nm = 'glm_lookAt_dispatch%s_%s' % ({None: '', 'c09_lh': '_cfgLH', 'c09_rh_zo': '_cfgRHZO', 'c09_lh_zo': '_cfgLHZO'}[build], tag)
        d.shim(nm, 'void', e3 + c3 + u3, 'auto r = glm::lookAt(%s); %s auto q = glm::%s(%s); %s' % (
            lk_args, st4, other, lk_args, mat_store(4, 4, 'q', 'ref')), outs=[(T, 'out', 16), (T, 'ref', 16)])
        kw = dict(requires=look_req, ensures=[('lookAt_is_%s' % other, 'And(eqm(%s, mat(ref, 4, 4)))' % O4)])
        if build:
            kw['build'] = build
        R(nm, 'glm::lookAt vs glm::%s%s  %s' % (other, ' [%s]' % build if build else '', EXT), **kw)

    # ------------------------------------------------------------------ gtx/transform: builders == ext(identity, ...) == E
    GT = 'glm/gtx/transform.inl'
    shim_m4('glm_gtx_translate_' + tag, v3, 'glm::translate(%s)' % mkv3)
    R('glm_gtx_translate_' + tag, 'glm::translate(vec3)  ' + GT,
      ensures=[('is_translation', 'And(eqm(%s, translation(%s)))' % (O4, V3))])
    shim_m4('glm_gtx_rotate_' + tag, ang + v3, 'glm::rotate(a, %s)' % mkv3)
    R('glm_gtx_rotate_' + tag, 'glm::rotate(angle, vec3)  ' + GT, requires=NZ,
      ensures=[('is_rodrigues_about_normalised_axis', 'And(eqm(%s, embed4(%s)))' % (O4, ROD))])
    shim_m4('glm_gtx_scale_' + tag, v3, 'glm::scale(%s)' % mkv3)
    R('glm_gtx_scale_' + tag, 'glm::scale(vec3)  ' + GT,
      ensures=[('is_diagonal', 'And(eqm(%s, diag(%s + [1])))' % (O4, V3))])

    # ------------------------------------------------------------------ gtx/rotate_vector
    RV = 'glm/gtx/rotate_vector.inl'
    x2, x3, x4 = vec_ins(2, tag, 'x'), vec_ins(3, tag, 'x'), vec_ins(4, tag, 'x')
    shim_v('glm_rotate_vec2_' + tag, 2, x2 + ang, 'glm::rotate(%s, a)' % vec_make(2, tag, 'x'))
    R('glm_rotate_vec2_' + tag, 'glm::rotate(vec2, angle)  ' + RV,
      ensures=[('is_plane_rotation', 'And(eqv(out, matvec(block(rotZ(cos(a), sin(a)), 2), %s)))' % names(x2))])
    shim_v('glm_rotate_vec3_' + tag, 3, x3 + ang + v3, 'glm::rotate(%s, a, %s)' % (vec_make(3, tag, 'x'), mkv3))
    R('glm_rotate_vec3_' + tag, 'glm::rotate(vec3, angle, normal)  ' + RV, requires=NZ,
      ensures=[('is_rodrigues_times_v', 'And(eqv(out, matvec(%s, %s)))' % (ROD, names(x3)))])
    shim_v('glm_rotate_vec4_' + tag, 4, x4 + ang + v3, 'glm::rotate(%s, a, %s)' % (vec_make(4, tag, 'x'), mkv3))
    R('glm_rotate_vec4_' + tag, 'glm::rotate(vec4, angle, normal)  ' + RV, requires=NZ,
      ensures=[('is_rodrigues_times_v', 'And(eqv(out, matvec(embed4(%s), %s)))' % (ROD, names(x4)))])
    for ax in 'XYZ':
        shim_v('glm_rotate%s_vec3_%s' % (ax, tag), 3, x3 + ang, 'glm::rotate%s(%s, a)' % (ax, vec_make(3, tag, 'x')))
        R('glm_rotate%s_vec3_%s' % (ax, tag), 'glm::rotate%s(vec3, angle)  %s' % (ax, RV),
          ensures=[('is_axis_rotation', 'And(eqv(out, matvec(rot%s(cos(a), sin(a)), %s)))' % (ax, names(x3)))])
        shim_v('glm_rotate%s_vec4_%s' % (ax, tag), 4, x4 + ang, 'glm::rotate%s(%s, a)' % (ax, vec_make(4, tag, 'x')))
        R('glm_rotate%s_vec4_%s' % (ax, tag), 'glm::rotate%s(vec4, angle)  %s' % (ax, RV),
          ensures=[('is_axis_rotation', 'And(eqv(out, matvec(embed4(rot%s(cos(a), sin(a))), %s)))' % (ax, names(x4)))])

    # ------------------------------------------------------------------ gtx/rotate_normalized_axis
    RN = 'glm/gtx/rotate_normalized_axis.inl'
    UNITREQ = [('axis_is_unit', 'norm2(%s) == 1' % V3)]
    shim_m4('glm_rotateNormalizedAxis_' + tag, m4 + ang + v3, 'glm::rotateNormalizedAxis(%s, a, %s)' % (mk4, mkv3))
    R('glm_rotateNormalizedAxis_' + tag, 'glm::rotateNormalizedAxis(mat4, angle, axis)  ' + RN, requires=UNITREQ,
      ensures=[('is_m_times_rodrigues', 'And(eqm(%s, matmul(%s, embed4(rodrigues(cos(a), sin(a), %s)))))' % (O4, M4, V3))])
    q4 = [(T, 'qw'), (T, 'qx'), (T, 'qy'), (T, 'qz')]
    d.shim('glm_rotateNormalizedAxis_quat_' + tag, 'void', q4 + ang + v3,
           'auto r = glm::rotateNormalizedAxis(glm::qua<%s, glm::defaultp>(qw, qx, qy, qz), a, %s); '
           'out[0] = r.w; out[1] = r.x; out[2] = r.y; out[3] = r.z;' % (T, mkv3), outs=[(T, 'out', 4)])
    HALF = 'a * R(1) / 2'
    R('glm_rotateNormalizedAxis_quat_' + tag, 'glm::rotateNormalizedAxis(quat, angle, axis)  ' + RN, requires=UNITREQ,
      ensures=[('is_q_times_axis_angle_quaternion',
                'And(eqv(out, qmul([qw, qx, qy, qz], [cos(%s)] + vscale(%s, sin(%s)))))' % (HALF, V3, HALF))])

    # ------------------------------------------------------------------ gtx/matrix_transform_2d (mat3, homogeneous 2D)
    T2 = 'glm/gtx/matrix_transform_2d.inl'
    sc = [(T, 'k')]
    shim_m3('glm_translate2d_' + tag, m3 + v2, 'glm::translate(%s, %s)' % (mk3, mkv2))
    R('glm_translate2d_' + tag, 'glm::translate(mat3, vec2)  ' + T2,
      ensures=[('is_m_times_translation', 'And(eqm(%s, matmul(%s, translation(%s))))' % (O3, M3, V2))])
    shim_m3('glm_rotate2d_' + tag, m3 + ang, 'glm::rotate(%s, a)' % mk3)
    R('glm_rotate2d_' + tag, 'glm::rotate(mat3, angle)  ' + T2,
      ensures=[('is_m_times_plane_rotation', 'And(eqm(%s, matmul(%s, rotZ(cos(a), sin(a)))))' % (O3, M3))])
    shim_m3('glm_scale2d_' + tag, m3 + v2, 'glm::scale(%s, %s)' % (mk3, mkv2))
    R('glm_scale2d_' + tag, 'glm::scale(mat3, vec2)  ' + T2,
      ensures=[('is_m_times_diagonal', 'And(eqm(%s, matmul(%s, diag(%s + [1]))))' % (O3, M3, V2))])
    # documentation: shearX "horizontal (parallel to the x axis) shear": (x, y) -> (x + k*y, y); shearY "vertical": (x, y) -> (x, y + k*x)
    shim_m3('glm_shearX2d_' + tag, m3 + sc, 'glm::shearX(%s, k)' % mk3)
    R('glm_shearX2d_' + tag, 'glm::shearX(mat3, k)  ' + T2,
      ensures=[('is_m_times_horizontal_shear', 'And(eqm(%s, matmul(%s, shear_elem(3, 0, 1, k))))' % (O3, M3))])
    shim_m3('glm_shearY2d_' + tag, m3 + sc, 'glm::shearY(%s, k)' % mk3)
    R('glm_shearY2d_' + tag, 'glm::shearY(mat3, k)  ' + T2,
      ensures=[('is_m_times_vertical_shear', 'And(eqm(%s, matmul(%s, shear_elem(3, 1, 0, k))))' % (O3, M3))])

    # ------------------------------------------------------------------ gtx/transform2 2D shears ("shearing on X axis" = parallel to x)
    TR2 = 'glm/gtx/transform2.inl'
    shim_m3('glm_shearX2D_' + tag, m3 + sc, 'glm::shearX2D(%s, k)' % mk3)
    R('glm_shearX2D_' + tag, 'glm::shearX2D(mat3, k)  ' + TR2,
      ensures=[('is_m_times_shear_along_x', 'And(eqm(%s, matmul(%s, shear_elem(3, 0, 1, k))))' % (O3, M3))])
    shim_m3('glm_shearY2D_' + tag, m3 + sc, 'glm::shearY2D(%s, k)' % mk3)
    R('glm_shearY2D_' + tag, 'glm::shearY2D(mat3, k)  ' + TR2,
      ensures=[('is_m_times_shear_along_y', 'And(eqm(%s, matmul(%s, shear_elem(3, 1, 0, k))))' % (O3, M3))])

    # "scale bias matrix": p -> k*p + (b, b, b), i.e. translation(b, b, b) * diag(k, k, k, 1).
    # On the unchanged /repo scaleBias returns a matrix whose 9 off-diagonal entries are never written (default-constructed
    # mat4 = indeterminate values): the T-check (clang IR vs g++ binary) disagrees on every input and the engine stops with
    # exit 2 for the WHOLE property, so these two contracts are only generated with C09_SCALEBIAS=1 (tree with the proposed
    # patch C09_scaleBias_uninit.patch applied).  See proposed/C09_report.md.
    if True:  # enabled since fix 166de7a (scaleBias initialises its result)
        sb = [(T, 'k'), (T, 'b')]
        SB = 'matmul(translation([b, b, b]), diag([k, k, k, 1]))'
        shim_m4('glm_scaleBias_' + tag, sb, 'glm::scaleBias<%s, glm::defaultp>(k, b)' % T)
        R('glm_scaleBias_' + tag, 'glm::scaleBias(scale, bias)  ' + TR2,
          ensures=[('is_scale_then_bias', 'And(eqm(%s, %s))' % (O4, SB))])
        shim_m4('glm_scaleBias_m_' + tag, m4 + sb, 'glm::scaleBias(%s, k, b)' % mk4)
        R('glm_scaleBias_m_' + tag, 'glm::scaleBias(mat4, scale, bias)  ' + TR2,
          ensures=[('is_m_times_scale_then_bias', 'And(eqm(%s, matmul(%s, %s)))' % (O4, M4, SB))])

    # ------------------------------------------------------------------ gtx/matrix_interpolation (the two closed-form builders)
    MI = 'glm/gtx/matrix_interpolation.inl'
    shim_m4('glm_axisAngleMatrix_' + tag, v3 + ang, 'glm::axisAngleMatrix(%s, a)' % mkv3)
    R('glm_axisAngleMatrix_' + tag, 'glm::axisAngleMatrix(axis, angle)  ' + MI, requires=NZ,
      ensures=[('is_rodrigues_about_normalised_axis', 'And(eqm(%s, embed4(%s)))' % (O4, ROD))])
    shim_m4('glm_extractMatrixRotation_' + tag, m4, 'glm::extractMatrixRotation(%s)' % mk4)
    R('glm_extractMatrixRotation_' + tag, 'glm::extractMatrixRotation(mat4)  ' + MI,
      ensures=[('is_rotation_block_padded_with_identity', 'And(eqm(%s, embed4(block(%s, 3))))' % (O4, M4))])

    # ------------------------------------------------------------------ gtx/matrix_decompose: recompose alone (closed form)
    # W3C CSS Transforms "recomposing to a 3D matrix" (the algorithm the file cites): perspective row, then translation, rotation,
    # YZ / XZ / XY skews, scale, multiplied on the right in this order; Skew = (YZ, XZ, XY) as documented by decompose
    # recompose<double> does not compile against the unchanged /repo (glm::mat4 hard-coded in its body: finding, see
    # proposed/C09_report.md); C09_RECOMPOSE_F64=1 adds the double instantiation (for a tree with the proposed patch applied)
    if False:  # f64 enabled since fix a0ee307 (recompose is generic)
        continue
    s3, t3, k3, pp4 = vec_ins(3, tag, 's'), vec_ins(3, tag, 't'), vec_ins(3, tag, 'k'), vec_ins(4, tag, 'pp')
    Q = '[qw, qx, qy, qz]'
    d.shim('glm_recompose_' + tag, 'void', s3 + q4 + t3 + k3 + pp4,
           'auto r = glm::recompose(%s, glm::qua<%s, glm::defaultp>(qw, qx, qy, qz), %s, %s, %s); %s' % (
               vec_make(3, tag, 's'), T, vec_make(3, tag, 't'), vec_make(3, tag, 'k'), vec_make(4, tag, 'pp'), st4), outs=[(T, 'out', 16)])
    R('glm_recompose_' + tag, 'glm::recompose(scale, orientation, translation, skew, perspective)  glm/gtx/matrix_decompose.inl',
      requires=[('orientation_is_unit', 'norm2(%s) == 1' % Q)], tier='thorough',
      ensures=[('is_perspective_translation_rotation_skews_scale',
                'And(eqm(%s, mprod(last_row(%s), translation(%s), embed4(qrot_matrix(%s)), shear_elem(4, 1, 2, k0), '
                'shear_elem(4, 0, 2, k1), shear_elem(4, 0, 1, k2), diag(%s + [1]))))' % (O4, names(pp4), names(t3), Q, names(s3)))])

flat = P.build(d, 'flat', defines=['GLM_ENABLE_EXPERIMENTAL'])
lh = P.build(d, 'flat', defines=['GLM_ENABLE_EXPERIMENTAL', 'GLM_FORCE_LEFT_HANDED'], tag='c09_lh')
rh_zo = P.build(d, 'flat', defines=['GLM_ENABLE_EXPERIMENTAL', 'GLM_FORCE_DEPTH_ZERO_TO_ONE'], tag='c09_rh_zo')
lh_zo = P.build(d, 'flat', defines=['GLM_ENABLE_EXPERIMENTAL', 'GLM_FORCE_LEFT_HANDED', 'GLM_FORCE_DEPTH_ZERO_TO_ONE'], tag='c09_lh_zo')
for _b in (rh_zo, lh_zo):
    _b.only = {n for n in d.order if 'lookAt_dispatch' in n}
for fn, real, kw in contracts:
    kw.setdefault('timeout', 120)
    P.contract(fn, real, kind='R', **kw)

P.level_text = ('over the reals (machine arithmetic treated as mathematical): the real-valued function computed by the code clang '
                'extracts from /repo equals M * E(p) entrywise for a fully symbolic M and every parameter value, E being the textbook '
                'elementary matrix (translation, Rodrigues rotation about the normalised axis, diagonal scale, shear); lookAt is rigid, '
                'proper, sends eye to the origin, the view direction to -z (RH) / +z (LH) and up into the +y half-plane, in both handedness '
                'configurations')
P.level_note = ('trusted: clang-14 lowering, tools/ll2smt.py symbolic execution, z3 nlsat / sympy Groebner, rspec.py (matrix product, '
                'Rodrigues formula, elementary matrices), sin/cos/sqrt as uninterpreted functions with sin^2+cos^2=1 and sqrt(x)^2=x; '
                'blind to rounding, overflow/underflow, NaN/Inf (e.g. loss of orthogonality for tiny axes or nearly parallel up vectors)')
P.technique = 'contracts over the reals on mechanically extracted LLVM IR: symbolic execution + z3 QF_NRA / sympy Groebner'
P.design_ref = 'DESIGN.md sections 5 and 6 C09'
P.assumptions = ['machine arithmetic treated as mathematical (IEEE float/double identified with the reals)',
                 'sin(a) and cos(a) denote the same uninterpreted applications in code and clause; no trigonometric identity beyond the '
                 'built-in ground axioms sin^2+cos^2=1 and sqrt(x)^2=x (x>=0) is assumed in any requires']
P.not_covered = [
    'decompose and the round trip recompose(decompose(M)) == M: two attempts.  The data-dependent indices Row[i][i] / Orientation[i + off] are '
    'executed since tools/ll2smt.py has multi-pointers, but with the Gram-Schmidt chain of four square roots and the divisions by them z3 '
    '(default and nlsat) answers unknown even for Scale.x^2 == |column 0|^2 (proposed/C09_decompose_attempt.py.txt); only recompose alone '
    '(closed form) is under contract.  The seeded change seeded/C09 (skew sign of mirrored matrices) is therefore NOT detected',
    'recompose<double>: does not compile against the unchanged /repo (glm::mat4 hard-coded in the body; finding, patch '
    'proposed/C09_recompose_generic.patch); the f64 contract is generated only with C09_RECOMPOSE_F64=1',
    'gtx/transform2 scaleBias (both overloads): returns indeterminate off-diagonal entries on the unchanged /repo (finding, patch '
    'proposed/C09_scaleBias_uninit.patch); undefined values make the T-check stop the whole property, so the two contracts '
    'are generated only with C09_SCALEBIAS=1',
    'gtx/transform2 shearX3D/shearY3D/shearZ3D: the one-line documentation ("shearing on X axis") does not determine which of '
    'the two textbook conventions is meant (x moves by s*y + t*z, or y and z move by s*x and t*x), so no clause can be taken '
    'from the statement; reflect2D/3D, proj2D/3D are outside the statement',
    'gtx/rotate_vector orientation() (epsilon branch + acos) and slerp(vec3) (belongs to the interpolation property)',
    'gtx/matrix_interpolation axisAngle() and interpolate() (branchy, epsilon comparisons, acos)',
    'rounding: loss of orthogonality / unit determinant in floating point, tiny or huge axes (overflow of dot(v, v)), '
    'up nearly parallel to the view direction; the zero axis and eye == center (division by zero, excluded by requires)',
    'qualifiers other than defaultp (packed_highp); SIMD specialisations',
]
