"""C07 - float <-> half conversion: exact one way, round-to-nearest the other."""
from engine import Prop

P = Prop('C07', 'float <-> half conversion is exact one way and round-to-nearest the other')
d = P.driver('c07', ['<glm/glm.hpp>', '<glm/gtc/packing.hpp>'])
d.shim('glm_toFloat32', 'float', [('uint16_t', 'h')], 'return glm::detail::toFloat32((glm::detail::hdata)h);')
d.shim('glm_toFloat16', 'uint16_t', [('float', 'x')], 'return (uint16_t)glm::detail::toFloat16(x);')
d.shim('glm_half_roundtrip', 'uint16_t', [('uint16_t', 'h')],
       'return (uint16_t)glm::detail::toFloat16(glm::detail::toFloat32((glm::detail::hdata)h));')
d.shim('glm_toFloat16_pair', 'uint32_t', [('float', 'x'), ('float', 'y')],
       'return (uint32_t)(uint16_t)glm::detail::toFloat16(x) | ((uint32_t)(uint16_t)glm::detail::toFloat16(y) << 16);')
d.shim('glm_packHalf1x16', 'uint16_t', [('float', 'x')], 'return glm::packHalf1x16(x);')
d.shim('glm_unpackHalf1x16', 'float', [('uint16_t', 'h')], 'return glm::unpackHalf1x16(h);')
d.shim('glm_packHalf2x16', 'uint32_t', [('float', 'x'), ('float', 'y')], 'return glm::packHalf2x16(glm::vec2(x, y));')
d.shim('glm_unpackHalf2x16', 'void', [('uint32_t', 'p')], 'glm::vec2 r = glm::unpackHalf2x16(p); out[0] = r.x; out[1] = r.y;',
       outs=[('float', 'out', 2)])
d.shim('glm_packHalf4x16', 'uint64_t', [('float', 'x'), ('float', 'y'), ('float', 'z'), ('float', 'w')],
       'return glm::packHalf4x16(glm::vec4(x, y, z, w));')
d.shim('glm_unpackHalf4x16', 'void', [('uint64_t', 'p')],
       'glm::vec4 r = glm::unpackHalf4x16(p); out[0] = r.x; out[1] = r.y; out[2] = r.z; out[3] = r.w;', outs=[('float', 'out', 4)])
for L in (1, 2, 3, 4):
    comps = 'xyzw'[:L]
    d.shim('glm_packHalf_v%d' % L, 'void', [('float', c) for c in comps],
           'glm::vec<%d, glm::uint16> r = glm::packHalf(glm::vec<%d, float>(%s)); %s' % (
               L, L, ', '.join(comps), ' '.join('out[%d] = r.%s;' % (i, c) for i, c in enumerate(comps))),
           outs=[('uint16_t', 'out', L)])
    d.shim('glm_unpackHalf_v%d' % L, 'void', [('uint16_t', c) for c in comps],
           'glm::vec<%d, float> r = glm::unpackHalf(glm::vec<%d, glm::uint16>(%s)); %s' % (
               L, L, ', '.join(comps), ' '.join('out[%d] = r.%s;' % (i, c) for i, c in enumerate(comps))),
           outs=[('float', 'out', L)])
flat = P.build(d, 'flat')

H = 'glm/detail/type_half.inl'
BITS = 'll2c_f32_bits'
P.contract('glm_toFloat32', 'glm::detail::toFloat32(hdata)  ' + H, unwind=12,
           ensures=[
               ('exact_value', 'spec_half_isnan(h) || %s(RESULT) == %s(spec_half_value(h))' % (BITS, BITS)),
               ('nan_to_nan_sign_kept', '!spec_half_isnan(h) || (spec_isnan32(RESULT) && spec_sign32(RESULT) == (h >> 15))'),
           ])
P.contract('glm_toFloat16', 'glm::detail::toFloat16(float const&)  ' + H, unwind=12,
           ensures=[
               ('nearest_either_neighbour_on_tie',
                '!(spec_isfinite32(x) && spec_fabs32(x) < 65520.0f) || spec_half_nearest(x, RESULT)'),
               ('sign_kept', '(RESULT >> 15) == spec_sign32(x)'),
               ('overflow_to_same_signed_inf',
                'spec_isnan32(x) || !(spec_fabs32(x) >= 65520.0f) || RESULT == (u16)((spec_sign32(x) << 15) | 0x7c00)'),
               ('underflow_to_same_signed_zero',
                'spec_isnan32(x) || !(spec_fabs32(x) < 0x1p-25f) || RESULT == (u16)(spec_sign32(x) << 15)'),
               ('nan_stays_nan', '!spec_isnan32(x) || spec_half_isnan(RESULT)'),
               ('finite_never_nan', 'spec_isnan32(x) || !spec_half_isnan(RESULT)'),
           ])
P.contract('glm_half_roundtrip', 'toFloat16(toFloat32(h))  ' + H, unwind=12,
           ensures=[('roundtrip_identity', 'spec_half_isnan(h) || RESULT == h')])
P.contract('glm_toFloat16_pair', 'glm::detail::toFloat16 on two inputs  ' + H, unwind=12,
           ensures=[
               ('monotone', '!(x <= y) || spec_half_ord((u16)RESULT) <= spec_half_ord((u16)(RESULT >> 16))'),
               ('sign_symmetric', '!(%s(y) == (%s(x) ^ 0x80000000u)) || spec_isnan32(x) || (u16)(RESULT >> 16) == (u16)((u16)RESULT ^ 0x8000)' % (BITS, BITS)),
           ])
# callers: relational against the extracted conversion functions (layout: first component least significant)
PK = 'glm/gtc/packing.inl'
P.contract('glm_packHalf1x16', 'glm::packHalf1x16  ' + PK, unwind=12, uses=['glm_toFloat16'],
           ensures=[('is_toFloat16', 'RESULT == glm_toFloat16(x)')])
P.contract('glm_unpackHalf1x16', 'glm::unpackHalf1x16  ' + PK, unwind=12, uses=['glm_toFloat32'],
           ensures=[('is_toFloat32', '%s(RESULT) == %s(glm_toFloat32(h))' % (BITS, BITS))])
P.contract('glm_packHalf2x16', 'glm::packHalf2x16  glm/detail/func_packing.inl', unwind=12, uses=['glm_toFloat16'],
           ensures=[('layout_x_low', 'RESULT == ((u32)glm_toFloat16(x) | ((u32)glm_toFloat16(y) << 16))')])
P.contract('glm_unpackHalf2x16', 'glm::unpackHalf2x16  glm/detail/func_packing.inl', unwind=12, uses=['glm_toFloat32'],
           ensures=[('x_from_low', '%s(out[0]) == %s(glm_toFloat32((u16)p))' % (BITS, BITS)),
                    ('y_from_high', '%s(out[1]) == %s(glm_toFloat32((u16)(p >> 16)))' % (BITS, BITS))])
P.contract('glm_packHalf4x16', 'glm::packHalf4x16  ' + PK, unwind=12, uses=['glm_toFloat16'],
           ensures=[('layout', 'RESULT == ((u64)glm_toFloat16(x) | ((u64)glm_toFloat16(y) << 16) | ((u64)glm_toFloat16(z) << 32) | ((u64)glm_toFloat16(w) << 48))')])
P.contract('glm_unpackHalf4x16', 'glm::unpackHalf4x16  ' + PK, unwind=12, uses=['glm_toFloat32'],
           ensures=[('comp%d' % i, '%s(out[%d]) == %s(glm_toFloat32((u16)(p >> %d)))' % (BITS, i, BITS, 16 * i)) for i in range(4)])
for L in (1, 2, 3, 4):
    comps = 'xyzw'[:L]
    P.contract('glm_packHalf_v%d' % L, 'glm::packHalf<%d>  ' % L + PK, unwind=12, uses=['glm_toFloat16'],
               ensures=[('comp%d' % i, 'out[%d] == glm_toFloat16(%s)' % (i, c)) for i, c in enumerate(comps)])
    P.contract('glm_unpackHalf_v%d' % L, 'glm::unpackHalf<%d>  ' % L + PK, unwind=12, uses=['glm_toFloat32'],
               ensures=[('comp%d' % i, '%s(out[%d]) == %s(glm_toFloat32(%s))' % (BITS, i, BITS, c)) for i, c in enumerate(comps)])

# ---------------------------------------------------------------------------------------------------------------------------
# MODULAR route (-O1 -fno-inline: every GLM function survives as its own IR function): the conversion kernels carry their own
# contracts, and the pack/unpack callers are verified against those CONTRACTS (goto-instrument --replace-call-with-contract),
# not against the kernels' bodies.  Every contract assumed at a call site is also enforced in the same run.
mod = P.build(d, 'modular', tag='c07_modular')
F16 = '_ZN3glm6detail9toFloat16ERKf'
F32 = '_ZN3glm6detail9toFloat32Es'
# kernels: enforced with the concrete predicates; what callers may assume is the ABSTRACT spelling (specs/spec_half.h)
P.contract(F16, 'glm::detail::toFloat16(float const&)  ' + H + '  [modular, kernel]', build=mod, unwind=12,
           sig={'ret': 'u16', 'ins': [], 'ptr_ins': [('float', 'f', 1)], 'outs': [], 'ir': F16},
           requires=[], assigns=[], ensures=[('half_ok', 'spec_half_ok(f[0], RESULT)')],
           assumed_ensures=[('half_ok_abstract', 'SPEC_HALF_OK_ABS(f[0], RESULT)')])
P.contract(F32, 'glm::detail::toFloat32(hdata)  ' + H + '  [modular, kernel]', build=mod, unwind=12,
           sig={'ret': 'float', 'ins': [('u16', 'h')], 'outs': [], 'ir': F32}, assigns=[],
           ensures=[('exact_value_or_nan', 'spec_half_exact(h, RESULT)')],
           assumed_ensures=[('exact_abstract', 'SPEC_HALF_EXACT_ABS(h, RESULT)')])
# callers against the kernel CONTRACTS (parametric in the predicate)
P.contract('glm_packHalf1x16', 'glm::packHalf1x16  ' + PK + '  [modular: toFloat16 replaced by its contract]', build=mod, unwind=12,
           replace=[F16], ensures=[('half_ok', 'SPEC_HALF_OK_ABS(x, RESULT)')])
P.contract('glm_packHalf2x16', 'glm::packHalf2x16  glm/detail/func_packing.inl  [modular: toFloat16 replaced by its contract]', build=mod, unwind=12,
           replace=[F16], ensures=[('x_in_low_half', 'SPEC_HALF_OK_ABS(x, (u16)RESULT)'), ('y_in_high_half', 'SPEC_HALF_OK_ABS(y, (u16)(RESULT >> 16))')])
P.contract('glm_packHalf4x16', 'glm::packHalf4x16  ' + PK + '  [modular: toFloat16 replaced by its contract]', build=mod, unwind=12,
           replace=[F16], ensures=[('comp%d' % i, 'SPEC_HALF_OK_ABS(%s, (u16)(RESULT >> %d))' % (c_, 16 * i)) for i, c_ in enumerate('xyzw')])
P.contract('glm_unpackHalf1x16', 'glm::unpackHalf1x16  ' + PK + '  [modular: toFloat32 replaced by its contract]', build=mod, unwind=12,
           replace=[F32], ensures=[('exact_value', 'SPEC_HALF_EXACT_ABS(h, RESULT)')])
P.contract('glm_unpackHalf2x16', 'glm::unpackHalf2x16  glm/detail/func_packing.inl  [modular: toFloat32 replaced by its contract]', build=mod, unwind=12,
           replace=[F32], ensures=[('x_from_low', 'SPEC_HALF_EXACT_ABS((u16)p, out[0])'), ('y_from_high', 'SPEC_HALF_EXACT_ABS((u16)(p >> 16), out[1])')])
for L_ in (1, 2, 3, 4):
    cs = 'xyzw'[:L_]
    P.contract('glm_packHalf_v%d' % L_, 'glm::packHalf<%d>  ' % L_ + PK + '  [modular: toFloat16 replaced by its contract]', build=mod, unwind=12,
               replace=[F16], ensures=[('comp%d' % i, 'SPEC_HALF_OK_ABS(%s, out[%d])' % (c_, i)) for i, c_ in enumerate(cs)])
    P.contract('glm_unpackHalf_v%d' % L_, 'glm::unpackHalf<%d>  ' % L_ + PK + '  [modular: toFloat32 replaced by its contract]', build=mod, unwind=12,
               replace=[F32], ensures=[('comp%d' % i, 'SPEC_HALF_EXACT_ABS(%s, out[%d])' % (c_, i)) for i, c_ in enumerate(cs)])

P.level_text = ('every obligation is a contract clause on the code clang extracts from /repo, discharged by CBMC bit-precisely '
                'for all 2^16 half and all 2^32 float patterns (symbolic argument = complete enumeration); loops closed by '
                'width-bounded unwinding with unwinding assertions')
P.level_note = 'trusted: clang-14 lowering, ll2c translation (T-checked), CBMC float model, spec_half.h written from IEEE-754'
P.technique = 'CBMC code contracts (DFCC enforce) on mechanically extracted C; SAT, complete over the input space'
P.design_ref = 'DESIGN.md section 6 C07'
P.assumptions = ['volatile in detail::overflow() treated as ordinary memory',
                 'NaN payload produced by float arithmetic not modelled (conversion code is integer-only, so not relevant here)']
P.not_covered = ['hvec/hmat storage typedefs (type aliases of the same conversion functions)']
