"""C14 - ULP stepping (nextFloat/prevFloat/floatDistance) and ULP / epsilon comparisons.

Layout of the obligations (every clause is taken from proposed/C14_property.json or the doc comments):
  * scalar overloads carry the property clauses themselves, written with spec_ord32/spec_ord64
    (specs/spec_ulp.h: the order-preserving map of IEEE bits to integers, +0 and -0 both 0);
  * vector / matrix / quaternion overloads of nextFloat/prevFloat, of floatDistance and of the epsilon
    comparisons carry the statement's "per component" as a relational clause against the scalar overload of
    the same function (uses=[...]); they inherit the property - and any finding - of the scalar overload;
  * n-step overloads: "equals n single steps" as ord(result) = ord(x) +- n on the scalar overload: n <= 16 per change,
    n <= 64 (float) / n <= 32 (double) in the thorough tier; vector overloads: same as scalar per component for n <= 8;
  * the ULP comparison equal/notEqual(x, y, ULPs) is separate code in the scalar and in the vector overload, so
    the vector overloads carry the property clauses per component *and* one relational cross-check per function
    ("identically for the scalar, vector and matrix overloads"); matrix overloads: property clause per column.
The ULP-comparison clause is split by case (same sign / both zero / values straddling zero, the latter in its two
directions); the conjunction of the cases is the statement's clause, nothing is dropped.
"""
from engine import Prop
from shimgen import *

P = Prop('C14', 'ULP stepping and epsilon/ULP comparisons are exact on every float and double')
d = P.driver('c14', ['<glm/glm.hpp>', '<glm/ext/scalar_ulp.hpp>', '<glm/ext/vector_ulp.hpp>', '<glm/gtc/ulp.hpp>',
                     '<glm/ext/scalar_relational.hpp>', '<glm/ext/vector_relational.hpp>',
                     '<glm/ext/matrix_relational.hpp>', '<glm/ext/quaternion_float.hpp>', '<glm/ext/quaternion_double.hpp>',
                     '<glm/ext/quaternion_relational.hpp>', '<glm/gtc/epsilon.hpp>'])
contracts = []
# bound of the scalar n-step obligations in the thorough tier (reported as bounded, never as proved): a chain of 64 dependent
# float increments is ~10 min of SAT time per obligation for float (cadical, idle machine); for double 64 did not finish within
# an hour on the shared machine, so the double obligations are closed for n <= 32
NMAX_T = {'f32': 64, 'f64': 32}
NMAX_Q = 16        # the same obligations with bound 16 (seconds) for the per-change tier
NMAX_V = 8         # bound of the vector n-step obligations (relational: two copies of every loop per component)
UNW_NV = NMAX_V + 2
UNW = 8            # for(i < L), L <= 4, where clang did not unroll it


def C(fn, real, tier='quick', **kw):
    kw.setdefault('unwind', UNW)
    kw.setdefault('backends', ('sat',))   # floats: SAT only
    kw.setdefault('timeout', 3600 if tier == 'thorough' else 900)   # generous: the machine this runs on is heavily shared
    contracts.append((fn, real, tier, kw))


TY = {
    'f32': dict(cpp='float', ord='(s64)spec_ord32(%s)', fin='spec_isfinite32(%s)', nan='spec_isnan32(%s)', fabs='spec_fabs32(%s)',
                sign='spec_sign32(%s)', within='spec_within_ulps32(%s, %s, (s32)%s)', dist='spec_ulpdist32(%s, %s)',
                bits='ll2c_f32_bits(%s)', inf='(s64)SPEC_ORD32_INF', dret='int32_t',
                dres='(s64)(s32)%s', dmax='(s64)0x7fffffff', signbit='0x80000000u'),
    'f64': dict(cpp='double', ord='spec_ord64(%s)', fin='spec_isfinite64(%s)', nan='spec_isnan64(%s)', fabs='spec_fabs64(%s)',
                sign='spec_sign64(%s)', within='spec_within_ulps64(%s, %s, (s32)%s)', dist='spec_ulpdist64(%s, %s)',
                bits='ll2c_f64_bits(%s)', inf='(s64)SPEC_ORD64_INF', dret='int64_t',
                dres='(u64)%s', dmax='(u64)0x7fffffffffffffffull', signbit='0x8000000000000000ull'),
}
LS = (1, 2, 3, 4)
MATS = ((2, 2), (3, 2), (4, 4))   # (columns, rows)


def tier_of(t, L=0, cost='int', variant=False):
    """per-change ('quick') tier.  cost: 'int' = obligations without float arithmetic of their own (integer-only, or relational
    with the float subtraction abstracted): seconds; 'loop' = unwound n-step loops.  variant = overload that only forwards to
    another one (vector-of-ULPs / vector-of-epsilon / gtc alias)."""
    if cost == 'int':
        ok = (t == 'f32' or L in (0, 4)) and not (variant and t == 'f64')
    else:
        ok = L == 0 or (t == 'f32' and not variant and L in (2, 4))
    return 'quick' if ok else 'thorough'


def names(L, p):
    return ['%s%d' % (p, i) for i in range(L)]


def same_bits(t, a, b, guard_x):
    """bitwise identical results; for NaN arguments only 'both results NaN' (no claim about NaN payloads)"""
    T = TY[t]
    return '(%s) ? (%s != %s && %s != %s) : (%s == %s)' % (guard_x, a, a, b, b, T['bits'] % a, T['bits'] % b)


# ======================================================================================================
# 1. nextFloat / prevFloat / floatDistance      glm/ext/scalar_ulp.inl, glm/ext/vector_ulp.inl, glm/gtc/ulp.inl
# ======================================================================================================
def step_clause(t, x, r, sgn):
    """statement: nextFloat(x) is the smallest representable value greater than finite x  <=>  ord(r) = ord(x) + 1"""
    T = TY[t]
    return '!%s || %s == %s %s 1' % (T['fin'] % x, T['ord'] % r, T['ord'] % x, sgn)


def nstep_clause(t, x, n, r, sgn, ncast='(s64)(s8)'):
    """statement: the n-step overload equals n single steps; single steps are specified on finite arguments, so the
    clause speaks of those (x, n) for which the first n-1 steps stay finite: ord(x) +- n within [-ord(inf), ord(inf)]"""
    T = TY[t]
    o, N = T['ord'] % x, '%s%s' % (ncast, n)
    inrange = ('%s + %s <= %s' % (o, N, T['inf'])) if sgn == '+' else ('%s - %s >= -%s' % (o, N, T['inf']))
    return '!%s || !(%s) || %s == %s %s %s' % (T['fin'] % x, inrange, T['ord'] % r, o, sgn, N)


# The step count is passed to the shims as int8_t (widened to int at the call of the GLM function): the translator
# validation runs every shim natively on random arguments, and a random 32-bit step count would loop for 2^31 steps.
# The contracts speak of 0 <= n <= 64 at most, so nothing claimed is lost.
NT = 'int8_t'


def loop_inv(t, sgn, x='x'):
    """loop contract of `for (i = 0; i < n; ++i) temp = next_or_prev(temp)` as clang leaves it (rotated: entered only if n > 0, one phi for i, one for temp)"""
    w = '32' if t == 'f32' else '64'
    lim = ('SPEC_MIN64(SPEC_ORD%s_LV(%s) + (s64)PHI_I(0), %s)' if sgn == '+' else 'SPEC_MAX64(SPEC_ORD%s_LV(%s) - (s64)PHI_I(0), -%s)') % (w, x, 'SPEC_ORD%s_INF_LV' % w)
    return ('__CPROVER_loop_invariant(PHI_I(0) < n && (SPEC_ISNAN%s_LV(%s) || SPEC_ORD%s_LV(PHI_F(0)) == %s)) '
            '__CPROVER_decreases(n - PHI_I(0))' % (w, x, w, lim))


def n_req(ns, nmax):
    return [('steps_0_to_%d' % nmax, ' && '.join('(s8)%s >= 0 && (s8)%s <= %d' % (n, n, nmax) for n in ns))]


def n_ins(L, name='n'):
    return [(NT, '%s%d' % (name, i)) for i in range(L)]


BND_V = 'n <= %d' % NMAX_V
for alias, (fnext, fprev, fdist, F1, FV) in (
        (False, ('nextFloat', 'prevFloat', 'floatDistance', 'glm/ext/scalar_ulp.inl', 'glm/ext/vector_ulp.inl')),
        (True, ('next_float', 'prev_float', 'float_distance', 'glm/gtc/ulp.inl', 'glm/gtc/ulp.inl'))):
    for t, T in TY.items():
        cpp = T['cpp']
        for fname, sgn, cname in ((fnext, '+', 'smallest_representable_value_greater_than_x'),
                                  (fprev, '-', 'largest_representable_value_smaller_than_x')):
            s1 = 'glm_%s_%s_s' % (fname, t)
            sn = 'glm_%s_n_%s_s' % (fname, t)
            d.shim(s1, cpp, [(cpp, 'x')], 'return glm::%s(x);' % fname)
            C(s1, 'glm::%s(%s)  %s' % (fname, cpp, F1), ensures=[(cname, step_clause(t, 'x', 'RESULT', sgn))])
            d.shim(sn, cpp, [(cpp, 'x'), (NT, 'n')], 'return glm::%s(x, n);' % fname)
            C(sn, 'glm::%s(%s, int)  %s' % (fname, cpp, F1), unwind=NMAX_Q + 2, bounded='n <= %d' % NMAX_Q, requires=n_req(['n'], NMAX_Q),
              ensures=[('equals_n_single_steps', nstep_clause(t, 'x', 'n', 'RESULT', sgn))])
            d.shim(sn + '_deep', cpp, [(cpp, 'x'), (NT, 'n')], 'return glm::%s(x, n);' % fname)
            C(sn + '_deep', 'glm::%s(%s, int)  %s' % (fname, cpp, F1), 'thorough', unwind=NMAX_T[t] + 2, bounded='n <= %d' % NMAX_T[t],
              requires=n_req(['n'], NMAX_T[t]), timeout=3600, ensures=[('equals_n_single_steps', nstep_clause(t, 'x', 'n', 'RESULT', sgn))])
            # the same statement for EVERY step count n >= 0 (the real `int` parameter, no bound): the loop `for (i < n) t = next(t)` is closed by
            # an inductive loop contract (goto-instrument --apply-loop-contracts), not by unwinding.  Invariant, in terms of the order map:
            # after i steps the running value sits i places above (below) x, saturating at +inf (-inf); variant n - i.  The n-bounded
            # twins above stay: they provide replayable counterexamples, which a failed inductive step cannot.
            sN = 'glm_%s_N_%s_s' % (fname, t)
            d.shim(sN, cpp, [(cpp, 'x'), ('int32_t', 'n')], 'return glm::%s(x, n);' % fname, tmask={'n': 0x3f})
            C(sN, 'glm::%s(%s, int)  %s' % (fname, cpp, F1), requires=[('steps_nonnegative', '(s32)n >= 0')], loops=[loop_inv(t, sgn)],
              ensures=[('equals_n_single_steps_for_every_n', nstep_clause(t, 'x', 'n', 'RESULT', sgn, '(s64)(s32)'))])
            for L in LS:
                xs, ns = names(L, 'x'), names(L, 'n')
                V = vec_t(L, t)
                v1 = 'glm_%s_%s_v%d' % (fname, t, L)
                d.shim(v1, 'void', vec_ins(L, t, 'x'), '%s r = glm::%s(%s); %s' % (V, fname, vec_make(L, t, 'x'), vec_store(L, 'r')),
                       outs=[(cpp, 'out', L)])
                C(v1, 'glm::%s(vec<%d,%s>)  %s' % (fname, L, cpp, FV), tier_of(t, L, 'int', alias), uses=[s1],
                  ensures=[('comp%d_same_as_scalar' % i, same_bits(t, 'out[%d]' % i, '%s(%s)' % (s1, xs[i]), T['nan'] % xs[i])) for i in range(L)])
                vn = 'glm_%s_n_%s_v%d' % (fname, t, L)
                d.shim(vn, 'void', vec_ins(L, t, 'x') + [(NT, 'n')],
                       '%s r = glm::%s(%s, n); %s' % (V, fname, vec_make(L, t, 'x'), vec_store(L, 'r')), outs=[(cpp, 'out', L)])
                C(vn, 'glm::%s(vec<%d,%s>, int)  %s' % (fname, L, cpp, FV), tier_of(t, L, 'loop', alias), uses=[sn], unwind=UNW_NV, bounded=BND_V, requires=n_req(['n'], NMAX_V),
                  ensures=[('comp%d_same_as_scalar' % i, same_bits(t, 'out[%d]' % i, '%s(%s, n)' % (sn, xs[i]), T['nan'] % xs[i])) for i in range(L)])
                # every n >= 0 for the vector overload too: one inductive loop contract per component loop (the flat extraction keeps the
                # per-component loops in component order), each component stated directly against the order map
                vN = 'glm_%s_N_%s_v%d' % (fname, t, L)
                if L < 4:   # vec4: four consecutive loop contracts in one SAT instance did not finish in 900 s (its n-bounded twin stays)
                  d.shim(vN, 'void', vec_ins(L, t, 'x') + [('int32_t', 'n')],
                         '%s r = glm::%s(%s, n); %s' % (V, fname, vec_make(L, t, 'x'), vec_store(L, 'r')), outs=[(cpp, 'out', L)], tmask={'n': 0x3f})
                  C(vN, 'glm::%s(vec<%d,%s>, int)  %s' % (fname, L, cpp, FV), 'quick' if (t == 'f32' and not alias and L == 2) else 'thorough', requires=[('steps_nonnegative', '(s32)n >= 0')],
                    loops=[loop_inv(t, sgn, xs[i]) for i in range(L)], timeout=600,
                    ensures=[('comp%d_equals_n_single_steps_for_every_n' % i, nstep_clause(t, xs[i], 'n', 'out[%d]' % i, sgn, '(s64)(s32)')) for i in range(L)])
                vv = 'glm_%s_vn_%s_v%d' % (fname, t, L)
                d.shim(vv, 'void', vec_ins(L, t, 'x') + n_ins(L),
                       '%s r = glm::%s(%s, %s); %s' % (V, fname, vec_make(L, t, 'x'), vec_make(L, 'i32', 'n'), vec_store(L, 'r')), outs=[(cpp, 'out', L)])
                C(vv, 'glm::%s(vec<%d,%s>, vec<%d,int>)  %s' % (fname, L, cpp, L, FV), tier_of(t, L, 'loop', True), uses=[sn], unwind=UNW_NV, bounded=BND_V, requires=n_req(ns, NMAX_V),
                  ensures=[('comp%d_same_as_scalar' % i, same_bits(t, 'out[%d]' % i, '%s(%s, %s)' % (sn, xs[i], ns[i]), T['nan'] % xs[i])) for i in range(L)])
        # ---------------- floatDistance
        sd = 'glm_%s_%s_s' % (fdist, t)
        dret = T['dret']
        d.shim(sd, dret, [(cpp, 'x'), (cpp, 'y')], 'return glm::%s(x, y);' % fdist)
        nn = '%s || %s' % (T['nan'] % 'x', T['nan'] % 'y')
        fits = '%s <= %s' % (T['dist'] % ('x', 'y'), T['dmax'])
        val = '%s == %s' % (T['dres'] % 'RESULT', T['dist'] % ('x', 'y'))
        # doc: "Return the distance in the number of ULP between 2 ... floating-point scalars"; claimed wherever the
        # count fits the return type
        C(sd, 'glm::%s(%s, %s)  %s' % (fdist, cpp, cpp, F1), ensures=[
            ('ulp_count_same_sign', '%s || %s != %s || %s' % (nn, T['sign'] % 'x', T['sign'] % 'y', val)),
            ('ulp_count_across_zero', '%s || %s == %s || !(%s) || %s' % (nn, T['sign'] % 'x', T['sign'] % 'y', fits, val)),
        ])
        sc = 'glm_%s_of_%s_%s_s' % (fdist, fnext, t)
        o, N = T['ord'] % 'x', '(s64)(s8)n'
        for nm, nmax, tr, to in ((sc, NMAX_Q, 'quick', 900), (sc + '_deep', NMAX_T[t], 'thorough', 3600)):
            d.shim(nm, dret, [(cpp, 'x'), (NT, 'n')], 'return glm::%s(x, glm::%s(x, n));' % (fdist, fnext))
            C(nm, 'glm::%s(x, glm::%s(x, n))  %s' % (fdist, fnext, F1), tr, unwind=nmax + 2, bounded='n <= %d' % nmax, requires=n_req(['n'], nmax), timeout=to,
              ensures=[('distance_to_nth_successor_is_n', '!%s || !(%s + %s <= %s) || %s == %s' % (
                  T['fin'] % 'x', o, N, T['inf'], T['dres'] % 'RESULT', '(s64)(s8)n' if t == 'f32' else '(u64)(s64)(s8)n'))])
        # ... and for every n >= 0 (inductive loop contract on the inlined nextFloat loop, see loop_inv)
        d.shim(sc + '_N', dret, [(cpp, 'x'), ('int32_t', 'n')], 'return glm::%s(x, glm::%s(x, n));' % (fdist, fnext), tmask={'n': 0x3f})
        C(sc + '_N', 'glm::%s(x, glm::%s(x, n))  %s' % (fdist, fnext, F1), requires=[('steps_nonnegative', '(s32)n >= 0')], loops=[loop_inv(t, '+')],
          ensures=[('distance_to_nth_successor_is_n_for_every_n', '!%s || !(%s + (s64)(s32)n <= %s) || %s == %s' % (
              T['fin'] % 'x', o, T['inf'], T['dres'] % 'RESULT', '(s64)(s32)n' if t == 'f32' else '(u64)(s64)(s32)n'))])
        for L in LS:
            xs, ys = names(L, 'x'), names(L, 'y')
            vd = 'glm_%s_%s_v%d' % (fdist, t, L)
            d.shim(vd, 'void', vec_ins(L, t, 'x') + vec_ins(L, t, 'y'),
                   'auto r = glm::%s(%s, %s); %s' % (fdist, vec_make(L, t, 'x'), vec_make(L, t, 'y'), vec_store(L, 'r')), outs=[(dret, 'out', L)])
            # claimed where the scalar call has a defined value to compare with: the count fits the return type, and not
            # y = -x bitwise (this includes the pair +0, -0), where GLM evaluates abs(INT_MIN) - a signed overflow, poison in
            # the IR; that undefined behaviour itself is a C20 obligation
            C(vd, 'glm::%s(vec<%d,%s>, vec<%d,%s>)  %s' % (fdist, L, cpp, L, cpp, FV), tier_of(t, L, 'int', alias), uses=[sd],
              ensures=[('comp%d_same_as_scalar_where_defined' % i, '!(%s <= %s) || (%s ^ %s) == %s || out[%d] == %s(%s, %s)' % (
                  T['dist'] % (xs[i], ys[i]), T['dmax'], T['bits'] % xs[i], T['bits'] % ys[i], T['signbit'], i, sd, xs[i], ys[i])) for i in range(L)])

# ======================================================================================================
# 2. equal / notEqual (x, y, ULPs)     glm/ext/scalar_relational.inl, vector_relational.inl, matrix_relational.inl
# ======================================================================================================
SR, VR, MR, QR = ('glm/ext/scalar_relational.inl', 'glm/ext/vector_relational.inl', 'glm/ext/matrix_relational.inl',
                  'glm/ext/quaternion_relational.inl')


def ulp_clauses(t, x, y, k, res, eq, tag=''):
    """statement: equal(x, y, maxULPs) is true exactly when x and y are at most maxULPs representable values apart, with
    +0 and -0 equal.  NaN arguments are not documented: the clauses speak of non-NaN x, y only."""
    T = TY[t]
    nn = '%s || %s' % (T['nan'] % x, T['nan'] % y)
    want = ('%s' if eq else '!%s') % (T['within'] % (x, y, k))
    zeros = '(%s == 0 && %s == 0)' % (x, y)
    sx, sy = T['sign'] % x, T['sign'] % y
    opp = '%s || %s == %s || %s' % (nn, sx, sy, zeros)   # guard of the "values straddling zero" case
    says_equal = ('(%s != 0)' if eq else '(%s == 0)') % res
    return [
        (tag + 'same_sign_within_maxULPs', '%s || %s != %s || (%s != 0) == %s' % (nn, sx, sy, res, want)),
        (tag + 'plus_zero_equals_minus_zero', '!%s || %s' % (zeros, says_equal)),
        # the two directions of "exactly when" for values of opposite sign, as separate obligations
        (tag + 'across_zero_equal_only_if_within_maxULPs', '%s || !%s || %s' % (opp, says_equal, T['within'] % (x, y, k))),
        (tag + 'across_zero_equal_if_within_maxULPs', '%s || !%s || %s' % (opp, T['within'] % (x, y, k), says_equal)),
    ]


def k_req(ks):
    return [('maxULPs_is_a_count', ' && '.join('(s32)%s >= 0' % k for k in ks))]


for t, T in TY.items():
    cpp = T['cpp']
    for fname, eq in (('equal', True), ('notEqual', False)):
        s = 'glm_%s_ulps_%s_s' % (fname, t)
        d.shim(s, 'bool', [(cpp, 'x'), (cpp, 'y'), ('int32_t', 'k')], 'return glm::%s(x, y, k);' % fname)
        C(s, 'glm::%s(%s, %s, int ULPs)  %s' % (fname, cpp, cpp, SR), requires=k_req(['k']), ensures=ulp_clauses(t, 'x', 'y', 'k', 'RESULT', eq))
        for L in LS:
            xs, ys, ks = names(L, 'x'), names(L, 'y'), names(L, 'k')
            for vk in (False, True):
                v = 'glm_%s_%s_%s_v%d' % (fname, 'vulps' if vk else 'ulps', t, L)
                kins = vec_ins(L, 'i32', 'k') if vk else [('int32_t', 'k')]
                karg = vec_make(L, 'i32', 'k') if vk else 'k'
                kk = ks if vk else ['k'] * L
                d.shim(v, 'void', vec_ins(L, t, 'x') + vec_ins(L, t, 'y') + kins,
                       'auto r = glm::%s(%s, %s, %s); %s' % (fname, vec_make(L, t, 'x'), vec_make(L, t, 'y'), karg, vec_store(L, 'r')),
                       outs=[('bool', 'out', L)])
                ens = []
                for i in range(L):
                    ens += ulp_clauses(t, xs[i], ys[i], kk[i], 'out[%d]' % i, eq, 'comp%d_' % i)
                # "identically for the scalar, vector and matrix overloads": a cross-check, one obligation per function (it adds
                # nothing to the per-component clauses above when the scalar overload satisfies its own clauses)
                ens.append(('all_components_same_as_scalar', ' && '.join('(%s || %s || (out[%d] != 0) == (%s(%s, %s, %s) != 0))' % (
                    T['nan'] % xs[i], T['nan'] % ys[i], i, s, xs[i], ys[i], kk[i]) for i in range(L))))
                C(v, 'glm::%s(vec<%d,%s>, vec<%d,%s>, %s ULPs)  %s' % (fname, L, cpp, L, cpp, 'vec<%d,int>' % L if vk else 'int', VR),
                  tier_of(t, L, 'int', vk), uses=[s], requires=k_req(ks if vk else ['k']), ensures=ens)
        for (Cn, Rn) in MATS:
            for vk in (False, True):
                m = 'glm_%s_%s_%s_m%d%d' % (fname, 'vulps' if vk else 'ulps', t, Cn, Rn)
                kins = vec_ins(Cn, 'i32', 'k') if vk else [('int32_t', 'k')]
                karg = vec_make(Cn, 'i32', 'k') if vk else 'k'
                d.shim(m, 'void', mat_ins(Cn, Rn, t, 'a') + mat_ins(Cn, Rn, t, 'b') + kins,
                       'auto r = glm::%s(%s, %s, %s); %s' % (fname, mat_make(Cn, Rn, t, 'a'), mat_make(Cn, Rn, t, 'b'), karg, vec_store(Cn, 'r')),
                       outs=[('bool', 'out', Cn)])
                ens = []
                for c in range(Cn):
                    k = ('k%d' % c) if vk else 'k'
                    A, B = ['a%d%d' % (c, r) for r in range(Rn)], ['b%d%d' % (c, r) for r in range(Rn)]
                    nn = ' || '.join(T['nan'] % z for z in A + B)
                    if eq:   # doc: "True if this expression is satisfied per column of the matrices"
                        want = ' && '.join(T['within'] % (A[r], B[r], k) for r in range(Rn))
                    else:
                        want = ' || '.join('!' + T['within'] % (A[r], B[r], k) for r in range(Rn))
                    ens.append(('column%d_%s_within_maxULPs' % (c, 'all' if eq else 'not_all'), '%s || (out[%d] != 0) == (%s)' % (nn, c, want)))
                C(m, 'glm::%s(mat<%d,%d,%s>, mat<%d,%d,%s>, %s ULPs)  %s' % (fname, Cn, Rn, cpp, Cn, Rn, cpp, 'vec<%d,int>' % Cn if vk else 'int', MR),
                  tier_of(t, 4 if (Cn, Rn) == (2, 2) else 2, 'int', vk), requires=k_req(['k%d' % c for c in range(Cn)] if vk else ['k']), ensures=ens)

# ======================================================================================================
# 3. equal / notEqual (x, y, epsilon), epsilonEqual / epsilonNotEqual        ... + glm/gtc/epsilon.inl
# ======================================================================================================
EP = 'glm/gtc/epsilon.inl'
# The vector / matrix / quaternion obligations of this section say "same as the scalar overload, per component": both sides are
# extracted code containing the same float subtraction, so it is abstracted as an uninterpreted function (sound for such
# equalities; a failure under the abstraction is never reported, the engine re-runs the job with exact arithmetic).
UF_REL = ('fsub',)
for t, T in TY.items():
    cpp = T['cpp']
    for fname, eq, F_S, F_V in (('equal', True, SR, VR), ('notEqual', False, SR, VR), ('epsilonEqual', True, EP, EP), ('epsilonNotEqual', False, EP, EP)):
        eps_family = fname.startswith('epsilon')
        tag = fname if eps_family else fname + '_eps'
        s = 'glm_%s_%s_s' % (tag, t)
        d.shim(s, 'bool', [(cpp, 'x'), (cpp, 'y'), (cpp, 'e')], 'return glm::%s(x, y, e);' % fname)
        # statement: "true exactly when |x - y| <= epsilon (respectively >)", evaluated in the precision of the arguments
        C(s, 'glm::%s(%s, %s, %s epsilon)  %s' % (fname, cpp, cpp, cpp, F_S),
          ensures=[('true_exactly_when_abs_diff_%s_epsilon' % ('le' if eq else 'gt'), '(RESULT != 0) == (%s %s e)' % (T['fabs'] % '(x - y)', '<=' if eq else '>'))])
        for L in LS:
            xs, ys, es = names(L, 'x'), names(L, 'y'), names(L, 'e')
            for ve in (False, True):
                v = 'glm_%s%s_%s_v%d' % (tag, '_v' if ve else '', t, L)
                eins = vec_ins(L, t, 'e') if ve else [(cpp, 'e')]
                earg = vec_make(L, t, 'e') if ve else 'e'
                ee = es if ve else ['e'] * L
                d.shim(v, 'void', vec_ins(L, t, 'x') + vec_ins(L, t, 'y') + eins,
                       'auto r = glm::%s(%s, %s, %s); %s' % (fname, vec_make(L, t, 'x'), vec_make(L, t, 'y'), earg, vec_store(L, 'r')),
                       outs=[('bool', 'out', L)])
                C(v, 'glm::%s(vec<%d,%s>, vec<%d,%s>, %s epsilon)  %s' % (fname, L, cpp, L, cpp, 'vec<%d,%s>' % (L, cpp) if ve else cpp, F_V),
                  'quick', uses=[s], uf_float=UF_REL,
                  ensures=[('comp%d_same_as_scalar' % i, '(out[%d] != 0) == (%s(%s, %s, %s) != 0)' % (i, s, xs[i], ys[i], ee[i])) for i in range(L)])
        # quaternion overloads: x y z w <-> result components 0..3
        q = 'glm_%s_%s_q' % (tag, t)
        Q = 'glm::qua<%s, glm::defaultp>' % cpp
        ins = [(cpp, n) for n in ('ax', 'ay', 'az', 'aw', 'bx', 'by', 'bz', 'bw', 'e')]
        d.shim(q, 'void', ins, 'auto r = glm::%s(%s::wxyz(aw, ax, ay, az), %s::wxyz(bw, bx, by, bz), e); %s' % (fname, Q, Q, vec_store(4, 'r')),
               outs=[('bool', 'out', 4)])
        C(q, 'glm::%s(qua<%s>, qua<%s>, %s epsilon)  %s' % (fname, cpp, cpp, cpp, EP if eps_family else QR), 'quick', uses=[s], uf_float=UF_REL,
          ensures=[('comp%s_same_as_scalar' % c, '(out[%d] != 0) == (%s(a%s, b%s, e) != 0)' % (i, s, c, c)) for i, c in enumerate('xyzw')])
        if eps_family:
            continue
        for (Cn, Rn) in MATS:
            for ve in (False, True):
                m = 'glm_%s%s_%s_m%d%d' % (tag, '_v' if ve else '', t, Cn, Rn)
                eins = vec_ins(Cn, t, 'e') if ve else [(cpp, 'e')]
                earg = vec_make(Cn, t, 'e') if ve else 'e'
                d.shim(m, 'void', mat_ins(Cn, Rn, t, 'a') + mat_ins(Cn, Rn, t, 'b') + eins,
                       'auto r = glm::%s(%s, %s, %s); %s' % (fname, mat_make(Cn, Rn, t, 'a'), mat_make(Cn, Rn, t, 'b'), earg, vec_store(Cn, 'r')),
                       outs=[('bool', 'out', Cn)])
                ens = []
                for c in range(Cn):
                    e = ('e%d' % c) if ve else 'e'
                    calls = ['(%s(a%d%d, b%d%d, %s) != 0)' % (s, c, r, c, r, e) for r in range(Rn)]
                    # doc: result component c is "satisfied per column": all components equal / any component notEqual
                    ens.append(('column%d_%s_components_same_as_scalar' % (c, 'all' if eq else 'any'),
                                '(out[%d] != 0) == (%s)' % (c, (' && ' if eq else ' || ').join(calls))))
                C(m, 'glm::%s(mat<%d,%d,%s>, mat<%d,%d,%s>, %s epsilon)  %s' % (fname, Cn, Rn, cpp, Cn, Rn, cpp, 'vec<%d,%s>' % (Cn, cpp) if ve else cpp, MR),
                  'quick', uses=[s], uf_float=UF_REL, ensures=ens)

flat = P.build(d, 'flat')
for fn, real, tier, kw in contracts:
    P.contract(fn, real, tier=tier, **kw)

P.level_text = ('every scalar overload is proved against an integer specification of "number of representable values between" '
                '(spec_ord32/64) for all 2^32 float / 2^64 double bit patterns of each argument (symbolic arguments = complete '
                'enumeration); every vector, matrix and quaternion overload is proved component-wise identical to the scalar '
                'overload on all inputs; the scalar n-step overloads (and floatDistance(x, nextFloat(x, n)) == n) are proved for EVERY step '
                'count n >= 0 by an inductive loop contract on the extracted loop (goto-instrument --apply-loop-contracts: invariant '
                'ord(t_i) = ord(x) +- i saturating at the infinities, variant n - i); their n-bounded twins (unwinding, n <= 16/64) are kept '
                'for replayable counterexamples and are reported as bounded; the vector n-step overloads of length 1-3 are proved the same way (one loop '
                'contract per component; vec2/float per change, the others in the thorough tier), length 4 stays bounded (n <= 8)')
P.level_note = ('libm nextafter/nextafterf (what std::nextafter resolves to) is NOT the code under proof: it is replaced by the '
                'bit-level model in rt/ll2c_fpmodels.h written from C11 7.12.11.3; so what is proved about GLM in nextFloat/prevFloat '
                'is the direction argument passed to nextafter and the composition (loops, per-component application, '
                'floatDistance o nextFloat), not the stepping itself. Native replay of a counterexample uses the real libm. '
                'Trusted besides: clang-14 lowering, ll2c translation (T-checked), CBMC float model, specs/spec_ulp.h written from IEEE-754')
P.technique = 'CBMC code contracts (DFCC enforce, loop contracts for the n-step loops) on mechanically extracted C; SAT bit-precise'
P.design_ref = 'DESIGN.md section 6 C14'
P.assumptions = ['libm nextafter/nextafterf behave as the bit-level model rt/ll2c_fpmodels.h (C11 7.12.11.3); floating-point exception flags are not modelled',
                 'only the GLM_HAS_CXX11_STL branch of nextFloat/prevFloat is compiled (std::nextafter); the MSVC/Android/pre-C++11 branches are not',
                 'NaN arguments of the ULP comparisons and of floatDistance are outside the clauses (their behaviour is not documented)',
                 'maxULPs is a count (>= 0); number of steps of the n-step overloads is 0..64 (GLM asserts ULPs >= 0)',
                 'infinities are representable values: ord(+-inf) = ord(+-max) +- 1',
                 'the shim table (function x {float,double} x shape) is the instantiation set covered']
P.not_covered = ['bundled glm::detail::nextafterf/nextafter (Sun implementation in scalar_ulp.inl): only reachable on MSVC/Intel-Windows without C++11 STL; not compiled in this configuration',
                 'n-step overloads for n > 64',
                 'matrix shapes other than 2x2, 3x2, 4x4; qualifiers other than defaultp',
                 'exact comparison overloads equal/notEqual(x, y) without tolerance (C02)',
                 'integer instantiations of equal/notEqual(x, y, epsilon)']
