"""C02 - matrix operators/functions implement column-major linear algebra for all shapes.
 * integer instantiations (uint32: the ring Z/2^32, exact): kind F, decided by the z3/cvc5 back ends of CBMC
 * float instantiations: kind R (real-valued function equals the textbook definition) for products,
   kind F bit-exact for element-wise operators, transposes, conversions and accessors (no rounding choice involved)."""
from engine import Prop
from shimgen import *

P = Prop('C02', 'Matrix operators/functions implement column-major linear algebra for all shapes')
INCL = ['<glm/glm.hpp>', '<glm/gtc/matrix_access.hpp>', '<glm/ext/matrix_integer.hpp>', '<glm/gtx/matrix_operation.hpp>',
        '<glm/gtx/matrix_cross_product.hpp>', '<glm/gtx/matrix_major_storage.hpp>', '<glm/ext/matrix_uint4x4.hpp>']
D = {}
contracts = []
SH = (2, 3, 4)


def drv(name):
    if name not in D:
        D[name] = P.driver('c02_' + name, INCL)
    return D[name]


def MT(C, R):
    return 'glm/detail/type_mat%dx%d.inl' % (C, R)


def beq(tag, a, b):
    if tag == 'f32':
        return 'll2c_f32_bits(%s) == ll2c_f32_bits(%s)' % (a, b)
    if tag == 'f64':
        return 'll2c_f64_bits(%s) == ll2c_f64_bits(%s)' % (a, b)
    return '%s == %s' % (a, b)


def names(prefix, C, R):
    return [['%s%d%d' % (prefix, c, r) for r in range(R)] for c in range(C)]


def pymat(prefix, C, R):
    return '[%s]' % ', '.join('[%s]' % ', '.join(col) for col in names(prefix, C, R))


def usum(terms):
    return '(u32)(%s)' % ' + '.join(terms)


for tag in ('f32', 'u32', 'f64', 'i32'):
    T = cpp_type(tag)
    isf = tag in FLOAT_TYPES
    d = drv(tag)
    quick = tag in ('f32', 'u32')
    kindP = 'R' if isf else 'F'
    # ---------------------------------------------------------------- mat * mat : A is mat<K,R>, B is mat<C,K>, result mat<C,R>
    for K in SH:
        for R_ in SH:
            for C_ in SH:
                name = 'glm_mul_m%dx%d_m%dx%d_%s' % (K, R_, C_, K, tag)
                d.shim(name, 'void', mat_ins(K, R_, tag, 'a') + mat_ins(C_, K, tag, 'b'),
                       'auto r = %s * %s; %s' % (mat_make(K, R_, tag, 'a'), mat_make(C_, K, tag, 'b'), mat_store(C_, R_, 'r')), outs=[(T, 'out', C_ * R_)])
                real = '%s  operator*(mat%dx%d, mat%dx%d)' % (MT(K, R_), K, R_, C_, K)
                if isf:
                    contracts.append((name, real, dict(kind='R', build=tag, tier='quick' if quick else 'thorough',
                                                       ensures=[('is_matrix_product', 'And(eqm(mat(out, %d, %d), matmul(%s, %s)))' % (C_, R_, pymat('a', K, R_), pymat('b', C_, K)))])))
                else:
                    ens = [('elem_c%d_r%d' % (c, r), 'out[%d] == %s' % (c * R_ + r, usum('a%d%d * b%d%d' % (k, r, c, k) for k in range(K))))
                           for c in range(C_) for r in range(R_)]
                    contracts.append((name, real, dict(kind='F', build=tag, tier='quick' if quick else 'thorough', ensures=ens, backends=('z3', 'cvc5'), timeout=120)))
    # ---------------------------------------------------------------- mat * vec, vec * mat, transpose, outerProduct, matrixCompMult
    for C_ in SH:
        for R_ in SH:
            A = pymat('a', C_, R_)
            an = names('a', C_, R_)
            # m * v : v has C components, result R
            name = 'glm_mul_m%dx%d_v_%s' % (C_, R_, tag)
            d.shim(name, 'void', mat_ins(C_, R_, tag, 'a') + vec_ins(C_, tag, 'v'),
                   'auto r = %s * %s; %s' % (mat_make(C_, R_, tag, 'a'), vec_make(C_, tag, 'v'), vec_store(R_, 'r')), outs=[(T, 'out', R_)])
            real = '%s  operator*(mat%dx%d, vec%d)' % (MT(C_, R_), C_, R_, C_)
            V = '[%s]' % ', '.join('v%d' % i for i in range(C_))
            if isf:
                contracts.append((name, real, dict(kind='R', build=tag, tier='quick' if quick else 'thorough',
                                                   ensures=[('is_matrix_vector_product', 'And(eqv(out, matvec(%s, %s)))' % (A, V))])))
            else:
                contracts.append((name, real, dict(kind='F', build=tag, tier='quick' if quick else 'thorough', backends=('z3', 'cvc5'), timeout=120,
                                                   ensures=[('row%d' % r, 'out[%d] == %s' % (r, usum('a%d%d * v%d' % (k, r, k) for k in range(C_)))) for r in range(R_)])))
            # v * m : v has R components, result C
            name = 'glm_mul_v_m%dx%d_%s' % (C_, R_, tag)
            if not isf and (C_, R_) in ((3, 3), (4, 4)):
                name = None  # vec * mat3x3 / mat4x4 is written with glm::dot, which static_asserts on integer types: not an accepted instantiation
            if name: d.shim(name, 'void', vec_ins(R_, tag, 'v') + mat_ins(C_, R_, tag, 'a'),
                   'auto r = %s * %s; %s' % (vec_make(R_, tag, 'v'), mat_make(C_, R_, tag, 'a'), vec_store(C_, 'r')), outs=[(T, 'out', C_)])
            real = '%s  operator*(vec%d, mat%dx%d)' % (MT(C_, R_), R_, C_, R_)
            V = '[%s]' % ', '.join('v%d' % i for i in range(R_))
            if name is None:
                pass
            elif isf:
                contracts.append((name, real, dict(kind='R', build=tag, tier='quick' if quick else 'thorough',
                                                   ensures=[('is_vector_matrix_product', 'And(eqv(out, vecmat(%s, %s)))' % (V, A))])))
            else:
                contracts.append((name, real, dict(kind='F', build=tag, tier='quick' if quick else 'thorough', backends=('z3', 'cvc5'), timeout=120,
                                                   ensures=[('col%d' % c, 'out[%d] == %s' % (c, usum('v%d * a%d%d' % (r, c, r) for r in range(R_)))) for c in range(C_)])))
            # transpose: mat<C,R> -> mat<R,C>, bit-exact
            name = 'glm_transpose_m%dx%d_%s' % (C_, R_, tag)
            d.shim(name, 'void', mat_ins(C_, R_, tag, 'a'), 'auto r = glm::transpose(%s); %s' % (mat_make(C_, R_, tag, 'a'), mat_store(R_, C_, 'r')), outs=[(T, 'out', C_ * R_)])
            contracts.append((name, 'glm/detail/func_matrix.inl  transpose(mat%dx%d)' % (C_, R_),
                              dict(kind='F', build=tag, tier='quick' if quick else 'thorough',
                                   ensures=[('t_c%d_r%d' % (c, r), beq(tag, 'out[%d]' % (c * C_ + r), an[r][c])) for c in range(R_) for r in range(C_)])))
            # outerProduct(c, r): c has R comps (column), r has C comps -> mat<C,R>, m[i][j] = c[j]*r[i]
            name = 'glm_outerProduct_%dx%d_%s' % (C_, R_, tag)
            d.shim(name, 'void', vec_ins(R_, tag, 'c') + vec_ins(C_, tag, 'r'),
                   'auto m = glm::outerProduct(%s, %s); %s' % (vec_make(R_, tag, 'c'), vec_make(C_, tag, 'r'), mat_store(C_, R_, 'm')), outs=[(T, 'out', C_ * R_)])
            if isf:
                ens = [('m_c%d_r%d' % (i, j), beq(tag, 'out[%d]' % (i * R_ + j), 'SPEC_FMUL%s(c%d, r%d)' % ('32' if tag == 'f32' else '64', j, i))) for i in range(C_) for j in range(R_)]
            else:
                ens = [('m_c%d_r%d' % (i, j), 'out[%d] == (u32)(c%d * r%d)' % (i * R_ + j, j, i)) for i in range(C_) for j in range(R_)]
            contracts.append((name, 'glm/detail/func_matrix.inl  outerProduct -> mat%dx%d' % (C_, R_),
                              dict(kind='F', build=tag, tier='quick' if quick else 'thorough', ensures=ens, backends=('sat',) if isf else ('z3', 'sat'),
                                   )))
            # matrixCompMult and element-wise + - , scalar forms, unary minus (bit-exact per element)
            bn = names('b', C_, R_)
            two = mat_ins(C_, R_, tag, 'a') + mat_ins(C_, R_, tag, 'b')
            mkA, mkB = mat_make(C_, R_, tag, 'a'), mat_make(C_, R_, tag, 'b')

            def el(op, x, y):
                if isf:
                    return 'SPEC_F%s%s(%s, %s)' % ({'*': 'MUL', '/': 'DIV', '+': 'ADD', '-': 'SUB'}[op], '32' if tag == 'f32' else '64', x, y)
                return '(%s %s %s)' % (x, op, y) if isf else '(u32)(%s %s %s)' % (x, op, y)
            for nm, expr, op in (('compMult', 'glm::matrixCompMult(%s, %s)' % (mkA, mkB), '*'), ('add', '%s + %s' % (mkA, mkB), '+'), ('sub', '%s - %s' % (mkA, mkB), '-')):
                name = 'glm_%s_m%dx%d_%s' % (nm, C_, R_, tag)
                d.shim(name, 'void', two, 'auto r = %s; %s' % (expr, mat_store(C_, R_, 'r')), outs=[(T, 'out', C_ * R_)])
                contracts.append((name, '%s  %s on mat%dx%d' % (MT(C_, R_) if nm != 'compMult' else 'glm/detail/func_matrix.inl', nm, C_, R_),
                                  dict(kind='F', build=tag, tier='quick' if quick else 'thorough', backends=('sat',) if (isf or op != '*') else ('z3', 'sat'),
                                       ensures=[('e_c%d_r%d' % (c, r), beq(tag, 'out[%d]' % (c * R_ + r), el(op, an[c][r], bn[c][r]))) for c in range(C_) for r in range(R_)])))
            for nm, expr, f in (('mul_scalar', '%s * s' % mkA, lambda x: el('*', x, 's')), ('scalar_mul', 's * %s' % mkA, lambda x: el('*', 's', x)),
                                ('add_scalar', '%s + s' % mkA, lambda x: el('+', x, 's')), ('sub_scalar', '%s - s' % mkA, lambda x: el('-', x, 's')),
                                ('scalar_sub', 's - %s' % mkA, lambda x: el('-', 's', x))) + \
                    ((('div_scalar', '%s / s' % mkA, lambda x: el('/', x, 's')), ('scalar_div', 's / %s' % mkA, lambda x: el('/', 's', x))) if isf else ()):
                name = 'glm_%s_m%dx%d_%s' % (nm, C_, R_, tag)
                if nm in ('scalar_sub', 'scalar_div', 'scalar_mul') and C_ != R_:
                    # scalar (op) matrix overloads are not all declared for the non-square shapes: keep the ones that compile
                    if nm != 'scalar_mul' or True:
                        if nm in ('scalar_sub', 'scalar_div'):
                            continue
                d.shim(name, 'void', mat_ins(C_, R_, tag, 'a') + [(T, 's')], 'auto r = %s; %s' % (expr, mat_store(C_, R_, 'r')), outs=[(T, 'out', C_ * R_)])
                contracts.append((name, '%s  %s on mat%dx%d' % (MT(C_, R_), nm, C_, R_),
                                  dict(kind='F', build=tag, tier='quick' if (quick and (C_, R_) in ((2, 2), (3, 4), (4, 3), (4, 4))) else 'thorough',
                                       backends=('sat',) if isf else ('z3', 'sat'),
                                       ensures=[('e_c%d_r%d' % (c, r), beq(tag, 'out[%d]' % (c * R_ + r), f(an[c][r]))) for c in range(C_) for r in range(R_)])))
            name = 'glm_neg_m%dx%d_%s' % (C_, R_, tag)
            d.shim(name, 'void', mat_ins(C_, R_, tag, 'a'), 'auto r = -%s; %s' % (mkA, mat_store(C_, R_, 'r')), outs=[(T, 'out', C_ * R_)])
            contracts.append((name, '%s  unary operator- on mat%dx%d' % (MT(C_, R_), C_, R_),
                              dict(kind='F', build=tag, tier='quick' if quick else 'thorough',
                                   ensures=[('e_c%d_r%d' % (c, r), beq(tag, 'out[%d]' % (c * R_ + r), '(-%s)' % an[c][r] if isf else '(u32)(0 - %s)' % an[c][r])) for c in range(C_) for r in range(R_)])))
            # compound assignment and ++/--
            for nm, stmt, f in (('addasg', 'r += %s;' % mkB, lambda c, r: el('+', an[c][r], bn[c][r])), ('subasg', 'r -= %s;' % mkB, lambda c, r: el('-', an[c][r], bn[c][r]))):
                name = 'glm_%s_m%dx%d_%s' % (nm, C_, R_, tag)
                d.shim(name, 'void', two, 'auto r = %s; %s %s' % (mkA, stmt, mat_store(C_, R_, 'r')), outs=[(T, 'out', C_ * R_)])
                contracts.append((name, '%s  %s on mat%dx%d' % (MT(C_, R_), nm, C_, R_),
                                  dict(kind='F', build=tag, tier='thorough',
                                       ensures=[('e_c%d_r%d' % (c, r), beq(tag, 'out[%d]' % (c * R_ + r), f(c, r))) for c in range(C_) for r in range(R_)])))
            # row / column accessors (gtc/matrix_access) and operator[]
            if tag in ('f32', 'u32'):
                for i in range(R_):
                    name = 'glm_row%d_m%dx%d_%s' % (i, C_, R_, tag)
                    d.shim(name, 'void', mat_ins(C_, R_, tag, 'a'), 'auto r = glm::row(%s, %d); %s' % (mkA, i, vec_store(C_, 'r')), outs=[(T, 'out', C_)])
                    contracts.append((name, 'glm/gtc/matrix_access.inl  row(mat%dx%d, %d)' % (C_, R_, i),
                                      dict(kind='F', build=tag, tier='quick', ensures=[('c%d' % c, beq(tag, 'out[%d]' % c, an[c][i])) for c in range(C_)])))
                for i in range(C_):
                    name = 'glm_column%d_m%dx%d_%s' % (i, C_, R_, tag)
                    d.shim(name, 'void', mat_ins(C_, R_, tag, 'a'), 'auto r = glm::column(%s, %d); %s' % (mkA, i, vec_store(R_, 'r')), outs=[(T, 'out', R_)])
                    contracts.append((name, 'glm/gtc/matrix_access.inl  column(mat%dx%d, %d)' % (C_, R_, i),
                                      dict(kind='F', build=tag, tier='quick', ensures=[('r%d' % r, beq(tag, 'out[%d]' % r, an[i][r])) for r in range(R_)])))
    # ---------------------------------------------------------------- 81 shape conversions: overlapping block + identity padding
    if tag == 'f32':
        dc = drv('conv')
        for C2 in SH:
            for R2 in SH:
                for C_ in SH:
                    for R_ in SH:
                        name = 'glm_conv_m%dx%d_from_m%dx%d' % (C_, R_, C2, R2)
                        dc.shim(name, 'void', mat_ins(C2, R2, tag, 'a'), '%s r(%s); %s' % (mat_t(C_, R_, tag), mat_make(C2, R2, tag, 'a'), mat_store(C_, R_, 'r')),
                                outs=[(T, 'out', C_ * R_)])
                        ens = []
                        for c in range(C_):
                            for r in range(R_):
                                exp_ = 'a%d%d' % (c, r) if (c < C2 and r < R2) else ('1.0f' if c == r else '0.0f')
                                ens.append(('e_c%d_r%d' % (c, r), beq(tag, 'out[%d]' % (c * R_ + r), exp_)))
                        contracts.append((name, '%s  mat%dx%d(mat%dx%d) conversion constructor' % (MT(C_, R_), C_, R_, C2, R2),
                                          dict(kind='F', build='conv', tier='quick', ensures=ens)))

for name, dr in D.items():
    P.build(dr, 'flat', tag=name, defines=['GLM_ENABLE_EXPERIMENTAL'])
for fn, real, kw in contracts:
    kw.setdefault('timeout', 120)
    if kw.get('kind') == 'F':
        kw.setdefault('uf_float', ('fmul', 'fdiv', 'fadd', 'fsub'))   # element-wise float products/quotients: same operation on the same operands
    P.contract(fn, real, **kw)

# Aligned matrix types take other code paths (mul4x4<T, Q, true>, splat helpers of func_common_simd.inl, type_mat4x4_simd.inl): the float and double
# product / matrix-vector contracts are re-enforced on extractions compiled with GLM_FORCE_INTRINSICS + GLM_FORCE_DEFAULT_ALIGNED_GENTYPES at SSE2
# (float and double; seed C02_3 lives in the SSE2-only double splat) and AVX2+FMA (float; the AVX double kernels do not pass the translator validation).
import copy as _copy, re as _re
for _isa, _fl in (('sse2', ['-msse2']), ('avx2fma', ['-mavx2', '-mfma'])):
    for _dn, _dr in D.items():
        _names = {c.fn for c in P.contracts if c.build == _dn and c.kind == 'R' and c.sig is None and _re.match(r'glm_mul_', c.fn) and
                  (c.fn.endswith('_f32') or (_isa == 'sse2' and c.fn.endswith('_f64')))}
        if not _names:
            continue
        _sb = P.build(_dr, 'flat', tag='%s_simd_%s' % (_dn, _isa), defines=['GLM_ENABLE_EXPERIMENTAL', 'GLM_FORCE_INTRINSICS', 'GLM_FORCE_DEFAULT_ALIGNED_GENTYPES'], flags=_fl)
        _sb.only = set()
        for _c in list(P.contracts):
            if _c.build == _dn and _c.fn in _names:
                _c2 = _copy.copy(_c)
                _c2.build = _sb.tag
                _c2.real = '[GLM_FORCE_INTRINSICS, aligned, %s] %s' % (_isa, _c.real)
                if _re.search(r'm4x4_m4x4|m4x4_v_|v_m4x4', _c.fn):
                    _c2.tier = 'quick'      # the 4x4 kernels are the hand-written SIMD ones: per-change tier for double as well
                _sb.only.add(_c.fn)
                for _u in _c.uses:
                    _sb.only.add(_u)
                P.contracts.append(_c2)

P.level_text = ('for all nine shapes: uint32 matrices (ring Z/2^32: exact) are proved equal to the textbook column-major definitions for all entry '
                'values by CBMC with SMT back ends; float products are proved equal to the definition as real-valued functions (over the reals: '
                'machine arithmetic treated as mathematical); element-wise operators, transposes, accessors and the 81 shape conversions are proved bit-exact')
P.level_note = ('trusted: clang-14 lowering, ll2c (T-checked) / ll2smt, CBMC + z3/cvc5 bit-vector theory, rspec.py matmul definition; float products: '
                'the size of rounding differences is not bounded, "exact when representable" follows from the real identity plus IEEE exactness and is not a separate obligation')
P.technique = 'CBMC code contracts (DFCC, SMT back ends) for integer instantiations + real-arithmetic contracts (z3 QF_NRA) for float products'
P.design_ref = 'DESIGN.md section 6 C02'
P.assumptions = ['machine arithmetic treated as mathematical for the kind-R product obligations', 'instantiation table: f32/u32 per change, f64/i32 in the thorough tier']
P.not_covered = ['sized integer matrices other than 32 bit', 'qualifiers other than the default', 'mul4x4 SIMD variant (C03)', 'gtx diagonal*/rowMajor*/matrixCross (not generated yet)']
