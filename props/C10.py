"""C10 - inverse, determinant and their gtc variants satisfy the defining identities (kind R: over the reals)."""
from engine import Prop
from shimgen import *

P = Prop('C10', 'inverse, determinant and their gtc variants satisfy the defining identities')
d = P.driver('c10', ['<glm/glm.hpp>', '<glm/gtc/matrix_inverse.hpp>', '<glm/gtx/matrix_operation.hpp>'])
contracts = []


def R(fn, real, **kw):
    contracts.append((fn, real, kw))


for tag in ('f32', 'f64'):
    T = cpp_type(tag)
    for n in (2, 3, 4):
        M = 'mat(%s, %d, %d)'
        ins = mat_ins(n, n, tag, 'm')
        mk = mat_make(n, n, tag, 'm')
        A = 'mat([%s], %d, %d)' % (', '.join(nm for _, nm in ins), n, n)
        sfx = '%dx%d_%s' % (n, n, tag)
        # determinant
        d.shim('glm_determinant_' + sfx, T, ins, 'return glm::determinant(%s);' % mk)
        R('glm_determinant_' + sfx, 'glm::determinant(mat%d)  glm/detail/func_matrix.inl' % n,
          ensures=[('leibniz', 'RESULT == det(%s)' % A),
                   ('transpose_invariant', 'RESULT == det(transpose(%s))' % A)])
        # inverse
        d.shim('glm_inverse_' + sfx, 'void', ins, 'auto r = glm::inverse(%s); %s' % (mk, mat_store(n, n, 'r')), outs=[(T, 'out', n * n)])
        R('glm_inverse_' + sfx, 'glm::inverse(mat%d)  glm/detail/func_matrix.inl' % n,
          requires=[('nonsingular', 'det(%s) != 0' % A)],
          ensures=[('left_inverse', 'And(eqm(matmul(mat(out, %d, %d), %s), ident(%d)))' % (n, n, A, n)),
                   ('right_inverse', 'And(eqm(matmul(%s, mat(out, %d, %d)), ident(%d)))' % (A, n, n, n))])
        # inverseTranspose
        d.shim('glm_inverseTranspose_' + sfx, 'void', ins, 'auto r = glm::inverseTranspose(%s); %s' % (mk, mat_store(n, n, 'r')), outs=[(T, 'out', n * n)])
        R('glm_inverseTranspose_' + sfx, 'glm::inverseTranspose(mat%d)  glm/gtc/matrix_inverse.inl' % n,
          requires=[('nonsingular', 'det(%s) != 0' % A)],
          ensures=[('is_transpose_of_inverse', 'And(eqm(matmul(transpose(mat(out, %d, %d)), %s), ident(%d)))' % (n, n, A, n))])
        # adjugate (gtx)
        d.shim('glm_adjugate_' + sfx, 'void', ins, 'auto r = glm::adjugate(%s); %s' % (mk, mat_store(n, n, 'r')), outs=[(T, 'out', n * n)])
        R('glm_adjugate_' + sfx, 'glm::adjugate(mat%d)  glm/gtx/matrix_operation.inl' % n,
          ensures=[('adj_times_m_is_det_times_identity',
                    'And(eqm(matmul(mat(out, %d, %d), %s), mscale(ident(%d), det(%s))))' % (n, n, A, n, A))])
        # det(A*B) = det A * det B  (composed shim)
        insB = mat_ins(n, n, tag, 'b')
        B = 'mat([%s], %d, %d)' % (', '.join(nm for _, nm in insB), n, n)
        d.shim('glm_det_of_product_' + sfx, T, ins + insB, 'return glm::determinant(%s * %s);' % (mk, mat_make(n, n, tag, 'b')))
        R('glm_det_of_product_' + sfx, 'glm::determinant(A*B)  glm/detail/func_matrix.inl + type_mat%dx%d.inl' % (n, n),
          ensures=[('multiplicative', 'RESULT == det(%s) * det(%s)' % (A, B))], tier='quick' if n < 4 else 'thorough')
        # operator/ : matrix / matrix, matrix / vector, vector / matrix
        d.shim('glm_mat_div_mat_' + sfx, 'void', ins + insB, 'auto r = %s / %s; %s' % (mk, mat_make(n, n, tag, 'b'), mat_store(n, n, 'r')),
               outs=[(T, 'out', n * n)])
        R('glm_mat_div_mat_' + sfx, 'operator/(mat%d, mat%d)  glm/detail/type_mat%dx%d.inl' % (n, n, n, n),
          requires=[('nonsingular', 'det(%s) != 0' % B)],
          ensures=[('times_b_gives_a', 'And(eqm(matmul(mat(out, %d, %d), %s), %s))' % (n, n, B, A))], tier='quick' if n < 4 else 'thorough')
        vins = vec_ins(n, tag, 'v')
        V = '[%s]' % ', '.join(nm for _, nm in vins)
        d.shim('glm_mat_div_vec_' + sfx, 'void', ins + vins, 'auto r = %s / %s; %s' % (mk, vec_make(n, tag, 'v'), vec_store(n, 'r')),
               outs=[(T, 'out', n)])
        R('glm_mat_div_vec_' + sfx, 'operator/(mat%d, vec%d) = inverse(m) * v  glm/detail/type_mat%dx%d.inl' % (n, n, n, n),
          requires=[('nonsingular', 'det(%s) != 0' % A)],
          ensures=[('m_times_result_is_v', 'And(eqv(matvec(%s, out), %s))' % (A, V))])
        d.shim('glm_vec_div_mat_' + sfx, 'void', vins + ins, 'auto r = %s / %s; %s' % (vec_make(n, tag, 'v'), mk, vec_store(n, 'r')),
               outs=[(T, 'out', n)])
        R('glm_vec_div_mat_' + sfx, 'operator/(vec%d, mat%d) = v * inverse(m)  glm/detail/type_mat%dx%d.inl' % (n, n, n, n),
          requires=[('nonsingular', 'det(%s) != 0' % A)],
          ensures=[('result_times_m_is_v', 'And(eqv(vecmat(out, %s), %s))' % (A, V))])
    # affineInverse: inverse for matrices whose last row is (0,..,0,1)
    for n in (3, 4):
        ins = [(T, 'm%d%d' % (c, r)) for c in range(n) for r in range(n - 1)]
        names = [['m%d%d' % (c, r) if r < n - 1 else ('1' if c == n - 1 else '0') for r in range(n)] for c in range(n)]
        mk = '%s(%s)' % (mat_t(n, n, tag), ', '.join(x if not x.isdigit() else '%s(%s)' % (T, x) for col in names for x in col))
        A = '[%s]' % ', '.join('[%s]' % ', '.join(col) for col in names)
        sfx = '%dx%d_%s' % (n, n, tag)
        d.shim('glm_affineInverse_' + sfx, 'void', ins, 'auto r = glm::affineInverse(%s); %s' % (mk, mat_store(n, n, 'r')), outs=[(T, 'out', n * n)])
        R('glm_affineInverse_' + sfx, 'glm::affineInverse(mat%d)  glm/gtc/matrix_inverse.inl' % n,
          requires=[('nonsingular', 'det(%s) != 0' % A)],
          ensures=[('is_inverse_of_affine_matrix', 'And(eqm(matmul(mat(out, %d, %d), %s), ident(%d)))' % (n, n, A, n))])

flat = P.build(d, 'flat', defines=['GLM_ENABLE_EXPERIMENTAL'])
for fn, real, kw in contracts:
    kw.setdefault('timeout', 120)
    P.contract(fn, real, kind='R', **kw)

# The property quantifies over matrices, not over configurations, but an aligned matrix type takes other code paths (detail::inv3x3<T, Q, true>,
# the SSE kernels of func_matrix_simd.inl): the same contracts are re-enforced on extractions compiled with GLM_FORCE_INTRINSICS +
# GLM_FORCE_DEFAULT_ALIGNED_GENTYPES at SSE2 and AVX2+FMA (seed C10_3 lives in the aligned 3x3 inverse; C03 re-enforces them at three ISA levels too)
import copy as _copy
for _isa, _fl in (('sse2', ['-msse2']), ('avx2fma', ['-mavx2', '-mfma'])):
    _sb = P.build(d, 'flat', defines=['GLM_ENABLE_EXPERIMENTAL', 'GLM_FORCE_INTRINSICS', 'GLM_FORCE_DEFAULT_ALIGNED_GENTYPES'], flags=_fl, tag='c10_simd_' + _isa)
    _sb.only = set()
    for _c in list(P.contracts):
        # AVX2+FMA: float instantiations only (the translator validation of the AVX dvec4 paths does not pass: ll2c models the 256-bit double kernels
        # unfused; see C03 not_covered)
        if _c.build == flat.tag and _c.sig is None and (_isa == 'sse2' or _c.fn.endswith('_f32')):
            _c2 = _copy.copy(_c)
            _c2.build = _sb.tag
            _c2.real = '[GLM_FORCE_INTRINSICS, aligned, %s] %s' % (_isa, _c.real)
            _sb.only.add(_c.fn)
            for _u in _c.uses:
                _sb.only.add(_u)
            P.contracts.append(_c2)

P.level_text = ('over the reals (machine arithmetic treated as mathematical): the real-valued function computed by the code clang '
                'extracts from /repo satisfies the defining identities (Leibniz determinant, inverse(M)*M = I = M*inverse(M), '
                'multiplicativity, ...) for all real inputs with det != 0; decided by z3 nonlinear real arithmetic on the extracted IR')
P.level_note = ('trusted: clang-14 lowering, tools/ll2smt.py symbolic execution, z3 nlsat, rspec.py (Leibniz formula, matrix product); '
                'blind to rounding, overflow/underflow, NaN/Inf and to the size of the rounding error (condition-number bound)')
P.technique = 'contracts over the reals on mechanically extracted LLVM IR: symbolic execution + z3 QF_NRA'
P.design_ref = 'DESIGN.md sections 5 and 6 C10'
P.assumptions = ['machine arithmetic treated as mathematical (IEEE float/double identified with the reals)',
                 'exactness on small-integer unimodular matrices follows from the real identity plus exactness of float arithmetic on small integers; not a separate obligation']
P.not_covered = ['rounding bound proportional to the condition number', 'qr_decompose / rq_decompose', 'SIMD configurations other than SSE2 and AVX2+FMA (SSE4.1: C03)']
