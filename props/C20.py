"""C20 - no undefined behaviour inside the documented domains (kind U).
The shims of the value properties are recompiled with clang's own UBSan instrumentation in trap mode and with
GLM's asserts enabled; every llvm.ubsantrap site and every __assert_fail becomes an assertion that must be
unreachable under the documented-domain REQUIRES of the corresponding value contract."""
import importlib, re, sys
from engine import Prop

P = Prop('C20', 'No undefined behaviour is executed for arguments inside the documented domains')


def documented_requires(src, c):
    """REQUIRES of the value contract, except where the value contract narrows its domain for a reason other than the
    documentation.  C18: the 32/64-bit bitfieldRotateLeft/Right contracts leave out s == 0 *because* the code shifts by the
    full width there (nondeterministic in the model); the doc comment (glm/gtc/bitfield.hpp: "Rotate all bits to the right.
    All the bits dropped in the right side are inserted back on the left side.") does not exclude a rotation by 0, so C20
    checks 0 <= s < width."""
    if src == 'C18' and re.match(r'glm_bitfieldRotate(Left|Right)_', c.fn):
        return [(n, e.replace('(s32)s >= 1 &&', '(s32)s >= 0 &&')) for n, e in c.requires]
    return c.requires


SOURCES = ['C05', 'C07', 'C06', 'C11', 'C14', 'C18', 'C19']
P.sources_loaded = []
for src in SOURCES:
    try:
        m = importlib.import_module(src)
    except Exception as e:  # module not present yet
        continue
    Q = m.P
    P.sources_loaded.append(src)
    ub = {}
    for c in Q.contracts:
        if c.kind != 'F' or c.sig is not None:
            continue
        if getattr(c, 'loops', None):
            # proved by an inductive loop contract in its own property (C14 n-step overloads for every n): the -O1 UBSan extraction of that loop is
            # not a single-block loop (overflow check of ++i), so no loop contract applies here; the n-bounded twins of the same shims are claimed
            continue
        b0 = Q.builds[c.build]
        if b0.mode != 'flat':
            continue
        key = b0.tag
        if key not in ub:
            ub[key] = P.build(b0.driver, 'ubsan', defines=b0.defines, flags=b0.flags, tag='c20_' + b0.tag + '_ubsan')
        if c.fn not in b0.driver.shims:
            continue
        # unwinding bound: the -O1 UBSan build keeps the per-component loops (length <= 4) that the flat -O2 build of the value
        # property unrolls, so a bound of 2 taken over from there trips the unwinding assertion (undecided, never unsound)
        P.contract(c.fn, c.real, kind='U', requires=documented_requires(src, c), ensures=[], build=ub[key], unwind=max(c.unwind if c.unwind < 60 else 1, 12) if src in ('C05',) else max(c.unwind, 6),
                   backends=('sat',), timeout=c.timeout, tier=c.tier, bounded=c.bounded)

# ---------------------------------------------------------------------------------------------------------------------------
# Integer abs / sign: the first mechanism the property statement names (glm/detail/func_common.inl: the abs(int) shift/xor
# trick, compute_abs' `x >= 0 ? x : -x`, compute_sign's `-x >> (width - 1)` trick).  No value property has shims for the integer
# overloads (C11 is about floats; its not_covered list sends them here), so C20 declares these shims itself.
# Documented domain: every value of the type - glm/common.hpp: "Returns x if x >= 0; otherwise, it returns -x." (@tparam genType
# floating-point or signed integer) and "Returns 1.0 if x > 0, 0.0 if x == 0, or -1.0 if x < 0." state no precondition, and GLSL
# integer arithmetic wraps (GLSL 4.60 section 4.1.3: overflow "will result in the low-order 32 bits of the correct result").
from shimgen import INT_TYPES, vec_ins, vec_make, vec_store
_di = P.driver('c20_int', ['<glm/glm.hpp>'])
_FC = 'glm/detail/func_common.inl'
_int_shims = []
for _tag in ('i8', 'i16', 'i32', 'i64'):
    _cpp = INT_TYPES[_tag][0]
    for _f in ('abs', 'sign'):
        _di.shim('glm_%s_%s_s' % (_f, _tag), _cpp, [(_cpp, 'x')], 'return glm::%s(x);' % _f)
        _int_shims.append(('glm_%s_%s_s' % (_f, _tag), 'glm::%s<%s>  %s' % (_f, _cpp, _FC)))
        if _tag in ('i32', 'i64'):
            _di.shim('glm_%s_%s_v4' % (_f, _tag), 'void', vec_ins(4, _tag, 'x'),
                     'auto r = glm::%s(%s); %s' % (_f, vec_make(4, _tag, 'x'), vec_store(4, 'r')), outs=[(_cpp, 'out', 4)])
            _int_shims.append(('glm_%s_%s_v4' % (_f, _tag), 'glm::%s(vec<4,%s>)  %s' % (_f, _cpp, _FC)))
_bi = P.build(_di, 'ubsan', tag='c20_int_ubsan')
for _fn, _real in _int_shims:
    # requires=[]: the documentation states no precondition, so the domain is all values of the type
    P.contract(_fn, _real, kind='U', requires=[], ensures=[], build=_bi, unwind=6, backends=('sat',), timeout=300)

# ---------------------------------------------------------------------------------------------------------------------------
# SIMD paths: "no out-of-bounds, misaligned or null access" for the conversions between packed and aligned types, the only SIMD code that takes
# addresses (loadu/storeu through reinterpret_cast, type_vec4.inl).  A packed vec4 is only 4-byte aligned: the shims place it at every float
# offset 0..3 of a 16-byte aligned buffer (symbolic offset), so an aligned load/store through its address trips the UBSan alignment check that
# clang inserts for *(__m128*)p.  (The vec3 conversions next to them go through _mm_store_sd / _mm_load_sd on double* and are NOT claimed:
# see not_covered.)
_ds = P.driver('c20_simd', ['<glm/glm.hpp>', '<glm/gtc/type_aligned.hpp>'])
_PA = 'typedef glm::vec<4, float, glm::packed_highp> PV; typedef glm::vec<4, float, glm::aligned_highp> AV; alignas(16) float buf[8] = {0, 0, 0, 0, 0, 0, 0, 0}; '
_ds.shim('glm_simd_aligned_vec4_from_packed_at_offset', 'void', [('float', c) for c in 'xyzw'] + [('uint8_t', 'off')],
         _PA + 'float* q = buf + (off & 3); q[0] = x; q[1] = y; q[2] = z; q[3] = w; AV a(*reinterpret_cast<PV const*>(q)); '
         'out[0] = a.x; out[1] = a.y; out[2] = a.z; out[3] = a.w;', outs=[('float', 'out', 4)])
_ds.shim('glm_simd_packed_vec4_from_aligned_at_offset', 'void', [('float', c) for c in 'xyzw'] + [('uint8_t', 'off')],
         _PA + 'AV a(x, y, z, w); PV* q = new (buf + (off & 3)) PV(a); out[0] = q->x; out[1] = q->y; out[2] = q->z; out[3] = q->w;', outs=[('float', 'out', 4)])
for _isa, _fl in (('sse2', ['-msse2']), ('avx2', ['-mavx2', '-mfma'])):
    _bs = P.build(_ds, 'ubsan', defines=['GLM_FORCE_INTRINSICS'], flags=_fl, tag='c20_simd_%s_ubsan' % _isa)
    for _fn, _real in (('glm_simd_aligned_vec4_from_packed_at_offset', 'vec<4, float, aligned_highp>::vec(vec<4, float, packed_highp> const&)  glm/detail/type_vec4.inl (_mm_loadu_ps)'),
                       ('glm_simd_packed_vec4_from_aligned_at_offset', 'vec<4, float, packed_highp>::vec(vec<4, float, aligned_highp> const&)  glm/detail/type_vec4.inl (_mm_storeu_ps)')):
        P.contract(_fn, '[GLM_FORCE_INTRINSICS, %s] %s' % (_isa, _real), kind='U', requires=[], ensures=[], build=_bs, unwind=6, backends=('sat',), timeout=300)

P.level_text = ('for every shim of the value properties, under the documented-domain precondition, every UBSan check that clang itself '
                'inserts (signed overflow, shift, division by zero, float-to-int range, bounds, alignment, null, bool/enum load, '
                'unreachable) and every GLM assert is proved unreachable by CBMC on the extracted code, for all argument values')
P.level_note = ('oracle = clang-14 -fsanitize=undefined,float-cast-overflow in trap mode at -O1 (C++17 rules); blind to UB classes UBSan '
                'does not instrument (strict aliasing, unsequenced modification); memory safety of the translated byte-addressed '
                'accesses via CBMC --pointer-check --bounds-check; SIMD paths: the packed/aligned vec4 conversions here, values via C03')
P.technique = 'CBMC reachability of compiler-inserted UBSan trap sites under contract preconditions (DFCC enforce)'
P.design_ref = 'DESIGN.md section 6 C20'
P.assumptions = ['documented domain = the REQUIRES clauses of the value contracts (taken from doc comments / GLSL text); where the documentation is silent the domain is all values of the type']
P.not_covered = ['UB classes invisible to UBSan', 'n-step nextFloat/prevFloat loops beyond the unwinding bound of their n-bounded contracts (the value property C14 proves them for every n, the UBSan extraction is closed by unwinding only)', 'functions without a shim in C05/C06/C07/C11/C14/C18/C19 (except integer abs/sign, declared here)', 'optimisation-level independence is the C15 relational check']
