"""C20 - no undefined behaviour inside the documented domains (kind U).
The shims of the value properties are recompiled with clang's own UBSan instrumentation in trap mode and with
GLM's asserts enabled; every llvm.ubsantrap site and every __assert_fail becomes an assertion that must be
unreachable under the documented-domain REQUIRES of the corresponding value contract."""
import importlib, sys
from engine import Prop

P = Prop('C20', 'No undefined behaviour is executed for arguments inside the documented domains')
SOURCES = ['C05', 'C07', 'C06', 'C11', 'C14', 'C18', 'C19']
P.sources_loaded = []
for src in SOURCES:
    try:
        m = importlib.import_module(src)
    except Exception as e:  # module not present yet
        continue
    Q = m.P
    P.sources_loaded.append(src)
    ub = {}
    for c in Q.contracts:
        if c.kind != 'F' or c.sig is not None:
            continue
        b0 = Q.builds[c.build]
        if b0.mode != 'flat':
            continue
        key = b0.tag
        if key not in ub:
            ub[key] = P.build(b0.driver, 'ubsan', defines=b0.defines, flags=b0.flags, tag='c20_' + b0.tag + '_ubsan')
        if c.fn not in b0.driver.shims:
            continue
        P.contract(c.fn, c.real, kind='U', requires=c.requires, ensures=[], build=ub[key], unwind=max(c.unwind if c.unwind < 60 else 1, 12) if src in ('C05',) else c.unwind,
                   backends=('sat',), timeout=c.timeout, tier=c.tier, bounded=c.bounded)

P.level_text = ('for every shim of the value properties, under the documented-domain precondition, every UBSan check that clang itself '
                'inserts (signed overflow, shift, division by zero, float-to-int range, bounds, alignment, null, bool/enum load, '
                'unreachable) and every GLM assert is proved unreachable by CBMC on the extracted code, for all argument values')
P.level_note = ('oracle = clang-14 -fsanitize=undefined,float-cast-overflow in trap mode at -O1 (C++17 rules); blind to UB classes UBSan '
                'does not instrument (strict aliasing, unsequenced modification); memory safety of the translated byte-addressed '
                'accesses via CBMC --pointer-check --bounds-check; SIMD paths only via C03')
P.technique = 'CBMC reachability of compiler-inserted UBSan trap sites under contract preconditions (DFCC enforce)'
P.design_ref = 'DESIGN.md section 6 C20'
P.assumptions = ['documented domain = the REQUIRES clauses of the value contracts (taken from doc comments / GLSL text); where the documentation is silent the domain is all values of the type']
P.not_covered = ['UB classes invisible to UBSan', 'functions without a shim in C05/C06/C07/C11/C14/C18/C19', 'optimisation-level independence is the C15 relational check']
