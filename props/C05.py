"""C05 - GLSL integer and bitfield functions return the specified exact result."""
from engine import Prop
from shimgen import *

P = Prop('C05', 'GLSL integer and bitfield functions return the specified exact result')
d = P.driver('c05', ['<glm/glm.hpp>', '<glm/integer.hpp>'])
F = 'glm/detail/func_integer.inl'
contracts = []


def C(fn, real, tier='quick', **kw):
    contracts.append((fn, real + '  ' + F, tier, kw))


SHAPES = [0, 1, 2, 3, 4]  # 0 = scalar overload


def tier_of(tag, L):
    # per-change tier: every type in scalar and vec4 form, 32-bit types in every shape
    return 'quick' if (L in (0, 4) or tag in ('i32', 'u32')) else 'thorough'


for tag, (cpp, n, sg) in INT_TYPES.items():
    U = 'u%d' % n
    for L in SHAPES:
        sfx = '%s_%s' % (tag, 's' if L == 0 else 'v%d' % L)
        xs = ['x'] if L == 0 else ['x%d' % i for i in range(L)]
        N = max(L, 1)
        # ---------------- unary: bitCount findLSB findMSB bitfieldReverse
        for fname, rt, spec in (
                ('bitCount', 'int32_t', lambda x: '(s32)%s == spec_popcount(%s, %d)' % ('%s', x, n)),
                ('findLSB', 'int32_t', lambda x: '(s32)%s == spec_lsb_index(%s, %d)' % ('%s', x, n)),
                ('findMSB', 'int32_t', lambda x: '(s32)%s == spec_findMSB(%s, %d, %d)' % ('%s', x, n, sg)),
                ('bitfieldReverse', cpp, lambda x: '%s == (%s)spec_bitreverse(%s, %d)' % ('%s', U, x, n))):
            name = 'glm_%s_%s' % (fname, sfx)
            if fname == 'bitfieldReverse' and n < 32:
                continue  # does not compile for 8/16-bit T (~Mask promotes to int): not an accepted width
            if L == 0:
                d.shim(name, rt, [(cpp, 'x')], 'return glm::%s(x);' % fname)
                C(name, 'glm::%s<%s>' % (fname, cpp), tier_of(tag, L), unwind=65,
                  ensures=[('glsl_value', spec('x') % 'RESULT')])
            else:
                d.shim(name, 'void', vec_ins(L, tag, 'x'),
                       'auto r = glm::%s(%s); %s' % (fname, vec_make(L, tag, 'x'), vec_store(L, 'r')), outs=[(rt, 'out', L)])
                C(name, 'glm::%s(vec<%d,%s>)' % (fname, L, cpp), tier_of(tag, L), unwind=65,
                  ensures=[('glsl_value_comp%d' % i, spec(xs[i]) % ('out[%d]' % i)) for i in range(L)])
        # ---------------- bitfieldExtract / bitfieldInsert
        dom = '(s32)offset >= 0 && (s32)bits >= 0 && (s32)offset <= %d && (s32)bits <= %d && (s32)offset + (s32)bits <= %d' % (n, n, n)
        name = 'glm_bitfieldExtract_' + sfx
        if L == 0:
            d.shim(name, cpp, [(cpp, 'x'), ('int32_t', 'offset'), ('int32_t', 'bits')], 'return glm::bitfieldExtract(x, offset, bits);')
            C(name, 'glm::bitfieldExtract<%s>' % cpp, tier_of(tag, L), unwind=65, requires=[('glsl_domain', dom)],
              ensures=[('glsl_value', 'RESULT == (%s)spec_bitfieldExtract(x, %d, %d, offset, bits)' % (U, n, sg))])
        else:
            d.shim(name, 'void', vec_ins(L, tag, 'x') + [('int32_t', 'offset'), ('int32_t', 'bits')],
                   'auto r = glm::bitfieldExtract(%s, offset, bits); %s' % (vec_make(L, tag, 'x'), vec_store(L, 'r')), outs=[(cpp, 'out', L)])
            C(name, 'glm::bitfieldExtract(vec<%d,%s>)' % (L, cpp), tier_of(tag, L), unwind=65, requires=[('glsl_domain', dom)],
              ensures=[('glsl_value_comp%d' % i, 'out[%d] == (%s)spec_bitfieldExtract(%s, %d, %d, offset, bits)' % (i, U, xs[i], n, sg)) for i in range(L)])
        name = 'glm_bitfieldInsert_' + sfx
        # 8/16-bit element types compile since fix 545f5fe (the body works on the unsigned type); under contract since seed C05_3
        if L == 0:
            d.shim(name, cpp, [(cpp, 'x'), (cpp, 'y'), ('int32_t', 'offset'), ('int32_t', 'bits')], 'return glm::bitfieldInsert(x, y, offset, bits);')
            C(name, 'glm::bitfieldInsert<%s>' % cpp, tier_of(tag, L), unwind=65, requires=[('glsl_domain', dom)],
              ensures=[('glsl_value', 'RESULT == (%s)spec_bitfieldInsert(x, y, %d, offset, bits)' % (U, n))])
        else:
            d.shim(name, 'void', vec_ins(L, tag, 'x') + vec_ins(L, tag, 'y') + [('int32_t', 'offset'), ('int32_t', 'bits')],
                   'auto r = glm::bitfieldInsert(%s, %s, offset, bits); %s' % (vec_make(L, tag, 'x'), vec_make(L, tag, 'y'), vec_store(L, 'r')),
                   outs=[(cpp, 'out', L)])
            C(name, 'glm::bitfieldInsert(vec<%d,%s>)' % (L, cpp), tier_of(tag, L), unwind=65, requires=[('glsl_domain', dom)],
              ensures=[('glsl_value_comp%d' % i, 'out[%d] == (%s)spec_bitfieldInsert(x%d, y%d, %d, offset, bits)' % (i, U, i, i, n)) for i in range(L)])

# ---------------- carry / borrow / extended multiply (32-bit only, as in GLSL)
for L in SHAPES:
    sfx = 's' if L == 0 else 'v%d' % L
    N = max(L, 1)
    xs = ['x'] if L == 0 else ['x%d' % i for i in range(L)]
    ys = ['y'] if L == 0 else ['y%d' % i for i in range(L)]
    tq = 'quick'
    if L == 0:
        d.shim('glm_uaddCarry_s', 'uint32_t', [('uint32_t', 'x'), ('uint32_t', 'y')], 'return glm::uaddCarry(x, y, carry[0]);', outs=[('uint32_t', 'carry', 1)])
        d.shim('glm_usubBorrow_s', 'uint32_t', [('uint32_t', 'x'), ('uint32_t', 'y')], 'return glm::usubBorrow(x, y, borrow[0]);', outs=[('uint32_t', 'borrow', 1)])
        d.shim('glm_umulExtended_s', 'void', [('uint32_t', 'x'), ('uint32_t', 'y')], 'glm::umulExtended(x, y, msb[0], lsb[0]);',
               outs=[('uint32_t', 'msb', 1), ('uint32_t', 'lsb', 1)])
        d.shim('glm_imulExtended_s', 'void', [('int32_t', 'x'), ('int32_t', 'y')], 'glm::imulExtended(x, y, msb[0], lsb[0]);',
               outs=[('int32_t', 'msb', 1), ('int32_t', 'lsb', 1)])
        res = lambda i: 'RESULT'
    else:
        V = vec_t(L, 'u32')
        VI = vec_t(L, 'i32')
        d.shim('glm_uaddCarry_' + sfx, 'void', vec_ins(L, 'u32', 'x') + vec_ins(L, 'u32', 'y'),
               '%s c; %s r = glm::uaddCarry(%s, %s, c); %s %s' % (V, V, vec_make(L, 'u32', 'x'), vec_make(L, 'u32', 'y'), vec_store(L, 'r', 'sum'), vec_store(L, 'c', 'carry')),
               outs=[('uint32_t', 'sum', L), ('uint32_t', 'carry', L)])
        d.shim('glm_usubBorrow_' + sfx, 'void', vec_ins(L, 'u32', 'x') + vec_ins(L, 'u32', 'y'),
               '%s c; %s r = glm::usubBorrow(%s, %s, c); %s %s' % (V, V, vec_make(L, 'u32', 'x'), vec_make(L, 'u32', 'y'), vec_store(L, 'r', 'diff'), vec_store(L, 'c', 'borrow')),
               outs=[('uint32_t', 'diff', L), ('uint32_t', 'borrow', L)])
        d.shim('glm_umulExtended_' + sfx, 'void', vec_ins(L, 'u32', 'x') + vec_ins(L, 'u32', 'y'),
               '%s m, l; glm::umulExtended(%s, %s, m, l); %s %s' % (V, vec_make(L, 'u32', 'x'), vec_make(L, 'u32', 'y'), vec_store(L, 'm', 'msb'), vec_store(L, 'l', 'lsb')),
               outs=[('uint32_t', 'msb', L), ('uint32_t', 'lsb', L)])
        d.shim('glm_imulExtended_' + sfx, 'void', vec_ins(L, 'i32', 'x') + vec_ins(L, 'i32', 'y'),
               '%s m, l; glm::imulExtended(%s, %s, m, l); %s %s' % (VI, vec_make(L, 'i32', 'x'), vec_make(L, 'i32', 'y'), vec_store(L, 'm', 'msb'), vec_store(L, 'l', 'lsb')),
               outs=[('int32_t', 'msb', L), ('int32_t', 'lsb', L)])
    e_add, e_sub, e_um, e_im = [], [], [], []
    for i in range(N):
        x, y = xs[i], ys[i]
        s = 'RESULT' if L == 0 else 'sum[%d]' % i
        df = 'RESULT' if L == 0 else 'diff[%d]' % i
        e_add.append(('sum_mod_2_32_%d' % i, '%s == (u32)((u64)%s + (u64)%s)' % (s, x, y)))
        e_add.append(('carry_%d' % i, 'carry[%d] == (((u64)%s + (u64)%s) >> 32)' % (i, x, y)))
        e_sub.append(('difference_mod_2_32_%d' % i, '%s == (u32)(%s - %s)' % (df, x, y)))
        e_sub.append(('borrow_%d' % i, 'borrow[%d] == (%s >= %s ? 0u : 1u)' % (i, x, y)))
        e_um.append(('msb_%d' % i, 'msb[%d] == (u32)(((u64)%s * (u64)%s) >> 32)' % (i, x, y)))
        e_um.append(('lsb_%d' % i, 'lsb[%d] == (u32)((u64)%s * (u64)%s)' % (i, x, y)))
        e_im.append(('msb_%d' % i, 'msb[%d] == (u32)((u64)((s64)(s32)%s * (s64)(s32)%s) >> 32)' % (i, x, y)))
        e_im.append(('lsb_%d' % i, 'lsb[%d] == (u32)(u64)((s64)(s32)%s * (s64)(s32)%s)' % (i, x, y)))
    vs = '' if L == 0 else '(vec<%d>)' % L
    C('glm_uaddCarry_' + sfx, 'glm::uaddCarry' + vs, tq, ensures=e_add)
    C('glm_usubBorrow_' + sfx, 'glm::usubBorrow' + vs, tq, ensures=e_sub)
    C('glm_umulExtended_' + sfx, 'glm::umulExtended' + vs, tq, ensures=e_um, backends=('z3', 'cvc5'), timeout=120)
    C('glm_imulExtended_' + sfx, 'glm::imulExtended' + vs, tq, ensures=e_im, backends=('z3', 'cvc5'), timeout=120)

flat = P.build(d, 'flat')
for fn, real, tier, kw in contracts:
    P.contract(fn, real, tier=tier, **kw)

# ---------------------------------------------------------------------------------------------------------------------------
# MODULAR route: findLSB is implemented as bitCount(~v & (v - 1)).  In the -O1 -fno-inline extraction glm::bitCount<T> survives as
# its own function; it gets its own (enforced) contract and findLSB is verified against that CONTRACT, not the ladder's body.
mod = P.build(d, 'modular', tag='c05_modular')
for tag, code in (('i32', 'i'), ('u32', 'j'), ('i64', 'l'), ('u64', 'm')):
    cpp, n, sg = INT_TYPES[tag]
    BC = '_ZN3glm8bitCountI%sEEiT_' % code
    P.contract(BC, 'glm::bitCount<%s>(%s)  %s  [modular, kernel]' % (cpp, cpp, F), build=mod, unwind=65,
               sig={'ret': 'u32', 'ins': [('u%d' % n, 'v')], 'outs': [], 'ir': BC}, assigns=[],
               ensures=[('is_popcount', '(s32)RESULT == spec_popcount(v, %d)' % n)])
    P.contract('glm_findLSB_%s_s' % tag, 'glm::findLSB<%s>  %s  [modular: bitCount replaced by its contract]' % (cpp, F), build=mod, unwind=65,
               replace=[BC], ensures=[('glsl_value', '(s32)RESULT == spec_lsb_index(x, %d)' % n)])

P.level_text = ('each GLSL integer function instantiation (8..64 bit, signed/unsigned, scalar and vec1..4) is proved equal to a '
                'bit-by-bit specification for every argument value in the GLSL domain; symbolic arguments = all 2^N inputs')
P.level_note = 'trusted: clang-14 lowering, ll2c (T-checked), CBMC bit-vector semantics, spec_int.h written from the GLSL 4.20 text quoted in glm/integer.hpp'
P.technique = 'CBMC code contracts (DFCC enforce) on mechanically extracted C, SAT/SMT bit-precise'
P.design_ref = 'DESIGN.md section 6 C05'
P.assumptions = ['the shim table (function x type x shape) is the instantiation set covered; other instantiations are not verified']
P.not_covered = ['bitfieldReverse for 8/16-bit element types: these instantiations do not compile (operator& of vec<L,T> with int), so GLM does not accept those widths', 'func_integer_simd.inl (covered by C03)', 'gtc/integer.inl log2 etc. (C18)']
