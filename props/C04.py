"""C04 - quaternion, matrix, axis-angle and Euler forms of a rotation agree (kind R: over the reals; layout: kind F).

Clauses come from proposed/C04_property.json and from textbook definitions written down in specs/rspec.py
(Hamilton product `qmul`, rotation matrix of a unit quaternion `qrot_matrix`, Rodrigues' matrix `rodrigues`,
single-axis rotation matrices `rotX/rotY/rotZ`), never from the code under verification.
"""
import os
from engine import Prop
from shimgen import *

# kind-R portfolio for this property: the optional case-split engine (tools/rsplit.py) runs before nlsat; it is what
# decides qua(vec3 u, vec3 v) and gtx rotation(), whose terms are nests of if-then-else over sqrt applications
os.environ.setdefault('LL2SMT_ENGINES', 'default,groebner,split,nlsat')

P = Prop('C04', 'quaternion, matrix, axis-angle and Euler forms of a rotation agree')
INCLUDES = ['<glm/glm.hpp>', '<glm/gtc/quaternion.hpp>', '<glm/gtx/quaternion.hpp>', '<glm/gtx/euler_angles.hpp>',
            '<glm/gtx/rotate_vector.hpp>']
d = P.driver('c04', INCLUDES)            # default member order x,y,z,w
dw = P.driver('c04w', INCLUDES)          # the same shims (suffix _wxyz) compiled with GLM_FORCE_QUAT_DATA_WXYZ
contracts = []
fcontracts = []

QT = 'glm/detail/type_quat.inl'
GQ = 'glm/gtc/quaternion.inl'
XQ = 'glm/gtx/quaternion.inl'
EA = 'glm/gtx/euler_angles.inl'
RV = 'glm/gtx/rotate_vector.inl'


def R(fn, real, **kw):
    contracts.append((fn, real, kw))


def F(fn, real, D, ensures):
    fcontracts.append((fn, real, D, ensures))


# ---------------------------------------------------------------------------------------- shim vocabulary
def q_t(tag):
    return 'glm::qua<%s, glm::defaultp>' % cpp_type(tag)


def q_ins(tag, n='q'):
    return [(cpp_type(tag), n + c) for c in 'wxyz']


def q_make(tag, n='q'):
    """the (w, x, y, z) constructor takes w first in every configuration"""
    return '%s(%sw, %sx, %sy, %sz)' % (q_t(tag), n, n, n, n)


def q_store(var, out='out', base=0):
    return ' '.join('%s[%d] = %s.%s;' % (out, base + i, var, c) for i, c in enumerate('wxyz'))


def q_expr(n='q'):
    return '[%sw, %sx, %sy, %sz]' % (n, n, n, n)


def v_expr(L, n):
    return '[%s]' % ', '.join('%s%d' % (n, i) for i in range(L))


def unit(n='q'):
    return ('unit_' + n, 'norm2(%s) == 1' % q_expr(n))


def half(a):
    """the code's argument of sin/cos for a half angle: a * 0.5 (0.5 is exact)"""
    return '%s*R(1)/2' % a


def double_angle(a):
    """true identities linking the full angle to the half angle the code uses"""
    h = half(a)
    return [('cos_double_angle_' + a, 'cos(%s) == 1 - 2*sin(%s)*sin(%s)' % (a, h, h)),
            ('sin_double_angle_' + a, 'sin(%s) == 2*sin(%s)*cos(%s)' % (a, h, h))]


QROT = 'qrot_matrix(%s)' % q_expr()
LAYOUT = []   # (builder function) replayed on the WXYZ driver


def both(fn_builder):
    """register a family on the default driver and, with suffix _wxyz, on the GLM_FORCE_QUAT_DATA_WXYZ driver"""
    fn_builder(d, '')
    fn_builder(dw, '_wxyz')


for tag in ('f32', 'f64'):
    T = cpp_type(tag)
    q, q1, q2 = q_make(tag), q_make(tag, 'p'), q_make(tag, 'r')
    v3i, v4i = vec_ins(3, tag, 'v'), vec_ins(4, tag, 'v')
    V3, V4 = v_expr(3, 'v'), v_expr(4, 'v')
    Q, Q1, Q2 = q_expr(), q_expr('p'), q_expr('r')

    # ------------------------------------------------------------------ q * v  (vec3, vec4) and gtx aliases
    def fam_qv(D, sfx, tag=tag, T=T, q=q, v3i=v3i, V3=V3, Q=Q):
        D.shim('glm_quat_mul_vec3_%s%s' % (tag, sfx), 'void', q_ins(tag) + v3i,
               'auto r = %s * %s; %s' % (q, vec_make(3, tag, 'v'), vec_store(3, 'r')), outs=[(T, 'out', 3)])
        R('glm_quat_mul_vec3_%s%s' % (tag, sfx), 'operator*(qua, vec3)  ' + QT, requires=[unit()],
          ensures=[('is_rotation_matrix_of_q_times_v', 'And(eqv(out, matvec(%s, %s)))' % (QROT, V3)),
                   ('length_preserved', 'norm2(out) == norm2(%s)' % V3)], build=D)
    both(fam_qv)
    # q * vec4 has its own SIMD kernel with a body per storage order (type_quat_simd.inl): both layouts (C03 re-enforces both on SIMD builds)
    def fam_qv4(D, sfx, tag=tag, T=T, q=q, v4i=v4i, V4=V4):
        D.shim('glm_quat_mul_vec4_%s%s' % (tag, sfx), 'void', q_ins(tag) + v4i,
               'auto r = %s * %s; %s' % (q, vec_make(4, tag, 'v'), vec_store(4, 'r')), outs=[(T, 'out', 4)])
        R('glm_quat_mul_vec4_%s%s' % (tag, sfx), 'operator*(qua, vec4)  ' + QT, requires=[unit()],
          ensures=[('is_embedded_rotation_matrix_of_q_times_v', 'And(eqv(out, matvec(embed4(%s), %s)))' % (QROT, V4))], build=D)
    both(fam_qv4)
    d.shim('glm_vec3_mul_quat_' + tag, 'void', v3i + q_ins(tag),
           'auto r = %s * %s; %s' % (vec_make(3, tag, 'v'), q, vec_store(3, 'r')), outs=[(T, 'out', 3)])
    R('glm_vec3_mul_quat_' + tag, 'operator*(vec3, qua) = inverse(q) * v  ' + QT, requires=[unit()],
      ensures=[('is_transposed_rotation_matrix_times_v', 'And(eqv(out, matvec(transpose(%s), %s)))' % (QROT, V3))])
    d.shim('glm_gtx_rotate_quat_vec3_' + tag, 'void', q_ins(tag) + v3i,
           'auto r = glm::rotate(%s, %s); %s' % (q, vec_make(3, tag, 'v'), vec_store(3, 'r')), outs=[(T, 'out', 3)])
    R('glm_gtx_rotate_quat_vec3_' + tag, 'glm::rotate(qua, vec3)  ' + XQ, requires=[unit()],
      ensures=[('is_rotation_matrix_of_q_times_v', 'And(eqv(out, matvec(%s, %s)))' % (QROT, V3))])
    d.shim('glm_gtx_rotate_quat_vec4_' + tag, 'void', q_ins(tag) + v4i,
           'auto r = glm::rotate(%s, %s); %s' % (q, vec_make(4, tag, 'v'), vec_store(4, 'r')), outs=[(T, 'out', 4)])
    R('glm_gtx_rotate_quat_vec4_' + tag, 'glm::rotate(qua, vec4)  ' + XQ, requires=[unit()],
      ensures=[('is_embedded_rotation_matrix_of_q_times_v', 'And(eqv(out, matvec(embed4(%s), %s)))' % (QROT, V4))])
    d.shim('glm_gtx_cross_quat_vec3_' + tag, 'void', q_ins(tag) + v3i,
           'auto r = glm::cross(%s, %s); %s' % (q, vec_make(3, tag, 'v'), vec_store(3, 'r')), outs=[(T, 'out', 3)])
    R('glm_gtx_cross_quat_vec3_' + tag, 'glm::cross(qua, vec3) = q * v  ' + XQ, requires=[unit()],
      ensures=[('is_rotation_matrix_of_q_times_v', 'And(eqv(out, matvec(%s, %s)))' % (QROT, V3))])
    d.shim('glm_gtx_cross_vec3_quat_' + tag, 'void', v3i + q_ins(tag),
           'auto r = glm::cross(%s, %s); %s' % (vec_make(3, tag, 'v'), q, vec_store(3, 'r')), outs=[(T, 'out', 3)])
    R('glm_gtx_cross_vec3_quat_' + tag, 'glm::cross(vec3, qua) = inverse(q) * v  ' + XQ, requires=[unit()],
      ensures=[('is_transposed_rotation_matrix_times_v', 'And(eqv(out, matvec(transpose(%s), %s)))' % (QROT, V3))])

    # ------------------------------------------------------------------ mat3_cast / mat4_cast / toMat3 / toMat4
    def fam_m3(D, sfx, tag=tag, T=T, q=q):
        D.shim('glm_mat3_cast_%s%s' % (tag, sfx), 'void', q_ins(tag), 'auto r = glm::mat3_cast(%s); %s' % (q, mat_store(3, 3, 'r')),
               outs=[(T, 'out', 9)])
        R('glm_mat3_cast_%s%s' % (tag, sfx), 'glm::mat3_cast(qua)  ' + GQ, requires=[unit()],
          ensures=[('is_textbook_rotation_matrix', 'And(eqm(mat(out, 3, 3), %s))' % QROT),
                   ('is_orthonormal', 'And(eqm(matmul(transpose(mat(out, 3, 3)), mat(out, 3, 3)), ident(3)))'),
                   ('determinant_is_one', 'det(mat(out, 3, 3)) == 1')], build=D)
    both(fam_m3)
    d.shim('glm_mat4_cast_' + tag, 'void', q_ins(tag), 'auto r = glm::mat4_cast(%s); %s' % (q, mat_store(4, 4, 'r')), outs=[(T, 'out', 16)])
    R('glm_mat4_cast_' + tag, 'glm::mat4_cast(qua)  ' + GQ, requires=[unit()],
      ensures=[('is_embedded_textbook_rotation_matrix', 'And(eqm(mat(out, 4, 4), embed4(%s)))' % QROT)])
    d.shim('glm_toMat3_' + tag, 'void', q_ins(tag), 'auto r = glm::toMat3(%s); %s' % (q, mat_store(3, 3, 'r')), outs=[(T, 'out', 9)])
    R('glm_toMat3_' + tag, 'glm::toMat3(qua)  glm/gtx/quaternion.hpp', requires=[unit()],
      ensures=[('is_textbook_rotation_matrix', 'And(eqm(mat(out, 3, 3), %s))' % QROT)])
    d.shim('glm_toMat4_' + tag, 'void', q_ins(tag), 'auto r = glm::toMat4(%s); %s' % (q, mat_store(4, 4, 'r')), outs=[(T, 'out', 16)])
    R('glm_toMat4_' + tag, 'glm::toMat4(qua)  glm/gtx/quaternion.hpp', requires=[unit()],
      ensures=[('is_embedded_textbook_rotation_matrix', 'And(eqm(mat(out, 4, 4), embed4(%s)))' % QROT)])

    # ------------------------------------------------------------------ q1 * q2, its matrix
    def fam_qq(D, sfx, tag=tag, T=T, q1=q1, q2=q2, Q1=Q1, Q2=Q2):
        D.shim('glm_quat_mul_quat_%s%s' % (tag, sfx), 'void', q_ins(tag, 'p') + q_ins(tag, 'r'),
               'auto s = %s * %s; %s' % (q1, q2, q_store('s')), outs=[(T, 'out', 4)])
        R('glm_quat_mul_quat_%s%s' % (tag, sfx), 'operator*(qua, qua) / operator*=  ' + QT,
          ensures=[('is_hamilton_product', 'And(eqv(out, qmul(%s, %s)))' % (Q1, Q2)),
                   ('norm_is_multiplicative', 'norm2(out) == norm2(%s) * norm2(%s)' % (Q1, Q2))], build=D)
    both(fam_qq)
    d.shim('glm_mat3_of_product_' + tag, 'void', q_ins(tag, 'p') + q_ins(tag, 'r'),
           'auto a = glm::mat3_cast(%s * %s); auto b = glm::mat3_cast(%s) * glm::mat3_cast(%s); %s %s' % (
               q1, q2, q1, q2, mat_store(3, 3, 'a'), mat_store(3, 3, 'b', out='prod')), outs=[(T, 'out', 9), (T, 'prod', 9)])
    R('glm_mat3_of_product_' + tag, 'mat3_cast(p * r) vs mat3_cast(p) * mat3_cast(r)  %s + %s' % (GQ, QT),
      requires=[unit('p'), unit('r')],
      ensures=[('matrix_of_product_is_product_of_matrices', 'And(eqm(mat(out, 3, 3), mat(prod, 3, 3)))')])
    d.shim('glm_mat3_cast_of_product_' + tag, 'void', q_ins(tag, 'p') + q_ins(tag, 'r'),
           'auto a = glm::mat3_cast(%s * %s); %s' % (q1, q2, mat_store(3, 3, 'a')), outs=[(T, 'out', 9)])
    R('glm_mat3_cast_of_product_' + tag, 'mat3_cast(p * r)  %s + %s' % (GQ, QT), requires=[unit('p'), unit('r')],
      ensures=[('is_product_of_textbook_matrices', 'And(eqm(mat(out, 3, 3), matmul(qrot_matrix(%s), qrot_matrix(%s))))' % (Q1, Q2))],
      tier='thorough')

    # ------------------------------------------------------------------ quat_cast(mat3_cast(q)) = +-q
    def fam_rt(D, sfx, tag=tag, T=T, q=q, Q=Q):
        D.shim('glm_quat_cast_of_mat3_cast_%s%s' % (tag, sfx), 'void', q_ins(tag),
               'auto r = glm::quat_cast(glm::mat3_cast(%s)); %s' % (q, q_store('r')), outs=[(T, 'out', 4)])
        R('glm_quat_cast_of_mat3_cast_%s%s' % (tag, sfx), 'glm::quat_cast(mat3_cast(q))  ' + GQ, requires=[unit()],
          ensures=[('is_q_or_minus_q', 'Or(And(eqv(out, %s)), And(eqv(out, vneg(%s))))' % (Q, Q))], build=D)
    both(fam_rt)


    # ------------------------------------------------------------------ quat_cast: the pivot is the largest candidate ("every 'largest component' branch")
    # Over the reals any branch with a non-zero pivot returns +-q, so the round-trip contract above cannot see WHICH branch is taken; in floats the
    # branch matters (dividing by a small component loses the result to cancellation: seed C04_3 made the z test an `else if`, 13 %% error near the
    # z axis).  For an ARBITRARY matrix (nine free entries, no rotation assumed) the four branches are different functions, which makes the choice
    # observable: whenever one of  t_w = m00+m11+m22, t_x = m00-m11-m22, t_y = m11-m00-m22, t_z = m22-m00-m11  is strictly the largest, the result's
    # component of that name is sqrt(t + 1) / 2 - the component computed directly, not through the division.  Ties are left to the implementation.
    def fam_pivot(D, sfx, tag=tag, T=T):
        m9 = mat_ins(3, 3, tag, 'm')
        TW, TX, TY, TZ = 'm00 + m11 + m22', 'm00 - m11 - m22', 'm11 - m00 - m22', 'm22 - m00 - m11'
        cands = (('w', TW, 0), ('x', TX, 1), ('y', TY, 2), ('z', TZ, 3))
        for nm, tv, k in cands:     # one contract per candidate: each goal costs z3 about 50 s, the four run in parallel
            fnm = 'glm_quat_cast_raw_mat3_pivot_%s_%s%s' % (nm, tag, sfx)
            D.shim(fnm, 'void', m9, 'auto r = glm::quat_cast(%s); %s' % (mat_make(3, 3, tag, 'm'), q_store('r')), outs=[(T, 'out', 4)])
            others = ['(%s) > (%s)' % (tv, ov) for on, ov, _ in cands if on != nm]
            R(fnm, 'glm::quat_cast(mat3)  ' + GQ, build=D, flags=['no-division-obligations'], timeout=240,
              ensures=[('pivot_is_%s_when_its_candidate_is_strictly_largest' % nm, 'Implies(And(%s), out[%d] == sqrt((%s) + 1) * R(1) / 2)' % (', '.join(others), k, tv))])
    both(fam_pivot)

    # ------------------------------------------------------------------ toQuat(toMat3(q)), quat_cast(mat4_cast(q))
    d.shim('glm_quat_cast_of_mat4_cast_' + tag, 'void', q_ins(tag),
           'auto r = glm::quat_cast(glm::mat4_cast(%s)); %s' % (q, q_store('r')), outs=[(T, 'out', 4)])
    R('glm_quat_cast_of_mat4_cast_' + tag, 'glm::quat_cast(mat4_cast(q))  ' + GQ, requires=[unit()],
      ensures=[('is_q_or_minus_q', 'Or(And(eqv(out, %s)), And(eqv(out, vneg(%s))))' % (Q, Q))])
    d.shim('glm_toQuat_of_toMat3_' + tag, 'void', q_ins(tag),
           'auto r = glm::toQuat(glm::toMat3(%s)); %s' % (q, q_store('r')), outs=[(T, 'out', 4)])
    R('glm_toQuat_of_toMat3_' + tag, 'glm::toQuat(toMat3(q))  glm/gtx/quaternion.hpp', requires=[unit()],
      ensures=[('is_q_or_minus_q', 'Or(And(eqv(out, %s)), And(eqv(out, vneg(%s))))' % (Q, Q))])
    d.shim('glm_toQuat_of_toMat4_' + tag, 'void', q_ins(tag),
           'auto r = glm::toQuat(glm::toMat4(%s)); %s' % (q, q_store('r')), outs=[(T, 'out', 4)])
    R('glm_toQuat_of_toMat4_' + tag, 'glm::toQuat(toMat4(q))  glm/gtx/quaternion.hpp', requires=[unit()],
      ensures=[('is_q_or_minus_q', 'Or(And(eqv(out, %s)), And(eqv(out, vneg(%s))))' % (Q, Q))])

    # ------------------------------------------------------------------ conjugate, inverse, dot, length, normalize
    def fam_conj(D, sfx, tag=tag, T=T, q=q, Q=Q):
        D.shim('glm_conjugate_%s%s' % (tag, sfx), 'void', q_ins(tag), 'auto r = glm::conjugate(%s); %s' % (q, q_store('r')), outs=[(T, 'out', 4)])
        R('glm_conjugate_%s%s' % (tag, sfx), 'glm::conjugate(qua)  glm/ext/quaternion_common.inl',
          ensures=[('keeps_w_negates_xyz', 'And(eqv(out, qconj(%s)))' % Q)], build=D)
    both(fam_conj)
    d.shim('glm_inverse_quat_' + tag, 'void', q_ins(tag), 'auto r = glm::inverse(%s); %s' % (q, q_store('r')), outs=[(T, 'out', 4)])
    R('glm_inverse_quat_' + tag, 'glm::inverse(qua)  glm/ext/quaternion_common.inl', requires=[('nonzero', 'norm2(%s) != 0' % Q)],
      ensures=[('is_conjugate_over_squared_norm', 'And(eqv(vscale(out, norm2(%s)), qconj(%s)))' % (Q, Q)),
               ('right_inverse', 'And(eqv(qmul(%s, out), [1, 0, 0, 0]))' % Q),
               ('left_inverse', 'And(eqv(qmul(out, %s), [1, 0, 0, 0]))' % Q)])
    d.shim('glm_quat_times_inverse_' + tag, 'void', q_ins(tag),
           'auto r = %s * glm::inverse(%s); auto l = glm::inverse(%s) * %s; %s %s' % (q, q, q, q, q_store('r'), q_store('l', out='left')),
           outs=[(T, 'out', 4), (T, 'left', 4)])
    R('glm_quat_times_inverse_' + tag, 'q * inverse(q), inverse(q) * q  glm/ext/quaternion_common.inl + ' + QT,
      requires=[('nonzero', 'norm2(%s) != 0' % Q)],
      ensures=[('q_times_inverse_is_identity', 'And(eqv(out, [1, 0, 0, 0]))'),
               ('inverse_times_q_is_identity', 'And(eqv(left, [1, 0, 0, 0]))')])
    d.shim('glm_conjugate_vs_inverse_' + tag, 'void', q_ins(tag),
           'auto c = glm::conjugate(%s); auto i = glm::inverse(%s); %s %s' % (q, q, q_store('c'), q_store('i', out='inv')),
           outs=[(T, 'out', 4), (T, 'inv', 4)])
    R('glm_conjugate_vs_inverse_' + tag, 'conjugate(q) vs inverse(q)  glm/ext/quaternion_common.inl', requires=[unit()],
      ensures=[('conjugate_equals_inverse_for_unit_q', 'And(eqv(out, inv))')])
    d.shim('glm_dot_quat_' + tag, T, q_ins(tag, 'p') + q_ins(tag, 'r'), 'return glm::dot(%s, %s);' % (q1, q2))
    R('glm_dot_quat_' + tag, 'glm::dot(qua, qua)  glm/ext/quaternion_geometric.inl + ' + QT,
      ensures=[('is_sum_of_componentwise_products', 'RESULT == dot(%s, %s)' % (Q1, Q2))])
    d.shim('glm_length_quat_' + tag, T, q_ins(tag), 'return glm::length(%s);' % q)
    R('glm_length_quat_' + tag, 'glm::length(qua)  glm/ext/quaternion_geometric.inl',
      ensures=[('is_nonnegative_root_of_squared_norm', 'And(RESULT >= 0, RESULT * RESULT == norm2(%s))' % Q)])
    d.shim('glm_length2_quat_' + tag, T, q_ins(tag), 'return glm::length2(%s);' % q)
    R('glm_length2_quat_' + tag, 'glm::length2(qua)  ' + XQ, ensures=[('is_squared_norm', 'RESULT == norm2(%s)' % Q)])
    d.shim('glm_normalize_quat_' + tag, 'void', q_ins(tag), 'auto r = glm::normalize(%s); %s' % (q, q_store('r')), outs=[(T, 'out', 4)])
    R('glm_normalize_quat_' + tag, 'glm::normalize(qua)  glm/ext/quaternion_geometric.inl', requires=[('nonzero', 'norm2(%s) != 0' % Q)],
      ensures=[('is_unit', 'norm2(out) == 1'),
               ('is_q_over_its_length', 'And(eqv(vscale(out, sqrt(norm2(%s))), %s))' % (Q, Q))])
    d.shim('glm_cross_quat_quat_' + tag, 'void', q_ins(tag, 'p') + q_ins(tag, 'r'),
           'auto s = glm::cross(%s, %s); %s' % (q1, q2, q_store('s')), outs=[(T, 'out', 4)])
    R('glm_cross_quat_quat_' + tag, 'glm::cross(qua, qua)  glm/ext/quaternion_geometric.inl',
      ensures=[('is_hamilton_product', 'And(eqv(out, qmul(%s, %s)))' % (Q1, Q2))])

    # ------------------------------------------------------------------ angle, axis, angleAxis
    QV = '[qx, qy, qz]'
    # angle(): for w < 0 and |w| > cos(1/2) the code returns 2*pi_T - a with the float constant pi_T, which is not the
    # real number pi: over the reals the supplement identities do not hold for it.  Claimed domain: w >= -7/8.
    DOM = 'qw >= -R(7)/8'
    d.shim('glm_angle_quat_' + tag, T, q_ins(tag), 'return glm::angle(%s);' % q)
    R('glm_angle_quat_' + tag, 'glm::angle(qua)  glm/ext/quaternion_trigonometric.inl', requires=[unit()],
      ensures=[('cos_of_half_angle_is_w', 'Implies(%s, cos(%s) == qw)' % (DOM, half('RESULT'))),
               ('sin_of_half_angle_is_length_of_vector_part',
                'Implies(%s, And(sin(%s) >= 0, sin(%s) * sin(%s) == norm2(%s)))' % (DOM, half('RESULT'), half('RESULT'), half('RESULT'), QV))])
    d.shim('glm_axis_quat_' + tag, 'void', q_ins(tag), 'auto r = glm::axis(%s); %s' % (q, vec_store(3, 'r')), outs=[(T, 'out', 3)])
    R('glm_axis_quat_' + tag, 'glm::axis(qua)  glm/ext/quaternion_trigonometric.inl', requires=[unit()],
      ensures=[('is_unit', 'norm2(out) == 1'),
               ('is_parallel_to_vector_part', 'And(eqv(cross(out, %s), [0, 0, 0]))' % QV),
               ('points_the_same_way', 'dot(out, %s) >= 0' % QV),
               ('scaled_by_sine_of_half_angle_is_vector_part', 'And(eqv(vscale(out, sqrt(1 - qw*qw)), %s))' % QV)])
    n3i = vec_ins(3, tag, 'n')
    N3 = v_expr(3, 'n')
    UNIT_N = ('unit_axis', 'norm2(%s) == 1' % N3)
    AA = '[cos(%s)] + vscale(%s, sin(%s))' % (half('a'), N3, half('a'))
    d.shim('glm_angleAxis_' + tag, 'void', [(T, 'a')] + n3i, 'auto r = glm::angleAxis(a, %s); %s' % (vec_make(3, tag, 'n'), q_store('r')),
           outs=[(T, 'out', 4)])
    R('glm_angleAxis_' + tag, 'glm::angleAxis(angle, axis)  glm/ext/quaternion_trigonometric.inl', requires=[UNIT_N],
      ensures=[('is_cos_half_angle_and_axis_times_sin_half_angle', 'And(eqv(out, %s))' % AA),
               ('is_unit', 'norm2(out) == 1')])
    d.shim('glm_angleAxis_of_angle_axis_' + tag, 'void', q_ins(tag),
           'auto r = glm::angleAxis(glm::angle(%s), glm::axis(%s)); %s' % (q, q, q_store('r')), outs=[(T, 'out', 4)])
    R('glm_angleAxis_of_angle_axis_' + tag, 'glm::angleAxis(angle(q), axis(q))  glm/ext/quaternion_trigonometric.inl', requires=[unit()],
      ensures=[('reproduces_q', 'Implies(%s, And(eqv(out, %s)))' % (DOM, Q))])
    d.shim('glm_mat3_cast_of_angleAxis_' + tag, 'void', [(T, 'a')] + n3i,
           'auto r = glm::mat3_cast(glm::angleAxis(a, %s)); %s' % (vec_make(3, tag, 'n'), mat_store(3, 3, 'r')), outs=[(T, 'out', 9)])
    R('glm_mat3_cast_of_angleAxis_' + tag, 'glm::mat3_cast(angleAxis(a, n))  %s + glm/ext/quaternion_trigonometric.inl' % GQ,
      requires=[UNIT_N] + double_angle('a'),
      ensures=[('is_rodrigues_rotation_matrix', 'And(eqm(mat(out, 3, 3), rodrigues(cos(a), sin(a), %s)))' % N3)])
    d.shim('glm_angleAxis_times_vec3_' + tag, 'void', [(T, 'a')] + n3i + v3i,
           'auto r = glm::angleAxis(a, %s) * %s; %s' % (vec_make(3, tag, 'n'), vec_make(3, tag, 'v'), vec_store(3, 'r')), outs=[(T, 'out', 3)])
    R('glm_angleAxis_times_vec3_' + tag, 'angleAxis(a, n) * v  %s + glm/ext/quaternion_trigonometric.inl' % QT,
      requires=[UNIT_N] + double_angle('a'),
      ensures=[('is_rodrigues_rotation_of_v', 'And(eqv(out, matvec(rodrigues(cos(a), sin(a), %s), %s)))' % (N3, V3))])

    # ------------------------------------------------------------------ rotate(q, angle, axis)
    d.shim('glm_rotate_quat_' + tag, 'void', q_ins(tag) + [(T, 'a')] + n3i,
           'auto r = glm::rotate(%s, a, %s); %s' % (q, vec_make(3, tag, 'n'), q_store('r')), outs=[(T, 'out', 4)])
    R('glm_rotate_quat_' + tag, 'glm::rotate(qua, angle, axis)  glm/ext/quaternion_transform.inl', requires=[UNIT_N],
      ensures=[('is_q_times_axis_angle_quaternion', 'And(eqv(out, qmul(%s, %s)))' % (Q, AA))])

    # ------------------------------------------------------------------ qua(vec3 eulerAngles): pitch = x, yaw = y, roll = z
    e3i = vec_ins(3, tag, 'e')
    QX = '[cos(%s), sin(%s), 0, 0]' % (half('e0'), half('e0'))
    QY = '[cos(%s), 0, sin(%s), 0]' % (half('e1'), half('e1'))
    QZ = '[cos(%s), 0, 0, sin(%s)]' % (half('e2'), half('e2'))
    d.shim('glm_quat_from_euler_' + tag, 'void', e3i, 'auto r = %s(%s); %s' % (q_t(tag), vec_make(3, tag, 'e'), q_store('r')), outs=[(T, 'out', 4)])
    R('glm_quat_from_euler_' + tag, 'qua(vec3 eulerAngles)  ' + QT,
      ensures=[('is_roll_z_times_yaw_y_times_pitch_x', 'And(eqv(out, qmul(qmul(%s, %s), %s)))' % (QZ, QY, QX)),
               ('is_unit', 'norm2(out) == 1')])
    d.shim('glm_mat3_cast_of_quat_from_euler_' + tag, 'void', e3i,
           'auto r = glm::mat3_cast(%s(%s)); %s' % (q_t(tag), vec_make(3, tag, 'e'), mat_store(3, 3, 'r')), outs=[(T, 'out', 9)])
    R('glm_mat3_cast_of_quat_from_euler_' + tag, 'mat3_cast(qua(vec3 eulerAngles))  %s + %s' % (GQ, QT),
      requires=double_angle('e0') + double_angle('e1') + double_angle('e2'),
      ensures=[('is_rotZ_roll_times_rotY_yaw_times_rotX_pitch',
                'And(eqm(mat(out, 3, 3), matmul(matmul(rotZ(cos(e2), sin(e2)), rotY(cos(e1), sin(e1))), rotX(cos(e0), sin(e0)))))')],
      tier='thorough')

    # ------------------------------------------------------------------ qua(vec3 u, vec3 v): rotation taking u to v
    u3i = vec_ins(3, tag, 'u')
    w3i = vec_ins(3, tag, 'w')
    U3, W3 = v_expr(3, 'u'), v_expr(3, 'w')
    d.shim('glm_quat_from_two_vectors_' + tag, 'void', u3i + w3i,
           'auto r = %s(%s, %s); %s' % (q_t(tag), vec_make(3, tag, 'u'), vec_make(3, tag, 'w'), q_store('r')), outs=[(T, 'out', 4)])
    R('glm_quat_from_two_vectors_' + tag, 'qua(vec3 u, vec3 v)  ' + QT,
      requires=[('unit_u', 'norm2(%s) == 1' % U3), ('unit_v', 'norm2(%s) == 1' % W3)],
      ensures=[('is_unit', 'norm2(out) == 1'),
               ('rotates_u_onto_v', 'Implies(dot(%s, %s) >= -R(999)/1000, And(eqv(matvec(qrot_matrix(out), %s), %s)))' % (U3, W3, U3, W3)),
               ('opposite_vectors_give_a_half_turn', 'Implies(And(eqv(%s, vneg(%s))), And(out[0] == 0, eqv(matvec(qrot_matrix(out), %s), %s)))' % (W3, U3, U3, W3)),
               ('axis_is_orthogonal_to_u_and_v', 'Implies(dot(%s, %s) >= -R(999)/1000, And(dot(out[1:], %s) == 0, dot(out[1:], %s) == 0))' % (U3, W3, U3, W3))],
      tier='thorough')

    # the antipodal case on its own (3 free variables instead of 6): the per-change tier keeps it, the general contract above is thorough
    d.shim('glm_quat_from_opposite_vectors_' + tag, 'void', u3i,
           'auto r = %s(%s, -%s); %s' % (q_t(tag), vec_make(3, tag, 'u'), vec_make(3, tag, 'u'), q_store('r')), outs=[(T, 'out', 4)])
    R('glm_quat_from_opposite_vectors_' + tag, 'qua(vec3 u, vec3 -u)  ' + QT,
      requires=[('unit_u', 'norm2(%s) == 1' % U3)],
      ensures=[('is_a_unit_half_turn', 'And(out[0] == 0, norm2(out) == 1)'),
               ('takes_u_to_minus_u', 'And(eqv(matvec(qrot_matrix(out), %s), vneg(%s)))' % (U3, U3))],
      tier='quick')

    # ------------------------------------------------------------------ gtx/euler_angles
    def rot(ax, a):
        return 'embed4(rot%s(cos(%s), sin(%s)))' % (ax, a, a)

    def chain(axes, angles):
        e = rot(axes[0], angles[0])
        for ax, a in zip(axes[1:], angles[1:]):
            e = 'matmul(%s, %s)' % (e, rot(ax, a))
        return e

    def neg_angle(a):
        return [('sin_is_odd_' + a, 'sin(-%s) == -sin(%s)' % (a, a)), ('cos_is_even_' + a, 'cos(-%s) == cos(%s)' % (a, a))]
    names = ['X', 'Y', 'Z', 'XY', 'YX', 'XZ', 'ZX', 'YZ', 'ZY',
             'XYZ', 'YXZ', 'XZX', 'XYX', 'YXY', 'YZY', 'ZYZ', 'ZXZ', 'XZY', 'YZX', 'ZYX', 'ZXY']
    for nm in names:
        angs = ['t%d' % (i + 1) for i in range(len(nm))]
        fn = 'glm_eulerAngle%s_%s' % (nm, tag)
        d.shim(fn, 'void', [(T, a) for a in angs], 'auto r = glm::eulerAngle%s(%s); %s' % (nm, ', '.join(angs), mat_store(4, 4, 'r')),
               outs=[(T, 'out', 16)])
        req = []
        if nm == 'XYZ':   # the code evaluates sin/cos at the negated angles
            for a in angs:
                req += neg_angle(a)
        what = 'is_textbook_rotation_about_' + nm if len(nm) == 1 else 'is_product_of_single_axis_rotations_' + '_'.join(nm)
        R(fn, 'glm::eulerAngle%s  %s' % (nm, EA), requires=req, ensures=[(what, 'And(eqm(mat(out, 4, 4), %s))' % chain(nm, angs))])
    d.shim('glm_yawPitchRoll_' + tag, 'void', [(T, 'yaw'), (T, 'pitch'), (T, 'roll')],
           'auto r = glm::yawPitchRoll(yaw, pitch, roll); %s' % mat_store(4, 4, 'r'), outs=[(T, 'out', 16)])
    R('glm_yawPitchRoll_' + tag, 'glm::yawPitchRoll  ' + EA,
      ensures=[('is_rotY_yaw_times_rotX_pitch_times_rotZ_roll', 'And(eqm(mat(out, 4, 4), %s))' % chain('YXZ', ['yaw', 'pitch', 'roll']))])
    import itertools as _it
    PERMS = 'Or(%s)' % ', '.join('And(eqm(M, %s))' % chain('YXZ', list(p)) for p in _it.permutations(['e0', 'e1', 'e2']))
    d.shim('glm_orientate3_' + tag, 'void', e3i, 'auto r = glm::orientate3(%s); %s' % (vec_make(3, tag, 'e'), mat_store(3, 3, 'r')),
           outs=[(T, 'out', 9)])
    R('glm_orientate3_' + tag, 'glm::orientate3(vec3)  ' + EA,
      ensures=[('is_a_Y_X_Z_product_of_its_three_angles', PERMS.replace('M', 'embed4(mat(out, 3, 3))'))])
    d.shim('glm_orientate4_' + tag, 'void', e3i, 'auto r = glm::orientate4(%s); %s' % (vec_make(3, tag, 'e'), mat_store(4, 4, 'r')),
           outs=[(T, 'out', 16)])
    R('glm_orientate4_' + tag, 'glm::orientate4(vec3)  ' + EA,
      ensures=[('is_a_Y_X_Z_product_of_its_three_angles', PERMS.replace('M', 'mat(out, 4, 4)'))])
    d.shim('glm_orientate3_vs_orientate4_' + tag, 'void', e3i,
           'auto r = glm::orientate3(%s); auto s = glm::orientate4(%s); %s %s' % (
               vec_make(3, tag, 'e'), vec_make(3, tag, 'e'), mat_store(3, 3, 'r'), mat_store(4, 4, 's', out='m4')),
           outs=[(T, 'out', 9), (T, 'm4', 16)])
    R('glm_orientate3_vs_orientate4_' + tag, 'glm::orientate3(vec3) vs orientate4(vec3)  ' + EA,
      ensures=[('orientate4_is_embedded_orientate3', 'And(eqm(mat(m4, 4, 4), embed4(mat(out, 3, 3))))')])
    d.shim('glm_orientate3_angle_' + tag, 'void', [(T, 'a')], 'auto r = glm::orientate3(a); %s' % mat_store(3, 3, 'r'), outs=[(T, 'out', 9)])
    R('glm_orientate3_angle_' + tag, 'glm::orientate3(angle)  ' + EA,
      ensures=[('is_homogeneous_2d_rotation', 'And(eqm(mat(out, 3, 3), rotZ(cos(a), sin(a))))')])
    d.shim('glm_orientate2_' + tag, 'void', [(T, 'a')], 'auto r = glm::orientate2(a); %s' % mat_store(2, 2, 'r'), outs=[(T, 'out', 4)])
    R('glm_orientate2_' + tag, 'glm::orientate2(angle)  ' + EA,
      ensures=[('is_2d_rotation', 'And(eqm(mat(out, 2, 2), [[cos(a), sin(a)], [-sin(a), cos(a)]]))')])

    # ------------------------------------------------------------------ gtx/rotate_vector
    for ax in 'XYZ':
        for L, vi, VV in ((3, v3i, V3), (4, v4i, V4)):
            fn = 'glm_rotate%s_vec%d_%s' % (ax, L, tag)
            d.shim(fn, 'void', vi + [(T, 'a')], 'auto r = glm::rotate%s(%s, a); %s' % (ax, vec_make(L, tag, 'v'), vec_store(L, 'r')),
                   outs=[(T, 'out', L)])
            Mx = 'rot%s(cos(a), sin(a))' % ax
            R(fn, 'glm::rotate%s(vec%d, angle)  %s' % (ax, L, RV),
              ensures=[('is_single_axis_rotation_of_v', 'And(eqv(out, matvec(%s, %s)))' % (Mx if L == 3 else 'embed4(%s)' % Mx, VV))])
    d.shim('glm_rotate_vec2_' + tag, 'void', vec_ins(2, tag, 'v') + [(T, 'a')],
           'auto r = glm::rotate(%s, a); %s' % (vec_make(2, tag, 'v'), vec_store(2, 'r')), outs=[(T, 'out', 2)])
    R('glm_rotate_vec2_' + tag, 'glm::rotate(vec2, angle)  ' + RV,
      ensures=[('is_2d_rotation_of_v', 'And(eqv(out, matvec([[cos(a), sin(a)], [-sin(a), cos(a)]], [v0, v1])))')])
    d.shim('glm_rotate_vec3_axis_' + tag, 'void', v3i + [(T, 'a')] + n3i,
           'auto r = glm::rotate(%s, a, %s); %s' % (vec_make(3, tag, 'v'), vec_make(3, tag, 'n'), vec_store(3, 'r')), outs=[(T, 'out', 3)])
    R('glm_rotate_vec3_axis_' + tag, 'glm::rotate(vec3, angle, normal)  ' + RV, requires=[UNIT_N],
      ensures=[('is_rodrigues_rotation_of_v', 'And(eqv(out, matvec(rodrigues(cos(a), sin(a), %s), %s)))' % (N3, V3))])
    d.shim('glm_rotate_vec4_axis_' + tag, 'void', v4i + [(T, 'a')] + n3i,
           'auto r = glm::rotate(%s, a, %s); %s' % (vec_make(4, tag, 'v'), vec_make(3, tag, 'n'), vec_store(4, 'r')), outs=[(T, 'out', 4)])
    R('glm_rotate_vec4_axis_' + tag, 'glm::rotate(vec4, angle, normal)  ' + RV, requires=[UNIT_N],
      ensures=[('is_rodrigues_rotation_of_v', 'And(eqv(out, matvec(embed4(rodrigues(cos(a), sin(a), %s)), %s)))' % (N3, V4))])


    # ------------------------------------------------------------------ gtx rotation(orig, dest)
    d.shim('glm_gtx_rotation_' + tag, 'void', u3i + w3i,
           'auto r = glm::rotation(%s, %s); %s' % (vec_make(3, tag, 'u'), vec_make(3, tag, 'w'), q_store('r')), outs=[(T, 'out', 4)])
    AWAY = 'And(dot(%s, %s) >= -R(999)/1000, dot(%s, %s) <= R(999)/1000)' % (U3, W3, U3, W3)
    R('glm_gtx_rotation_' + tag, 'glm::rotation(vec3 orig, vec3 dest)  ' + XQ,
      requires=[('unit_orig', 'norm2(%s) == 1' % U3), ('unit_dest', 'norm2(%s) == 1' % W3)],
      ensures=[('is_unit', 'Implies(%s, norm2(out) == 1)' % AWAY),
               ('rotates_orig_onto_dest', 'Implies(%s, And(eqv(matvec(qrot_matrix(out), %s), %s)))' % (AWAY, U3, W3))],
      tier='thorough')

    # ------------------------------------------------------------------ layout (kind F, bitwise, all inputs)
    BITS = 'll2c_f%d_bits' % (32 if tag == 'f32' else 64)
    SIGN = '0x80000000u' if tag == 'f32' else '0x8000000000000000ull'

    def same(a, b):
        return '%s(%s) == %s(%s)' % (BITS, a, BITS, b)

    def fam_layout(D, sfx, tag=tag, T=T, q=q, BITS=BITS, SIGN=SIGN, same=same):
        order = 'wxyz' if D is dw else 'xyzw'
        D.shim('glm_quat_memory_%s%s' % (tag, sfx), 'void', q_ins(tag), '%s s = %s; std::memcpy(out, &s, 4 * sizeof(%s));' % (q_t(tag), q, T),
               outs=[(T, 'out', 4)])
        F('glm_quat_memory_%s%s' % (tag, sfx), 'qua(w, x, y, z) member order in memory  glm/detail/type_quat.hpp', D,
          [('memory_order_is_' + order, ' && '.join(same('out[%d]' % i, 'q' + c) for i, c in enumerate(order)))])
        D.shim('glm_quat_index_%s%s' % (tag, sfx), 'void', q_ins(tag),
               '%s s = %s; %s const& cs = s; %s %s' % (q_t(tag), q, q_t(tag), ' '.join('out[%d] = s[%d];' % (i, i) for i in range(4)),
                                                    ' '.join('out[%d] = cs[%d];' % (4 + i, i) for i in range(4))), outs=[(T, 'out', 8)])
        F('glm_quat_index_%s%s' % (tag, sfx), 'qua::operator[] (non-const and const)  ' + QT, D,
          [('index_order_is_' + order, ' && '.join(same('out[%d]' % (4 * k + i), 'q' + c) for k in range(2) for i, c in enumerate(order)))])
        D.shim('glm_quat_named_ctors_%s%s' % (tag, sfx), 'void', q_ins(tag),
               '%s a = %s; %s b = %s::wxyz(qw, qx, qy, qz); %s c(qw, %s(qx, qy, qz)); %s %s %s' % (
                   q_t(tag), q, q_t(tag), q_t(tag), q_t(tag), vec_t(3, tag), q_store('a'), q_store('b', base=4), q_store('c', base=8)),
               outs=[(T, 'out', 12)])
        F('glm_quat_named_ctors_%s%s' % (tag, sfx), 'qua(w,x,y,z), qua::wxyz(w,x,y,z), qua(s, vec3)  ' + QT, D,
          [('members_by_name_are_the_arguments', ' && '.join(same('out[%d]' % (4 * k + i), 'q' + c) for k in range(3) for i, c in enumerate('wxyz')))])
        D.shim('glm_conjugate_bits_%s%s' % (tag, sfx), 'void', q_ins(tag), 'auto r = glm::conjugate(%s); %s' % (q, q_store('r')), outs=[(T, 'out', 4)])
        F('glm_conjugate_bits_%s%s' % (tag, sfx), 'glm::conjugate(qua)  glm/ext/quaternion_common.inl', D,
          [('w_kept_xyz_sign_flipped_bitwise', same('out[0]', 'qw') + ' && ' + ' && '.join(
              '%s(out[%d]) == (%s(q%s) ^ %s)' % (BITS, i + 1, BITS, c, SIGN) for i, c in enumerate('xyz')))])
    both(fam_layout)

# timeouts are wall clock and the machine is shared: the default engine gets timeout/4, then Groebner, case split, nlsat/2
for fn, real, kw in contracts:
    kw.setdefault('timeout', 480 if ('two_vectors' in fn or 'gtx_rotation' in fn) else 240)

flat = P.build(d, 'flat', defines=['GLM_ENABLE_EXPERIMENTAL'])
flatw = P.build(dw, 'flat', defines=['GLM_ENABLE_EXPERIMENTAL', 'GLM_FORCE_QUAT_DATA_WXYZ'], tag='c04_wxyz')
for fn, real, kw in contracts:
    D = kw.pop('build', d)
    P.contract(fn, real, kind='R', build=(flatw if D is dw else flat), **kw)
for fn, real, D, ens in fcontracts:
    P.contract(fn, real, ensures=ens, build=(flatw if D is dw else flat), unwind=2, backends=('sat',), timeout=120)

# "unchanged under GLM_FORCE_QUAT_DATA_WXYZ" also has to hold for the SIMD kernels, which have one hand-written body per storage order
# (type_quat_simd.inl: quat * vec4, quat * quat, ...): the float contracts of the operator families are kept in this property's own tier on
# GLM_FORCE_INTRINSICS extractions of both layouts at SSE2 (C03 re-enforces the whole module on its SIMD builds as well)
import copy as _copy, re as _re
for _src, _drv, _defs, _tag in ((flat, d, [], 'c04_simd_sse2'), (flatw, dw, ['GLM_FORCE_QUAT_DATA_WXYZ'], 'c04_wxyz_simd_sse2')):
    _sb = P.build(_drv, 'flat', defines=['GLM_ENABLE_EXPERIMENTAL', 'GLM_FORCE_INTRINSICS', 'GLM_FORCE_DEFAULT_ALIGNED_GENTYPES'] + _defs, flags=['-msse2'], tag=_tag)
    _sb.only = set()
    for _c in list(P.contracts):
        if _c.build == _src.tag and _c.kind == 'R' and _c.tier == 'quick' and _re.search(r'^glm_quat_(mul_vec[34]|mul_quat|mul|conjugate|inverse|dot)_f32', _c.fn):
            _c2 = _copy.copy(_c)
            _c2.build = _sb.tag
            _c2.real = '[GLM_FORCE_INTRINSICS, aligned, sse2] ' + _c.real
            _sb.only.add(_c.fn)
            P.contracts.append(_c2)

P.level_text = ('over the reals (machine arithmetic treated as mathematical): the real-valued function computed by the code clang extracts '
                'from /repo equals the textbook object (Hamilton product, rotation matrix of a unit quaternion, Rodrigues matrix, '
                'product of single-axis rotation matrices, q or -q for the matrix->quaternion round trip through every largest-component '
                'branch) for all real inputs satisfying the stated domain, identically in the XYZW and WXYZ builds; decided by z3 '
                'nonlinear real arithmetic / Groebner bases on the extracted IR.  Memory order, operator[] order, constructors by '
                'name and conjugate are in addition proved bit-precisely (CBMC) for all float/double patterns in both layouts')
P.level_note = ('trusted: clang-14 lowering, tools/ll2smt.py symbolic execution (+ tools/rsplit.py case split for two obligations), z3, '
                'sympy Groebner, specs/rspec.py (qmul, qrot_matrix, rodrigues, rotX/Y/Z, matmul), the ground axioms of sqrt/sin/cos/'
                'asin/acos and the trigonometric identities listed under assumptions; blind to rounding, overflow/underflow, NaN/Inf, to '
                'the behaviour of float code within 1e-9 of an axis / of w = +-1 (cancellation), and to the value of the float constant '
                'pi (angle() for w < -7/8)')
P.technique = ('contracts over the reals on mechanically extracted LLVM IR: symbolic execution + z3 QF_NRA / sympy Groebner, '
               'CBMC contracts for bit-exact branch facts')
P.design_ref = 'DESIGN.md sections 5 and 6 C04'
P.assumptions = ['machine arithmetic treated as mathematical (IEEE float/double identified with the reals)',
                 'cos(a) == 1 - 2*sin(a/2)^2 and sin(a) == 2*sin(a/2)*cos(a/2) (double-angle identities; requires of '
                 'mat3_cast(angleAxis), angleAxis*v and mat3_cast(qua(eulerAngles)))',
                 'sin(-a) == -sin(a) and cos(-a) == cos(a) (requires of eulerAngleXYZ, whose code evaluates sin/cos at the negated angles)',
                 'ground axioms of the uninterpreted functions: x >= 0 => sqrt(x) >= 0 and sqrt(x)^2 == x; sin^2 + cos^2 == 1; '
                 '-1 <= c <= 1 => cos(acos c) == c, sin(acos c) >= 0, acos c >= 0; -1 <= s <= 1 => sin(asin s) == s, cos(asin s) >= 0',
                 'Euler-angle convention of qua(vec3 eulerAngles) taken from the documentation (pitch = x, yaw = y, roll = z) and the '
                 'textbook 3-2-1 sequence q = qz(roll) * qy(yaw) * qx(pitch), the sequence whose inverse formulas eulerAngles()/pitch/yaw/roll implement',
                 'orientate3/orientate4(vec3): the documentation says (Y * X * Z) without assigning the components of the argument to the '
                 'axes; the clause accepts any assignment (a permutation)']
P.not_covered = ['extractEulerAngleABC (12 functions), eulerAngles/pitch/yaw/roll: inverses through atan2/asin with epsilon singularity guards; '
                 'no sound axiom-level clause over uninterpreted atan2',
                 'angle(q) and angleAxis(angle(q), axis(q)) for w < -7/8: on |w| > cos(1/2), w < 0 the code returns 2*pi_T - a with the float '
                 'constant pi_T, which is not the real number pi, so the identity is not a theorem over the reals (claimed domain: w >= -7/8)',
                 'qua(vec3 u, vec3 v) for -1 < u.v < -0.999 (the code switches to a half turn about an arbitrary orthogonal axis below '
                 '-1 + 1e-6: approximate by design); exactly opposite vectors are covered',
                 'gtx rotation(orig, dest) for |orig.dest| > 0.999 (epsilon guards return the identity / a guessed axis: approximate by design)',
                 'rotate(qua, angle, axis) for a non-unit axis (normalised by the code only when |len - 1| > 0.001)',
                 'quat_cast on matrices that are not rotation matrices; quatLookAt*, mix/slerp/lerp/squad/intermediate/exp/log/pow, '
                 'derivedEulerAngle*, gtx slerp(vec3)/orientation, gtx/dual_quaternion',
                 'rounding, cancellation near w = +-1 and near the axes (the property statement asks for inputs within 1e-9 of an axis: '
                 'over the reals they are covered, in float arithmetic they are not)',
                 'T-check (generated C vs real code, bitwise) skips every input of the f32 shims through mat3_cast: clang leaves '
                 'unused poison lanes in <4 x float> operations and ll2c flags any poison operand (kind R does not use ll2c)']
