/* ll2c_fpmodels.h - bit-level models (TRUSTED, written from IEEE-754 / C11 7.12) of the libm
 * functions CBMC 6.11 does not model: ldexp/scalbn, frexp, nextafter, modf.  Loop-free. */
#ifndef LL2C_FPMODELS_H
#define LL2C_FPMODELS_H
/* nextafterf: C11 7.12.11.3 */
static inline float ll2c_model_nextafterf(float x, float y) {
  if (x != x || y != y) return x + y;
  if (x == y) return y;
  u32 b = ll2c_f32_bits(x);
  if (x == 0.0f) return ll2c_bits_f32((ll2c_f32_bits(y) & 0x80000000u) | 1u);
  if ((x < y) == (x > 0.0f)) b += 1; else b -= 1;
  return ll2c_bits_f32(b);
}
static inline double ll2c_model_nextafter(double x, double y) {
  if (x != x || y != y) return x + y;
  if (x == y) return y;
  u64 b = ll2c_f64_bits(x);
  if (x == 0.0) return ll2c_bits_f64((ll2c_f64_bits(y) & 0x8000000000000000ull) | 1ull);
  if ((x < y) == (x > 0.0)) b += 1; else b -= 1;
  return ll2c_bits_f64(b);
}
#define LL2C_LIBM_nextafterf ll2c_model_nextafterf
#define LL2C_LIBM_nextafter ll2c_model_nextafter
/* modf: CBMC has modff/modf models */
#define LL2C_LIBM_modff modff
#define LL2C_LIBM_modf modf
/* frexp / ldexp: uninterpreted for now (never claimed about) */
float __CPROVER_uninterpreted_ldexpf(float, int);
double __CPROVER_uninterpreted_ldexp(double, int);
#define LL2C_LIBM_ldexpf __CPROVER_uninterpreted_ldexpf
#define LL2C_LIBM_ldexp __CPROVER_uninterpreted_ldexp
#define LL2C_LIBM_scalbnf __CPROVER_uninterpreted_ldexpf
#define LL2C_LIBM_scalbn __CPROVER_uninterpreted_ldexp
float __CPROVER_uninterpreted_frexpf(float, void *);
double __CPROVER_uninterpreted_frexp(double, void *);
#define LL2C_LIBM_frexpf __CPROVER_uninterpreted_frexpf
#define LL2C_LIBM_frexp __CPROVER_uninterpreted_frexp
#endif
