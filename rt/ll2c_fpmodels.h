/* ll2c_fpmodels.h - bit-level models (TRUSTED, written from IEEE-754 / C11 7.12) of the libm
 * functions CBMC 6.11 does not model: ldexp/scalbn, frexp, nextafter, modf.  Loop-free. */
#ifndef LL2C_FPMODELS_H
#define LL2C_FPMODELS_H
/* nextafterf: C11 7.12.11.3 */
static inline float ll2c_model_nextafterf(float x, float y) {
  if (x != x || y != y) return x + y;
  if (x == y) return y;
  u32 b = ll2c_f32_bits(x);
  if (x == 0.0f) return ll2c_bits_f32((ll2c_f32_bits(y) & 0x80000000u) | 1u);
  if ((x < y) == (x > 0.0f)) b += 1; else b -= 1;
  return ll2c_bits_f32(b);
}
static inline double ll2c_model_nextafter(double x, double y) {
  if (x != x || y != y) return x + y;
  if (x == y) return y;
  u64 b = ll2c_f64_bits(x);
  if (x == 0.0) return ll2c_bits_f64((ll2c_f64_bits(y) & 0x8000000000000000ull) | 1ull);
  if ((x < y) == (x > 0.0)) b += 1; else b -= 1;
  return ll2c_bits_f64(b);
}
#define LL2C_LIBM_nextafterf ll2c_model_nextafterf
#define LL2C_LIBM_nextafter ll2c_model_nextafter
/* modf: CBMC has modff/modf models */
#define LL2C_LIBM_modff modff
#define LL2C_LIBM_modf modf
/* frexp / ldexp: uninterpreted for now (never claimed about) */
float __CPROVER_uninterpreted_ldexpf(float, int);
double __CPROVER_uninterpreted_ldexp(double, int);
#define LL2C_LIBM_ldexpf __CPROVER_uninterpreted_ldexpf
#define LL2C_LIBM_ldexp __CPROVER_uninterpreted_ldexp
#define LL2C_LIBM_scalbnf __CPROVER_uninterpreted_ldexpf
#define LL2C_LIBM_scalbn __CPROVER_uninterpreted_ldexp
float __CPROVER_uninterpreted_frexpf(float, void *);
double __CPROVER_uninterpreted_frexp(double, void *);
#define LL2C_LIBM_frexpf __CPROVER_uninterpreted_frexpf
#define LL2C_LIBM_frexp __CPROVER_uninterpreted_frexp
/* fmin/fmax (C11 F.10.9.2-3, LLVM minnum/maxnum): the sign of the result for (+0,-0)/(-0,+0) is unspecified.  Modelled as
 * an uninterpreted (deterministic, argument-dependent) choice so that no clause can depend on it, while two extractions
 * calling fmin on the same arguments still agree. */
_Bool __CPROVER_uninterpreted_fminmax_zero_sign32(u32, u32);
_Bool __CPROVER_uninterpreted_fminmax_zero_sign64(u64, u64);
static inline float ll2c_fminf(float a, float b) {
  if (a == 0.0f && b == 0.0f && ll2c_f32_bits(a) != ll2c_f32_bits(b)) {
    u32 x = ll2c_f32_bits(a), y = ll2c_f32_bits(b);
    return __CPROVER_uninterpreted_fminmax_zero_sign32(x < y ? x : y, x < y ? y : x) ? -0.0f : 0.0f;
  }
  return fminf(a, b);
}
static inline float ll2c_fmaxf(float a, float b) {
  if (a == 0.0f && b == 0.0f && ll2c_f32_bits(a) != ll2c_f32_bits(b)) {
    u32 x = ll2c_f32_bits(a), y = ll2c_f32_bits(b);
    return __CPROVER_uninterpreted_fminmax_zero_sign32((x < y ? x : y) ^ 1u, x < y ? y : x) ? -0.0f : 0.0f;
  }
  return fmaxf(a, b);
}
static inline double ll2c_fmin(double a, double b) {
  if (a == 0.0 && b == 0.0 && ll2c_f64_bits(a) != ll2c_f64_bits(b)) {
    u64 x = ll2c_f64_bits(a), y = ll2c_f64_bits(b);
    return __CPROVER_uninterpreted_fminmax_zero_sign64(x < y ? x : y, x < y ? y : x) ? -0.0 : 0.0;
  }
  return fmin(a, b);
}
static inline double ll2c_fmax(double a, double b) {
  if (a == 0.0 && b == 0.0 && ll2c_f64_bits(a) != ll2c_f64_bits(b)) {
    u64 x = ll2c_f64_bits(a), y = ll2c_f64_bits(b);
    return __CPROVER_uninterpreted_fminmax_zero_sign64((x < y ? x : y) ^ 1ull, x < y ? y : x) ? -0.0 : 0.0;
  }
  return fmax(a, b);
}
#endif
