/* ll2c_rt.h - runtime for C emitted by tools/ll2c.py.
 * Two modes:  -DLL2C_CBMC (verification: poison/undef are nondeterministic values, traps are
 * assertions) and native (translator validation: poison sets a flag so the T-check skips the
 * comparison, traps abort). */
#ifndef LL2C_RT_H
#define LL2C_RT_H
#include <stdint.h>
#include <stddef.h>

typedef uint8_t u8;
typedef uint16_t u16;
typedef uint32_t u32;
typedef uint64_t u64;
typedef unsigned __int128 u128;
typedef int8_t s8;
typedef int16_t s16;
typedef int32_t s32;
typedef int64_t s64;
typedef __int128 s128;

#ifdef LL2C_CBMC
u8 nondet_u8(void);
u16 nondet_u16(void);
u32 nondet_u32(void);
u64 nondet_u64(void);
u128 nondet_u128(void);
float nondet_float(void);
double nondet_double(void);
char *nondet_ptr(void);
/* poison = "some value no clause may rely on": an uninterpreted function of the (model-level) operand bits, so that two
 * extractions executing the same operation on the same bits still agree (relational contracts), while nothing can be
 * proved about the value itself */
u64 __CPROVER_uninterpreted_ll2c_poison(u64);
#define LL2C_POISON(T, cond, val) ((cond) ? (T)__CPROVER_uninterpreted_ll2c_poison((u64)(val)) : (T)(val))
#define LL2C_UNDEF(T) ((T)nondet_##T())
#define LL2C_UNDEF_F32 nondet_float()
#define LL2C_UNDEF_F64 nondet_double()
#define LL2C_UNDEF_PTR nondet_ptr()
#define LL2C_UNDEFQ(T) ((T)nondet_##T())
#define LL2C_UNDEFQ_F32 nondet_float()
#define LL2C_UNDEFQ_F64 nondet_double()
#define LL2C_UNDEFQ_PTR nondet_ptr()
#define LL2C_TRAP(msg)                 \
  do {                                 \
    __CPROVER_assert(0, msg);          \
    __CPROVER_assume(0);               \
  } while (0)
#define LL2C_CHECK(c, msg) __CPROVER_assert((c), msg)
#define LL2C_LOAD(T, p) (*(T *)(p))
#define LL2C_STORE(T, p, v) (*(T *)(p) = (v))
#define LL2C_ALIGNED(n) __attribute__((aligned(n)))
#define LL2C_INTPTR(c) ((char *)0 + (c))
#define LL2C_PTRTOINT(p) (__CPROVER_POINTER_OBJECT(p) == 0 ? (u64)__CPROVER_POINTER_OFFSET(p) : ((u64)4096 * (u64)__CPROVER_POINTER_OBJECT(p) + (u64)__CPROVER_POINTER_OFFSET(p)))
#else
#include <string.h>
#include <stdlib.h>
#include <stdio.h>
#include <math.h>
extern int ll2c_poison_seen;
extern int ll2c_trap_seen;
extern const char *ll2c_trap_msg;
#define LL2C_POISON(T, cond, val) ((cond) ? (ll2c_poison_seen = 1, (T)(val)) : (T)(val))
#define LL2C_UNDEF(T) (ll2c_poison_seen = 1, (T)0)
#define LL2C_UNDEF_F32 (ll2c_poison_seen = 1, 0.0f)
#define LL2C_UNDEF_F64 (ll2c_poison_seen = 1, 0.0)
#define LL2C_UNDEF_PTR (ll2c_poison_seen = 1, (char *)0)
#define LL2C_UNDEFQ(T) ((T)0)
#define LL2C_UNDEFQ_F32 0.0f
#define LL2C_UNDEFQ_F64 0.0
#define LL2C_UNDEFQ_PTR ((char *)0)
#include <setjmp.h>
extern jmp_buf ll2c_trap_jmp;
#define LL2C_TRAP(msg)            \
  do {                            \
    ll2c_trap_seen = 1;           \
    ll2c_trap_msg = msg;          \
    longjmp(ll2c_trap_jmp, 1);    \
  } while (0)
#define LL2C_CHECK(c, msg) \
  do {                     \
    if (!(c)) LL2C_TRAP(msg); \
  } while (0)
#define LL2C_DEFLOAD(T)                               \
  static inline T ll2c_load_##T(const void *p) {      \
    T v;                                              \
    memcpy(&v, p, sizeof v);                          \
    return v;                                         \
  }                                                   \
  static inline void ll2c_store_##T(void *p, T v) { memcpy(p, &v, sizeof v); }
LL2C_DEFLOAD(u8)
LL2C_DEFLOAD(u16)
LL2C_DEFLOAD(u32)
LL2C_DEFLOAD(u64)
LL2C_DEFLOAD(u128)
LL2C_DEFLOAD(float)
LL2C_DEFLOAD(double)
typedef char *ll2c_ptr;
LL2C_DEFLOAD(ll2c_ptr)
#define LL2C_PTRTOINT(p) ((u64)(uintptr_t)(p))
#define LL2C_INTPTR(c) ((char *)(uintptr_t)(c))
#define LL2C_LOAD(T, p) ll2c_load_##T(p)
#define LL2C_STORE(T, p, v) ll2c_store_##T(p, v)
#define LL2C_ALIGNED(n) __attribute__((aligned(n)))
#endif
#ifdef LL2C_CBMC
typedef char *ll2c_ptr;
#endif

/* relational abstraction of float operations (only emitted when a contract asks for it) */
#if defined(LL2C_CBMC) && defined(LL2C_NO_UF)
/* exact-arithmetic refinement run: the clause-side spellings are the plain IEEE / integer operations */
#define LL2C_UF2(name, op, a, b) ((a)op(b))
#define LL2C_UFCALL(name) name
#elif defined(LL2C_CBMC)
#define LL2C_UF2(name, op, a, b) ll2c_uf_##name((a), (b))
#define LL2C_UFCALL(name) __CPROVER_uninterpreted_uf_##name
float __CPROVER_uninterpreted_fadd_f32(float, float);
float __CPROVER_uninterpreted_fsub_f32(float, float);
double __CPROVER_uninterpreted_fadd_f64(double, double);
double __CPROVER_uninterpreted_fsub_f64(double, double);
float __CPROVER_uninterpreted_fmul_f32(float, float);
float __CPROVER_uninterpreted_fdiv_f32(float, float);
double __CPROVER_uninterpreted_fmul_f64(double, double);
double __CPROVER_uninterpreted_fdiv_f64(double, double);
#else
#define LL2C_UF2(name, op, a, b) ((a)op(b))
#define LL2C_UFCALL(name) name
#endif

#ifdef LL2C_CBMC
#define LL2C_X86APPROX(fn, x) __CPROVER_uninterpreted_x86_##fn(x)
#else
#define LL2C_X86APPROX(fn, x) ll2c_native_##fn(x)
#if defined(__SSE__)
#include <xmmintrin.h>
static inline float ll2c_native_rsqrt(float x) { return _mm_cvtss_f32(_mm_rsqrt_ss(_mm_set_ss(x))); }
static inline float ll2c_native_rcp(float x) { return _mm_cvtss_f32(_mm_rcp_ss(_mm_set_ss(x))); }
#endif
#endif

/* bit casts */
static inline u32 ll2c_f32_bits(float f) {
  union {
    float f;
    u32 u;
  } x;
  x.f = f;
  return x.u;
}
static inline float ll2c_bits_f32(u32 u) {
  union {
    float f;
    u32 u;
  } x;
  x.u = u;
  return x.f;
}
static inline u64 ll2c_f64_bits(double f) {
  union {
    double f;
    u64 u;
  } x;
  x.f = f;
  return x.u;
}
static inline double ll2c_bits_f64(u64 u) {
  union {
    double f;
    u64 u;
  } x;
  x.u = u;
  return x.f;
}

#ifdef LL2C_CBMC
/* multiplication is abstracted as a COMMUTATIVE uninterpreted function (operands ordered by bit pattern) */
static inline float ll2c_uf_fmul_f32(float a, float b) { int le = ll2c_f32_bits(a) <= ll2c_f32_bits(b); float lo = le ? a : b, hi = le ? b : a; return __CPROVER_uninterpreted_fmul_f32(lo, hi); }
static inline double ll2c_uf_fmul_f64(double a, double b) { int le = ll2c_f64_bits(a) <= ll2c_f64_bits(b); double lo = le ? a : b, hi = le ? b : a; return __CPROVER_uninterpreted_fmul_f64(lo, hi); }
static inline float ll2c_uf_fadd_f32(float a, float b) { int le = ll2c_f32_bits(a) <= ll2c_f32_bits(b); float lo = le ? a : b, hi = le ? b : a; return __CPROVER_uninterpreted_fadd_f32(lo, hi); }
static inline double ll2c_uf_fadd_f64(double a, double b) { int le = ll2c_f64_bits(a) <= ll2c_f64_bits(b); double lo = le ? a : b, hi = le ? b : a; return __CPROVER_uninterpreted_fadd_f64(lo, hi); }
static inline float ll2c_uf_fsub_f32(float a, float b) { return __CPROVER_uninterpreted_fsub_f32(a, b); }
static inline double ll2c_uf_fsub_f64(double a, double b) { return __CPROVER_uninterpreted_fsub_f64(a, b); }
static inline float ll2c_uf_fdiv_f32(float a, float b) { return __CPROVER_uninterpreted_fdiv_f32(a, b); }
static inline double ll2c_uf_fdiv_f64(double a, double b) { return __CPROVER_uninterpreted_fdiv_f64(a, b); }
#endif
#ifdef LL2C_CBMC
u64 __CPROVER_uninterpreted_ll2c_imul(u64, u64, u64);
u64 __CPROVER_uninterpreted_ll2c_udiv(u64, u64, u64);
u64 __CPROVER_uninterpreted_ll2c_urem(u64, u64, u64);
u64 __CPROVER_uninterpreted_ll2c_sdiv(u64, u64, u64);
u64 __CPROVER_uninterpreted_ll2c_srem(u64, u64, u64);
static inline u64 ll2c_ufi_mul(u64 n, u64 a, u64 b) { return a <= b ? __CPROVER_uninterpreted_ll2c_imul(n, a, b) : __CPROVER_uninterpreted_ll2c_imul(n, b, a); }
#define ll2c_ufi_udiv __CPROVER_uninterpreted_ll2c_udiv
#define ll2c_ufi_urem __CPROVER_uninterpreted_ll2c_urem
#define ll2c_ufi_sdiv __CPROVER_uninterpreted_ll2c_sdiv
#define ll2c_ufi_srem __CPROVER_uninterpreted_ll2c_srem
#ifndef LL2C_NO_UF
#define LL2C_UFI(op, n, a, b) ll2c_ufi_##op((u64)(n), (a), (b))
#endif
#endif
#if !defined(LL2C_CBMC) || defined(LL2C_NO_UF)
static inline u64 ll2c_nat_mul(unsigned n, u64 a, u64 b) { return a * b; }
static inline u64 ll2c_nat_udiv(unsigned n, u64 a, u64 b) { return b ? a / b : 0; }
static inline u64 ll2c_nat_urem(unsigned n, u64 a, u64 b) { return b ? a % b : 0; }
static inline u64 ll2c_nat_sdiv(unsigned n, u64 a, u64 b) { s64 x = n >= 64 ? (s64)a : (s64)((a ^ (1ull << (n - 1))) - (1ull << (n - 1))), y = n >= 64 ? (s64)b : (s64)((b ^ (1ull << (n - 1))) - (1ull << (n - 1))); return (y == 0 || (y == -1 && x == (s64)(1ull << 63))) ? 0 : (u64)(x / y); }
static inline u64 ll2c_nat_srem(unsigned n, u64 a, u64 b) { s64 x = n >= 64 ? (s64)a : (s64)((a ^ (1ull << (n - 1))) - (1ull << (n - 1))), y = n >= 64 ? (s64)b : (s64)((b ^ (1ull << (n - 1))) - (1ull << (n - 1))); return (y == 0 || y == -1) ? 0 : (u64)(x % y); }
#define LL2C_UFI(op, n, a, b) ll2c_nat_##op((n), (a), (b))
#endif
/* clause-side spellings of the same abstraction (plain arithmetic natively) */
#define SPEC_FADD32(a, b) LL2C_UF2(fadd_f32, +, (float)(a), (float)(b))
#define SPEC_FSUB32(a, b) LL2C_UF2(fsub_f32, -, (float)(a), (float)(b))
#define SPEC_FADD64(a, b) LL2C_UF2(fadd_f64, +, (double)(a), (double)(b))
#define SPEC_FSUB64(a, b) LL2C_UF2(fsub_f64, -, (double)(a), (double)(b))
#define SPEC_FMUL32(a, b) LL2C_UF2(fmul_f32, *, (float)(a), (float)(b))
#define SPEC_FDIV32(a, b) LL2C_UF2(fdiv_f32, /, (float)(a), (float)(b))
#define SPEC_FMUL64(a, b) LL2C_UF2(fmul_f64, *, (double)(a), (double)(b))
#define SPEC_FDIV64(a, b) LL2C_UF2(fdiv_f64, /, (double)(a), (double)(b))

/* sign extension of the low n bits of x (x held zero-extended) */
static inline s32 ll2c_sext32(u32 x, unsigned n) { return n >= 32 ? (s32)x : (s32)((x ^ (1u << (n - 1))) - (1u << (n - 1))) ; }
static inline s64 ll2c_sext64(u64 x, unsigned n) { return n >= 64 ? (s64)x : (s64)((x ^ (1ull << (n - 1))) - (1ull << (n - 1))); }
static inline s128 ll2c_sext128(u128 x, unsigned n) { return n >= 128 ? (s128)x : (s128)((x ^ ((u128)1 << (n - 1))) - ((u128)1 << (n - 1))); }

/* integer intrinsics (loop-free so that no unwinding is needed) */
static inline u64 ll2c_ctpop(u64 x) {
  x = (x & 0x5555555555555555ull) + ((x >> 1) & 0x5555555555555555ull);
  x = (x & 0x3333333333333333ull) + ((x >> 2) & 0x3333333333333333ull);
  x = (x & 0x0f0f0f0f0f0f0f0full) + ((x >> 4) & 0x0f0f0f0f0f0f0f0full);
  x = (x & 0x00ff00ff00ff00ffull) + ((x >> 8) & 0x00ff00ff00ff00ffull);
  x = (x & 0x0000ffff0000ffffull) + ((x >> 16) & 0x0000ffff0000ffffull);
  x = (x & 0x00000000ffffffffull) + (x >> 32);
  return x;
}
static inline u64 ll2c_ctlz(u64 x, unsigned n) { /* n-bit value, returns n for 0 */
  u64 y = x;
  y |= y >> 1;
  y |= y >> 2;
  y |= y >> 4;
  y |= y >> 8;
  y |= y >> 16;
  y |= y >> 32;
  return n - ll2c_ctpop(y);
}
static inline u64 ll2c_cttz(u64 x, unsigned n) { /* returns n for 0 */
  if (x == 0) return n;
  return ll2c_ctpop((x & (0 - x)) - 1);
}
static inline u64 ll2c_bitreverse64(u64 x) {
  x = ((x >> 1) & 0x5555555555555555ull) | ((x & 0x5555555555555555ull) << 1);
  x = ((x >> 2) & 0x3333333333333333ull) | ((x & 0x3333333333333333ull) << 2);
  x = ((x >> 4) & 0x0f0f0f0f0f0f0f0full) | ((x & 0x0f0f0f0f0f0f0f0full) << 4);
  x = ((x >> 8) & 0x00ff00ff00ff00ffull) | ((x & 0x00ff00ff00ff00ffull) << 8);
  x = ((x >> 16) & 0x0000ffff0000ffffull) | ((x & 0x0000ffff0000ffffull) << 16);
  x = (x >> 32) | (x << 32);
  return x;
}
static inline u64 ll2c_bswap64(u64 x) {
  x = ((x >> 8) & 0x00ff00ff00ff00ffull) | ((x & 0x00ff00ff00ff00ffull) << 8);
  x = ((x >> 16) & 0x0000ffff0000ffffull) | ((x & 0x0000ffff0000ffffull) << 16);
  x = (x >> 32) | (x << 32);
  return x;
}
#endif
