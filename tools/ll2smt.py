#!/usr/bin/env python3-vt
"""ll2smt.py - kind R obligations: symbolic execution of the extracted LLVM IR over the REALS.

float/double values are z3 Real terms: fadd/fsub/fmul/fdiv/fneg are + - * /, fcmp is real comparison (no NaN),
select/phi are ite on path conditions, fpext/fptrunc are the identity, memory is a concrete map
(base, byte offset) -> value (all pointers in eligible functions are base + constant), calls to functions
defined in the module are executed recursively, sqrt/sin/cos/tan/acos/asin/atan2/pow/exp/log are
Ackermannised uninterpreted functions constrained by the listed ground axioms.
MACHINE ARITHMETIC IS TREATED AS MATHEMATICAL: rounding, overflow, NaN/Inf are invisible here.

Contract clauses are Python expressions over the shim's parameter names, RESULT, the out buffers (lists) and
the helper library specs/rspec.py, evaluated once with z3 terms (proof) and, for replay, with floats.

usage: ll2smt.py job.json   (job: ll, fn, sig, requires, ensures, timeout_s)  -> JSON on stdout
"""
import sys, os, json, time, math, fractions, traceback, struct
HERE = os.path.dirname(os.path.abspath(__file__))
sys.path.insert(0, HERE)
sys.path.insert(0, os.path.join(os.path.dirname(HERE), 'specs'))
import z3
from llir import *


class NotEligible(Exception):
    pass


def is_ptr(v):
    return isinstance(v, tuple) and len(v) == 3 and v[0] == 'ptr'


def is_mptr(v):
    return isinstance(v, tuple) and len(v) == 2 and v[0] == 'mptr'


def ite_leaves(e, limit=12):
    """an integer that is a python int or an if-then-else tree over integer numerals (an index selected by comparisons, or loaded from
    a constant table through such an index) -> [(condition, int)], the conditions being exhaustive and exclusive"""
    if isinstance(e, bool):
        return None
    if isinstance(e, int):
        return [(z3.BoolVal(True), e)]
    if not z3.is_expr(e):
        return None
    e = z3.simplify(e)
    out = []

    def walk(x, cond):
        if len(out) > limit:
            return False
        if z3.is_int_value(x):
            out.append((cond, x.as_long()))
            return True
        if z3.is_app_of(x, z3.Z3_OP_ITE):
            c, a, b = x.children()
            return walk(a, z3.And(cond, c)) and walk(b, z3.And(cond, z3.Not(c)))
        return False
    if not walk(e, z3.BoolVal(True)) or len(out) > limit:
        return None
    by = {}
    for c, v in out:
        by.setdefault(v, []).append(c)
    return [(z3.simplify(z3.Or(*cs)), v) for v, cs in by.items()]


class Mask:
    """a 32-bit lane that is all-ones when cond holds and all-zeros otherwise (result of a SIMD comparison).  It supports no
    arithmetic: it can only be moved (shuffles, bitcasts between equally sized vector types, phi/select) and tested for its sign bit"""

    def __init__(self, cond):
        self.cond = cond


def is_raw(v):
    """bit-pattern carriers produced by bitcasts: ('raw32', lane) / ('raw64', lo lane, hi lane); a lane is the z3 Real term of the
    float whose bits occupy these 32 bits, or a Mask.  They are only moved around, never used arithmetically."""
    return isinstance(v, tuple) and len(v) >= 2 and v[0] in ('raw32', 'raw64')


class UFs:
    """Ackermannised uninterpreted real functions with ground axioms"""

    def __init__(self):
        self.apps = {}   # name -> list of (args tuple, result var)
        self.axioms = []
        self.used = set()
        self.n = 0

    def app(self, name, *args):
        args = tuple(z3.simplify(a) if isinstance(a, z3.ExprRef) else z3.RealVal(a) for a in args)
        if name == 'floor':   # interpreted: z3's to_int on a real is the mathematical floor
            self.used.add('floor (interpreted: to_real(to_int(x)))')
            return z3.ToReal(z3.ToInt(args[0]))
        lst = self.apps.setdefault(name, [])
        for (a, r) in lst:
            if all(x.eq(y) for x, y in zip(a, args)):
                return r
        self.n += 1
        r = z3.Real('%s!%d' % (name, self.n))
        # congruence with earlier applications
        for (a, r0) in lst:
            self.axioms.append(z3.Implies(z3.And(*[x == y for x, y in zip(a, args)]), r == r0))
        lst.append((args, r))
        self.used.add(name)
        self.ground(name, args, r)
        return r

    def ground(self, name, args, r):
        ax = self.axioms
        if name == 'sqrt':
            x = args[0]
            ax.append(z3.Implies(x >= 0, z3.And(r >= 0, r * r == x)))
        elif name in ('sin', 'cos'):
            other = 'cos' if name == 'sin' else 'sin'
            o = self.app(other, *args) if not self._has(other, args) else self._get(other, args)
            ax.append(r * r + o * o == 1)
            ax.append(z3.And(r >= -1, r <= 1))
            if z3.is_rational_value(args[0]) and args[0].numerator_as_long() == 0:
                ax.append(r == (0 if name == 'sin' else 1))
        elif name == 'tan':
            s = self.app('sin', *args)
            c = self.app('cos', *args)
            ax.append(z3.Implies(c != 0, r * c == s))
        elif name == 'acos':
            x = args[0]
            c = self.app('cos', r)
            s = self.app('sin', r)
            ax.append(z3.Implies(z3.And(x >= -1, x <= 1), z3.And(c == x, s >= 0, r >= 0)))
        elif name == 'asin':
            x = args[0]
            c = self.app('cos', r)
            s = self.app('sin', r)
            ax.append(z3.Implies(z3.And(x >= -1, x <= 1), z3.And(s == x, c >= 0)))
        elif name == 'pow':
            x, y = args
            ax.append(z3.Implies(y == 1, r == x))
            ax.append(z3.Implies(z3.And(x == 1), r == 1))
            ax.append(z3.Implies(z3.And(x == 0, y > 0), r == 0))
            ax.append(z3.Implies(x > 0, r > 0))
        elif name == 'exp':
            ax.append(r > 0)

    def _has(self, name, args):
        return any(all(x.eq(y) for x, y in zip(a, args)) for (a, r) in self.apps.get(name, []))

    def _get(self, name, args):
        for (a, r) in self.apps.get(name, []):
            if all(x.eq(y) for x, y in zip(a, args)):
                return r


LIBM_UF = {}
for _n in ('sqrt', 'sin', 'cos', 'tan', 'asin', 'acos', 'atan', 'sinh', 'cosh', 'tanh', 'asinh', 'acosh', 'atanh',
           'exp', 'log', 'exp2', 'log2', 'log10', 'cbrt'):
    LIBM_UF[_n] = (_n, 1)
    LIBM_UF[_n + 'f'] = (_n, 1)
for _n in ('atan2', 'pow', 'hypot', 'fmod'):
    LIBM_UF[_n] = (_n, 2)
    LIBM_UF[_n + 'f'] = (_n, 2)


MEMSET_ZERO = z3.RealVal(0)   # the value of the 4-byte cells written by llvm.memset(p, 0, n); identity-tested in mload


class Exec:
    def __init__(self, mod, ufs):
        self.mod = mod
        self.ufs = ufs
        self.nbase = 0
        self.div_obls = []   # (path condition, denominator)
        self.pc_stack = [z3.BoolVal(True)]
        self.nfresh = 0
        self.depth = 0

    def fresh(self, hint='u'):
        self.nfresh += 1
        return z3.Real('%s!%d' % (hint, self.nfresh))

    def new_base(self, hint):
        self.nbase += 1
        return '%s#%d' % (hint, self.nbase)

    # ------------------------------------------------------------- values
    def const(self, v, ty, env):
        ty = self.mod.resolve(ty)
        k = v[0]
        if k == 'local':
            if v[1] not in env:
                raise NotEligible('use of undefined %' + v[1])
            return env[v[1]]
        if k == 'int':
            if ty[0] == 'int' and ty[1] == 1:
                return z3.BoolVal(bool(v[1] & 1))
            n = ty[1]
            x = v[1] & ((1 << n) - 1)
            if x >= (1 << (n - 1)):
                x -= (1 << n)
            return x
        if k == 'fp':
            d = struct.unpack('<d', struct.pack('<Q', v[1]))[0]
            if math.isnan(d) or math.isinf(d):
                raise NotEligible('NaN/Inf constant')
            f = fractions.Fraction(d)
            return z3.RealVal(f)
        if k == 'zero':
            return self.zero(ty)
        if k in ('undef', 'poison'):
            return self.undef(ty)
        if k == 'null':
            return ('ptr', None, 0)
        if k == 'vec' or k == 'array':
            return [self.const(ev, et, env) for (et, ev) in v[1]]
        if k == 'struct':
            return [self.const(ev, et, env) for (et, ev) in v[1]]
        if k == 'global':
            return ('ptr', '@' + v[1], 0)
        if k == 'cexpr':
            if v[1] in ('bitcast',):
                return self.const(v[2][1], v[2][0], env)
            if v[1] == 'getelementptr':
                p = self.const(v[3][1], v[3][0], env)
                off = self.gep_off(v[2], v[4], env)
                return ('ptr', p[1], p[2] + off)
        raise NotEligible('constant %r' % (v,))

    def zero(self, ty):
        k = ty[0]
        if k in ('float', 'double'):
            return z3.RealVal(0)
        if k == 'int':
            return z3.BoolVal(False) if ty[1] == 1 else 0
        if k in ('vector', 'array'):
            return [self.zero(self.mod.resolve(ty[2])) for _ in range(ty[1])]
        if k == 'struct':
            return [self.zero(self.mod.resolve(f)) for f in ty[1]]
        if k == 'ptr':
            return ('ptr', None, 0)
        raise NotEligible('zero of %r' % (ty,))

    def undef(self, ty):
        k = ty[0]
        if k in ('float', 'double'):
            return self.fresh('undef')
        if k == 'int':
            return None
        if k in ('vector', 'array'):
            return [self.undef(self.mod.resolve(ty[2])) for _ in range(ty[1])]
        if k == 'struct':
            return [self.undef(self.mod.resolve(f)) for f in ty[1]]
        return None

    def gep_off(self, bt, idx, env, dynamic=False):
        """byte offset of a GEP; with dynamic=True an index may be an if-then-else tree over integer constants (Row[i][i] with i chosen
        by comparisons): the result is then a list [(condition, offset)] with exhaustive, exclusive conditions"""
        alts = [(None, 0)]
        t = bt
        for j, (it, iv) in enumerate(idx):
            v = self.const(iv, it, env)
            if isinstance(v, int) and not isinstance(v, bool):
                vs = [(None, v)]
            else:
                vs = ite_leaves(v) if dynamic else None
                if vs is None:
                    raise NotEligible('dynamic GEP index')
            if j == 0:
                sz = self.mod.sizeof(t)
                step = lambda x: x * sz
            else:
                rt = self.mod.resolve(t)
                if rt[0] == 'struct':
                    if len(vs) != 1:
                        raise NotEligible('dynamic struct field index')
                    fo = self.mod.field_offset(rt, vs[0][1])
                    t = rt[1][vs[0][1]]
                    step = lambda x: fo
                elif rt[0] in ('array', 'vector'):
                    t = rt[2]
                    sz = self.mod.sizeof(t)
                    step = lambda x: x * sz
                else:
                    raise NotEligible('GEP into scalar')
            alts = [(c2 if c1 is None else c1 if c2 is None else z3.And(c1, c2), o + step(x)) for c1, o in alts for c2, x in vs]
            if len(alts) > 16:
                raise NotEligible('dynamic GEP index with too many alternatives')
        if len(alts) == 1 and alts[0][0] is None:
            return alts[0][1]
        if not dynamic:
            raise NotEligible('dynamic GEP index')
        return [(z3.BoolVal(True) if c is None else c, o) for c, o in alts]

    # ------------------------------------------------------------- memory
    def mload(self, mem, p, ty):
        ty = self.mod.resolve(ty)
        if is_mptr(p):
            return self.merge_val([(c, self.mload(mem, ('ptr', b, o), ty)) for c, b, o in p[1]])
        if not is_ptr(p) or p[1] is None:
            raise NotEligible('load through non-tracked pointer')
        k = ty[0]
        if k in ('vector', 'array'):
            es = self.mod.sizeof(ty[2])
            return [self.mload(mem, ('ptr', p[1], p[2] + i * es), ty[2]) for i in range(ty[1])]
        if k == 'struct':
            return [self.mload(mem, ('ptr', p[1], p[2] + self.mod.field_offset(ty, i)), f) for i, f in enumerate(ty[1])]
        cell = mem.get(p[1], {}).get(p[2])
        sz = self.mod.sizeof(ty)
        if cell is None:
            if p[1].startswith('@'):
                return self.gload(p[1][1:], p[2], ty)
            # uninitialised: fresh value
            if k in ('float', 'double'):
                return self.fresh('uninit')
            raise NotEligible('load of uninitialised non-float memory %r' % (p,))
        val, csz = cell
        if csz != sz:
            # i64 load of two floats etc. (ABI coercion): keep as raw tuple
            if k == 'int' and sz == 8 and csz == 4:
                hi = mem.get(p[1], {}).get(p[2] + 4)
                if hi is not None and hi[1] == 4:
                    return ('raw64', val, hi[0])
                if hi is None and not p[1].startswith('@') and not any(p[2] + 4 <= o < p[2] + 8 or (o < p[2] + 4 and o + c_[1] > p[2] + 4)
                                                                       for o, c_ in mem.get(p[1], {}).items() if o != p[2]):
                    return ('raw64', val, None)              # upper 4 bytes never written (the unused w lane of an aligned vec3): undef lane
            if k == 'double' and sz == 8 and csz == 4 and val is not MEMSET_ZERO:
                # movsd/movlps-style load of two adjacent floats through a double-typed pointer (SIMD shuffles): a bit-pattern carrier,
                # usable only by moves and by the bitcast back to float lanes (any arithmetic on it is not eligible)
                hi = mem.get(p[1], {}).get(p[2] + 4)
                if hi is not None and hi[1] == 4:
                    return ('raw64', val, hi[0])
            if k == 'double' and sz == 8 and csz == 4 and val is MEMSET_ZERO:
                hi = mem.get(p[1], {}).get(p[2] + 4)
                if hi is not None and hi[1] == 4 and hi[0] is MEMSET_ZERO:
                    return z3.RealVal(0)   # 8 zero bytes written by memset(0), read back as a double: +0.0
            raise NotEligible('load size %d over cell of size %d' % (sz, csz))
        if k in ('float', 'double') and isinstance(val, tuple) and val and val[0] == 'raw64':
            raise NotEligible('float load over packed raw value')
        return val

    def local_static_never_written(self, gname):
        """a function-local static (_ZZ...: nameable only inside its function, whose every copy is this code) that the module only ever
        reads: all uses are getelementptr/bitcast chains ending in loads.  Such a table (static int Next[3] = {1, 2, 0}) keeps its initializer."""
        cache = self.__dict__.setdefault('_ro_cache', {})
        if gname in cache:
            return cache[gname]

        def mentions(v, pred):
            if isinstance(v, (tuple, list)):
                if len(v) == 2 and v[0] in ('global', 'local') and pred(v):
                    return True
                return any(mentions(x, pred) for x in v)
            return False
        ok = gname.startswith('_ZZ')
        if ok:
            for f in self.mod.funcs.values():
                if not f.defined:
                    continue
                tainted = set()
                pred = lambda v: (v[0] == 'global' and v[1] == gname) or (v[0] == 'local' and v[1] in tainted)
                changed = True
                while changed and ok:
                    changed = False
                    for b in f.blocks:
                        for ins in b.instrs:
                            hit = mentions(ins.ops, pred) or mentions(ins.extra.get('inc', ()), pred) or mentions(ins.extra.get('args', ()), pred)
                            if not hit:
                                continue
                            if ins.op in ('getelementptr', 'bitcast'):
                                if ins.res not in tainted:
                                    tainted.add(ins.res)
                                    changed = True
                            elif ins.op == 'load':
                                pass
                            else:
                                ok = False
        cache[gname] = ok
        return ok

    def gload(self, gname, off, ty):
        g = self.mod.globals.get(gname)
        if not g or g['init'] is None or not (g['const'] or self.local_static_never_written(gname)):
            raise NotEligible('load from non-constant global')
        # walk the initializer
        t = self.mod.resolve(g['ty'])
        v = g['init']
        cur = 0
        while True:
            if t == ty or (t[0] in ('float', 'double', 'int') and cur == off):
                return self.const(v, t, {})
            if t[0] in ('array', 'vector'):
                es = self.mod.sizeof(t[2])
                i = (off - cur) // es
                cur += i * es
                if v[0] == 'zero':
                    return self.zero(ty)
                et, ev = v[1][i]
                t, v = self.mod.resolve(et), ev
            elif t[0] == 'struct':
                for i, f in enumerate(t[1]):
                    fo = self.mod.field_offset(t, i)
                    if cur + fo <= off < cur + fo + self.mod.sizeof(f):
                        cur += fo
                        if v[0] == 'zero':
                            return self.zero(ty)
                        et, ev = v[1][i]
                        t, v = self.mod.resolve(et), ev
                        break
                else:
                    raise NotEligible('global offset')
            else:
                raise NotEligible('global load shape')

    def mstore(self, mem, p, ty, v):
        ty = self.mod.resolve(ty)
        if is_mptr(p):
            if ty[0] not in ('float', 'double'):
                raise NotEligible('store of a non-float through a dynamically indexed pointer')
            for c, b, o in p[1]:
                q = ('ptr', b, o)
                old = self.mload(mem, q, ty)        # a cell never written before reads as a fresh value
                self.mstore(mem, q, ty, self.merge_val([(c, v), (z3.Not(c), old)]))
            return
        if not is_ptr(p) or p[1] is None:
            raise NotEligible('store through non-tracked pointer')
        k = ty[0]
        if k in ('vector', 'array'):
            es = self.mod.sizeof(ty[2])
            for i in range(ty[1]):
                self.mstore(mem, ('ptr', p[1], p[2] + i * es), ty[2], v[i])
            return
        if k == 'struct':
            for i, f in enumerate(ty[1]):
                self.mstore(mem, ('ptr', p[1], p[2] + self.mod.field_offset(ty, i)), f, v[i])
            return
        sz = self.mod.sizeof(ty)
        if isinstance(v, tuple) and v and v[0] == 'raw64' and sz == 8:
            b = mem.setdefault(p[1], {})
            b[p[2]] = (v[1], 4)
            b[p[2] + 4] = (v[2], 4)
            return
        if isinstance(v, tuple) and v and v[0] == 'raw32' and sz == 4:
            v = v[1]                                         # the bits of a float stored through an i32 pointer: that float
        b = mem.setdefault(p[1], {})
        # kill overlapping cells
        for o in list(b.keys()):
            if o != p[2] and o < p[2] + sz and p[2] < o + b[o][1]:
                del b[o]
        b[p[2]] = (v, sz)

    @staticmethod
    def copy_mem(mem):
        return {b: dict(c) for b, c in mem.items()}

    def merge_val(self, conds_vals):
        """conds_vals: [(cond, value)] -> ite chain; values may be lists"""
        vals = [v for c, v in conds_vals]
        v0 = vals[0]
        if isinstance(v0, list):
            return [self.merge_val([(c, v[i]) for c, v in conds_vals]) for i in range(len(v0))]
        same = True
        for v in vals[1:]:
            if not self.same(v0, v):
                same = False
                break
        if same:
            return v0
        if any(is_raw(v) or isinstance(v, Mask) for v in vals):
            return self.merge_raw(conds_vals)
        if all(v is None or is_ptr(v) or is_mptr(v) for v in vals) and any(is_mptr(v) for v in vals) or \
                (all(v is None or is_ptr(v) for v in vals) and len({v for v in vals if v is not None}) > 1 and
                 all(v[1] is not None for v in vals if v is not None)):
            # pointers to different cells merged by a phi/select: a multi-pointer (finitely many cells, selected by conditions)
            by = {}
            for c, v in conds_vals:
                if v is None:
                    continue
                for c2, b, o in (v[1] if is_mptr(v) else ((z3.BoolVal(True), v[1], v[2]),)):
                    by.setdefault((b, o), []).append(z3.And(c, c2))
            if len(by) > 16:
                raise NotEligible('pointer merge with too many alternatives')
            return ('mptr', tuple((z3.simplify(z3.Or(*cs)), b, o) for (b, o), cs in by.items()))
        r = None
        for c, v in reversed(conds_vals):
            if v is None:
                continue
            if isinstance(v, (int, float)) and not isinstance(v, bool):
                pass
            if is_ptr(v) or isinstance(v, tuple):
                if r is None:
                    r = v
                    continue
                if r == v:
                    continue
                raise NotEligible('merge of distinct pointers')
            v = self.z(v)
            r = v if r is None else z3.If(c, v, r)
        return r

    def merge_raw(self, conds_vals):
        """ite over bit-pattern carriers (raw32/raw64/Mask), lane by lane; the integer constant 0 is the all-zero pattern"""
        kind, n = None, None
        if any(is_raw(v) and v[0] == 'raw64' for c, v in conds_vals):
            # a double CONSTANT among 64-bit carriers (clang prints the image of two packed floats as a double literal): use its bits
            conds_vals = [(c, struct.unpack('<q', struct.pack('<d', v.numerator_as_long() / v.denominator_as_long()))[0]
                           if (z3.is_expr(v) and z3.is_rational_value(v)) else v) for c, v in conds_vals]
        for c, v in conds_vals:
            if is_raw(v):
                k, m = v[0], len(v) - 1
            elif isinstance(v, Mask):
                k, m = 'mask', 1
            elif v is None or (isinstance(v, int) and not isinstance(v, bool)):
                continue                                     # integer constant: its 32-bit fields are float bit patterns (below)
            else:
                raise NotEligible('merge of a bit-pattern value with an arithmetic value')
            if kind not in (None, k):
                raise NotEligible('merge of bit-pattern values of different widths')
            kind, n = k, m
        per = []
        for c, v in conds_vals:
            if v is None:
                continue
            if isinstance(v, int):
                # constant integer merged with float bit patterns (e.g. the <2 x i64> image of vec3(0, 0, 1)): each 32-bit field is the
                # float with these bits; 0 stays "all-zero bits" (None here) so that it can also stand for a false comparison mask
                lanes = []
                for i in range(n):
                    u = (v >> (32 * i)) & 0xffffffff
                    if u == 0:
                        lanes.append(None)
                    else:
                        f = struct.unpack('<f', struct.pack('<I', u))[0]
                        if math.isnan(f) or math.isinf(f):
                            raise NotEligible('NaN/Inf bit pattern')
                        lanes.append(z3.RealVal(fractions.Fraction(f)))
                per.append((c, lanes))
                continue
            per.append((c, [v] if isinstance(v, Mask) else list(v[1:])))
        out = []
        for i in range(n):
            items = [(c, ls[i]) for c, ls in per]
            if any(isinstance(x, Mask) for c, x in items):
                if not all(x is None or isinstance(x, Mask) for c, x in items):
                    raise NotEligible('merge of a comparison mask with a float lane')
                r = None
                for c, x in reversed(items):
                    cnd = z3.BoolVal(False) if x is None else x.cond
                    r = cnd if r is None else z3.If(c, cnd, r)
                out.append(Mask(r))
            else:
                out.append(self.merge_val([(c, z3.RealVal(0) if x is None else x) for c, x in items]))
        if kind == 'mask':
            return out[0]
        return (kind,) + tuple(out)

    # ------------------------------------------------------------- bit patterns that are only moved (SIMD shuffles through other lane types)
    def lanes32(self, v, ty):
        """value v of type ty as a list of 32-bit lanes (z3 Real term = the bits of that float, Mask, None = undef)"""
        ty = self.mod.resolve(ty)
        k = ty[0]
        if k == 'vector':
            out = []
            for x in v:
                out += self.lanes32(x, ty[2])
            return out
        sz = self.mod.sizeof(ty)
        if sz not in (4, 8):
            raise NotEligible('bitcast of %r' % (ty,))
        n = sz // 4
        if v is None:
            return [None] * n
        if isinstance(v, Mask) and n == 1:
            return [v]
        if is_raw(v) and len(v) - 1 == n:
            return list(v[1:])
        if isinstance(v, int) and not isinstance(v, bool) and v == 0 and k == 'int':
            return [z3.RealVal(0)] * n                       # all-zero bits are the bits of +0.0f
        if k == 'float' and z3.is_expr(v):
            return [v]
        if k == 'double' and z3.is_expr(v) and z3.is_rational_value(v) and v.numerator_as_long() == 0:
            return [z3.RealVal(0)] * 2
        raise NotEligible('bitcast of an arithmetic %s value' % k)

    def from_lanes32(self, lanes, ty):
        ty = self.mod.resolve(ty)
        k = ty[0]
        if k == 'vector':
            n = self.mod.sizeof(ty[2]) // 4
            if n not in (1, 2):
                raise NotEligible('bitcast to %r' % (ty,))
            return [self.from_lanes32(lanes[i * n:(i + 1) * n], ty[2]) for i in range(ty[1])]
        if k == 'float':
            return lanes[0]                                  # a z3 term, a Mask (usable only by moves / sign tests) or None
        if k == 'int' and ty[1] == 32:
            return None if lanes[0] is None else ('raw32', lanes[0])
        if (k == 'int' and ty[1] == 64) or k == 'double':
            if lanes[0] is None and lanes[1] is None:
                return None
            return ('raw64', lanes[0], lanes[1])
        raise NotEligible('bitcast to %r' % (ty,))

    @staticmethod
    def z(v):
        if isinstance(v, bool):
            return z3.BoolVal(v)
        if isinstance(v, int):
            return z3.IntVal(v)
        return v

    @staticmethod
    def same(a, b):
        if isinstance(a, z3.ExprRef) and isinstance(b, z3.ExprRef):
            return a.eq(b)
        if isinstance(a, z3.ExprRef) or isinstance(b, z3.ExprRef):
            return False
        return a == b

    def merge_mem(self, conds_mems):
        if len(conds_mems) == 1:
            return self.copy_mem(conds_mems[0][1])
        out = {}
        bases = set()
        for c, m in conds_mems:
            bases |= set(m.keys())
        for b in bases:
            offs = set()
            for c, m in conds_mems:
                offs |= set(m.get(b, {}).keys())
            for o in offs:
                cells = [(c, m.get(b, {}).get(o)) for c, m in conds_mems]
                present = [(c, cell) for c, cell in cells if cell is not None]
                sizes = {cell[1] for c, cell in present}
                if len(sizes) != 1:
                    continue  # inconsistent cell shapes: drop (later load -> NotEligible/fresh)
                sz = sizes.pop()
                cv = []
                for c, cell in cells:
                    if cell is None:
                        cv.append((c, self.fresh('uninit')))
                    else:
                        cv.append((c, cell[0]))
                out.setdefault(b, {})[o] = (self.merge_val(cv), sz)
        return out

    # ------------------------------------------------------------- execution
    def run(self, fname, args, mem):
        f = self.mod.funcs.get(fname)
        if f is None or not f.defined:
            raise NotEligible('no body for ' + fname)
        self.depth += 1
        if self.depth > 40:
            raise NotEligible('call depth')
        env = {}
        for (t, nm, at), a in zip(f.params, args):
            env[nm] = a
        blocks = {b.label: b for b in f.blocks}
        order = self.topo(f)
        preds = {b.label: [] for b in f.blocks}
        for b in f.blocks:
            for s in f.succs(b):
                preds[s].append(b.label)
        pc = {}
        edge = {}    # (from, to) -> cond
        mem_out = {}
        rets = []
        entry = f.blocks[0].label
        for lab in order:
            b = blocks[lab]
            if lab == entry:
                pc[lab] = z3.BoolVal(True)
                m = mem
            else:
                inc = [(edge[(p, lab)], mem_out[p]) for p in preds[lab] if (p, lab) in edge]
                if not inc:
                    continue  # unreachable
                pc[lab] = z3.simplify(z3.Or(*[c for c, _ in inc]))
                m = self.merge_mem(inc)
            self.pc_stack.append(z3.And(self.pc_stack[-1], pc[lab]))
            for ins in b.instrs:
                if ins.op == 'phi':
                    cv = []
                    for (iv, il) in ins.extra['inc']:
                        if (il, lab) in edge:
                            cv.append((edge[(il, lab)], self.const(iv, ins.ty, env)))
                    env[ins.res] = self.merge_val(cv)
                    continue
                if ins.op == 'br':
                    if 'dest' in ins.extra:
                        edge[(lab, ins.extra['dest'])] = pc[lab]
                    else:
                        c = self.const(ins.ops[0], ('int', 1), env)
                        c = self.z(c)
                        edge[(lab, ins.extra['t'])] = z3.And(pc[lab], c)
                        edge[(lab, ins.extra['f'])] = z3.And(pc[lab], z3.Not(c))
                    break
                if ins.op == 'switch':
                    v = self.const(ins.ops[0], ins.ty, env)
                    others = []
                    for cv_, l in ins.extra['cases']:
                        cval = self.const(cv_, ins.ty, env)
                        cnd = (self.z(v) == self.z(cval))
                        if isinstance(v, int):
                            cnd = z3.BoolVal(v == cval)
                        others.append(cnd)
                        prev = edge.get((lab, l))
                        e = z3.And(pc[lab], cnd)
                        edge[(lab, l)] = e if prev is None else z3.Or(prev, e)
                    d = z3.And(pc[lab], z3.Not(z3.Or(*others))) if others else pc[lab]
                    prev = edge.get((lab, ins.extra['default']))
                    edge[(lab, ins.extra['default'])] = d if prev is None else z3.Or(prev, d)
                    break
                if ins.op == 'ret':
                    rv = None if ins.ty == ('void',) else self.const(ins.ops[0], ins.ty, env)
                    rets.append((pc[lab], rv, m))
                    break
                if ins.op == 'unreachable':
                    break
                self.step(ins, env, m)
            mem_out[lab] = m
            self.pc_stack.pop()
        self.depth -= 1
        if not rets:
            raise NotEligible('no return')
        if len(rets) == 1:
            return rets[0][1], rets[0][2]
        rv = None
        if rets[0][1] is not None:
            rv = self.merge_val([(c, v) for c, v, m in rets])
        return rv, self.merge_mem([(c, m) for c, v, m in rets])

    def topo(self, f):
        blocks = {b.label: b for b in f.blocks}
        state = {}
        order = []

        def dfs(l):
            state[l] = 1
            for s in f.succs(blocks[l]):
                if state.get(s) == 1:
                    raise NotEligible('loop in CFG of ' + f.name)
                if s not in state:
                    dfs(s)
            state[l] = 2
            order.append(l)
        sys.setrecursionlimit(10000)
        dfs(f.blocks[0].label)
        return list(reversed(order))

    def step(self, ins, env, mem):
        op = ins.op
        m = self.mod
        C = lambda v, t: self.const(v, t, env)
        if ins.flags & FMF:
            raise NotEligible('fast-math flags')
        if op in ('fadd', 'fsub', 'fmul', 'fdiv'):
            a, b = C(ins.ops[0], ins.ty), C(ins.ops[1], ins.ty)
            env[ins.res] = self.lift2(lambda x, y: self.farith(op, x, y), a, b)
            return
        if op == 'fneg':
            env[ins.res] = self.lift1(lambda x: -x, C(ins.ops[0], ins.ty))
            return
        if op == 'fcmp':
            a, b = C(ins.ops[0], ins.ty), C(ins.ops[1], ins.ty)
            pred = ins.extra['pred']
            tbl = {'oeq': lambda x, y: x == y, 'ueq': lambda x, y: x == y, 'one': lambda x, y: x != y, 'une': lambda x, y: x != y,
                   'ogt': lambda x, y: x > y, 'ugt': lambda x, y: x > y, 'oge': lambda x, y: x >= y, 'uge': lambda x, y: x >= y,
                   'olt': lambda x, y: x < y, 'ult': lambda x, y: x < y, 'ole': lambda x, y: x <= y, 'ule': lambda x, y: x <= y,
                   'ord': lambda x, y: z3.BoolVal(True), 'uno': lambda x, y: z3.BoolVal(False),
                   'true': lambda x, y: z3.BoolVal(True), 'false': lambda x, y: z3.BoolVal(False)}
            env[ins.res] = self.lift2(tbl[pred], a, b)
            return
        if op == 'icmp':
            a, b = C(ins.ops[0], ins.ty), C(ins.ops[1], ins.ty)
            pred = ins.extra['pred']
            if is_ptr(a) or is_ptr(b):
                if pred in ('eq', 'ne'):
                    r = (a == b)
                    env[ins.res] = z3.BoolVal(r if pred == 'eq' else not r)
                    return
                raise NotEligible('pointer compare')
            f = {'eq': lambda x, y: x == y, 'ne': lambda x, y: x != y, 'slt': lambda x, y: x < y, 'sle': lambda x, y: x <= y,
                 'sgt': lambda x, y: x > y, 'sge': lambda x, y: x >= y, 'ult': lambda x, y: x < y, 'ule': lambda x, y: x <= y,
                 'ugt': lambda x, y: x > y, 'uge': lambda x, y: x >= y}[pred]

            def g(x, y):
                if x is None or y is None:
                    raise NotEligible('compare of undef')
                if isinstance(x, tuple) and x and x[0] == 'bits':
                    if isinstance(y, int) and y == 0 and pred in ('eq', 'ne'):
                        anyb = z3.Or(*x[1])
                        return z3.Not(anyb) if pred == 'eq' else anyb
                    raise NotEligible('movemask result used other than compared with 0')
                if is_raw(x) or isinstance(x, Mask):
                    # sign-bit test of a 32-bit lane (movmskps / blendv idiom): x <s 0  or  x >s -1
                    lane = x[1] if is_raw(x) and x[0] == 'raw32' else x if isinstance(x, Mask) else None
                    if lane is None or not isinstance(y, int) or (pred, y) not in (('slt', 0), ('sgt', -1)):
                        raise NotEligible('integer compare of a bit-pattern value')
                    if isinstance(lane, Mask):
                        neg = lane.cond
                    else:
                        self.ufs.used.add('sign bit of a float lane (interpreted: x < 0; there is no negative zero over the reals)')
                        neg = lane < 0
                    return neg if pred == 'slt' else z3.Not(neg)
                r = f(self.z(x), self.z(y)) if not (isinstance(x, int) and isinstance(y, int)) else f(x, y)
                return z3.BoolVal(r) if isinstance(r, bool) else r
            env[ins.res] = self.lift2(g, a, b)
            return
        if op in ('sdiv', 'srem'):
            # signed integer division truncates towards zero (integers are unbounded here, like add/sub/mul; a zero divisor is UB in the source
            # and gets a division obligation like the float divisions)
            a, b = C(ins.ops[0], ins.ty), C(ins.ops[1], ins.ty)

            def tdiv(x, y):
                if isinstance(x, int) and isinstance(y, int) and not isinstance(x, bool) and not isinstance(y, bool):
                    if y == 0:
                        raise NotEligible('constant division by zero')
                    q = abs(x) // abs(y)
                    q = q if (x >= 0) == (y > 0) else -q
                    return q if op == 'sdiv' else x - y * q
                x, y = self.z(x), self.z(y)
                if not (z3.is_int(x) and z3.is_int(y)):
                    raise NotEligible(op + ' of non-integer values')
                self.div_obls.append((self.pc_stack[-1], y))
                ax, ay = z3.If(x >= 0, x, -x), z3.If(y >= 0, y, -y)
                q = ax / ay
                q = z3.If((x >= 0) == (y > 0), q, -q)
                return q if op == 'sdiv' else x - y * q
            env[ins.res] = self.lift2(tdiv, a, b)
            return
        if op in ('add', 'sub', 'mul'):
            a, b = C(ins.ops[0], ins.ty), C(ins.ops[1], ins.ty)
            f = {'add': lambda x, y: x + y, 'sub': lambda x, y: x - y, 'mul': lambda x, y: x * y}[op]
            env[ins.res] = self.lift2(lambda x, y: f(x, y) if (isinstance(x, int) and isinstance(y, int)) else f(self.z(x), self.z(y)), a, b)
            return
        if op == 'lshr':
            a, b = C(ins.ops[0], ins.ty), C(ins.ops[1], ins.ty)

            def sh(x, y):
                if is_raw(x) and x[0] == 'raw64' and isinstance(y, int) and y == 32:
                    return ('raw64', x[2], z3.RealVal(0))    # high float lane moved down, zero bits above
                if isinstance(x, int) and isinstance(y, int) and not isinstance(x, bool) and 0 <= y < 64:
                    n = m.resolve(ins.ty)
                    n = n[2][1] if n[0] == 'vector' else n[1]
                    return (x & ((1 << n) - 1)) >> y
                raise NotEligible('lshr on symbolic integers')
            env[ins.res] = self.lift2(sh, a, b)
            return
        if op in ('and', 'or', 'xor'):
            t = m.resolve(ins.ty)
            a, b = C(ins.ops[0], ins.ty), C(ins.ops[1], ins.ty)
            et = t[2] if t[0] == 'vector' else t
            if m.resolve(et) == ('int', 1):
                f = {'and': z3.And, 'or': z3.Or, 'xor': z3.Xor}[op]
                env[ins.res] = self.lift2(lambda x, y: f(self.z(x), self.z(y)), a, b)
                return
            if isinstance(a, int) and isinstance(b, int):
                env[ins.res] = {'and': a & b, 'or': a | b, 'xor': a ^ b}[op]
                return

            def lane_op(x, y):
                # lane masks with constant lanes (xyz0(): and with <-1,-1,-1,0>): x & ~0 = x, x & 0 = 0, x | 0 = x ^ 0 = x
                if isinstance(x, int) and isinstance(y, int) and not isinstance(x, bool) and not isinstance(y, bool):
                    return {'and': x & y, 'or': x | y, 'xor': x ^ y}[op]
                if isinstance(x, int) and not isinstance(x, bool):
                    x, y = y, x
                if (is_raw(x) or isinstance(x, Mask)) and isinstance(y, int) and not isinstance(y, bool):
                    if (op == 'and' and y == -1) or (op in ('or', 'xor') and y == 0):
                        return x
                    if op == 'and' and y == 0:
                        return 0
                    if op == 'and' and is_raw(x) and x[0] == 'raw64':
                        halves = [(y & 0xffffffff), ((y >> 32) & 0xffffffff)]
                        if all(h in (0, 0xffffffff) for h in halves):
                            return ('raw64',) + tuple(x[1 + i] if h else z3.RealVal(0) for i, h in enumerate(halves))
                raise NotEligible('bitwise op on symbolic integers')
            if isinstance(a, list) and isinstance(b, list):
                env[ins.res] = self.lift2(lane_op, a, b)
                return
            raise NotEligible('bitwise op on symbolic integers')
        if op == 'select':
            c = C(ins.ops[0], ins.extra['cond_ty'])
            a, b = C(ins.ops[1], ins.ty), C(ins.ops[2], ins.ty)
            if isinstance(c, list):
                env[ins.res] = [self.merge_val([(ci, ai), (z3.Not(ci), bi)]) for ci, ai, bi in zip(c, a, b)]
            else:
                c = self.z(c)
                if z3.is_true(c):
                    env[ins.res] = a
                elif z3.is_false(c):
                    env[ins.res] = b
                else:
                    env[ins.res] = self.merge_val([(c, a), (z3.Not(c), b)])
            return
        if op in ('fpext', 'fptrunc', 'freeze'):
            env[ins.res] = C(ins.ops[0], ins.extra.get('src_ty', ins.ty))
            return
        if op in ('sitofp', 'uitofp'):
            v = C(ins.ops[0], ins.extra['src_ty'])

            def conv(x):
                if isinstance(x, bool):
                    return z3.RealVal(int(x))
                if isinstance(x, int):
                    return z3.RealVal(x)
                if z3.is_bool(x):
                    return z3.If(x, z3.RealVal(1), z3.RealVal(0))
                return z3.ToReal(x)
            env[ins.res] = self.lift1(conv, v)
            return
        if op in ('fptosi', 'fptoui'):
            # C19 (rgbColor: switch(int(floor(h/60)))): conversion to integer truncates towards zero; integers are unbounded here
            # (an out-of-range conversion is UB/poison in the source and invisible, like overflow, in this real-arithmetic model)
            v = C(ins.ops[0], ins.extra['src_ty'])
            self.ufs.used.add('%s (interpreted: truncation towards zero, unbounded integers)' % op)
            env[ins.res] = self.lift1(lambda x: z3.If(x >= 0, z3.ToInt(x), -z3.ToInt(-x)), v)
            return
        if op in ('zext', 'sext', 'trunc'):
            v = C(ins.ops[0], ins.extra['src_ty'])

            def conv(x):
                if isinstance(x, tuple) and x and x[0] == 'bits' and op == 'trunc':
                    raise NotEligible('trunc of a movemask result')
                if is_raw(x):
                    if op == 'trunc' and x[0] == 'raw64' and m.resolve(ins.ty) == ('int', 32):
                        return ('raw32', x[1])               # low half of two packed float lanes
                    raise NotEligible(op + ' of a bit-pattern value')
                if z3.is_expr(x) and z3.is_bool(x):
                    if m.resolve(ins.ty) == ('int', 1):
                        return x
                    if z3.is_true(x):
                        return 1 if op == 'zext' else -1
                    if z3.is_false(x):
                        return 0
                    return z3.If(x, z3.IntVal(1 if op == 'zext' else -1), z3.IntVal(0))
                if op == 'trunc' and m.resolve(ins.ty) == ('int', 1):
                    if isinstance(x, int):
                        return z3.BoolVal(bool(x & 1))
                    raise NotEligible('trunc to i1 of symbolic int')
                return x
            env[ins.res] = self.lift1(conv, v)
            return
        if op == 'bitcast':
            st, dt = m.resolve(ins.extra['src_ty']), m.resolve(ins.ty)
            v = C(ins.ops[0], st)
            if st[0] == 'ptr' and dt[0] == 'ptr':
                env[ins.res] = v
                return
            if st == ('vector', 2, ('float',)) and dt in (('double',), ('int', 64)):
                env[ins.res] = ('raw64', v[0], v[1])
                return
            if dt == ('vector', 2, ('float',)) and isinstance(v, tuple) and v and v[0] == 'raw64':
                env[ins.res] = [v[1], v[2]]
                return
            if st[0] == 'vector' and m.resolve(st[2]) == ('int', 1) and dt == ('int', st[1]):
                # movmskps idiom: <N x i1> -> iN; the result can only be compared with 0 (see icmp)
                env[ins.res] = ('bits', [self.z(x) for x in v])
                return
            if st[0] != 'ptr' and dt[0] != 'ptr' and m.sizeof(st) == m.sizeof(dt) and m.sizeof(st) % 4 == 0 and \
                    (st[0] != 'vector' or m.sizeof(st[2]) in (4, 8)) and (dt[0] != 'vector' or m.sizeof(dt[2]) in (4, 8)):
                # SIMD code moves float lanes through <2 x double> / <2 x i64> / <4 x i32> typed shuffles (movelh/movehl/unpack, ABI
                # coercion): a bitcast between types of equal size is a pure relabelling of 32-bit lanes.  The relabelled value is a
                # bit-pattern carrier (raw32/raw64/Mask): it can be moved, merged and cast back, any arithmetic use is not eligible.
                env[ins.res] = self.from_lanes32(self.lanes32(v, st), dt)
                return
            raise NotEligible('bitcast %r -> %r' % (st, dt))
        if op == 'alloca':
            env[ins.res] = ('ptr', self.new_base('alloca'), 0)
            return
        if op == 'getelementptr':
            p = C(ins.ops[0], ins.extra['ptr_ty'])
            off = self.gep_off(ins.extra['base_ty'], ins.extra['idx'], env, dynamic=True)
            if is_mptr(p):
                offs = off if isinstance(off, list) else [(z3.BoolVal(True), off)]
                env[ins.res] = ('mptr', tuple((z3.simplify(z3.And(c1, c2)), b, o1 + o2) for c1, b, o1 in p[1] for c2, o2 in offs))
                return
            if not is_ptr(p):
                raise NotEligible('GEP on non-pointer')
            if isinstance(off, list):
                # multi-pointer: one of finitely many cells, selected by exhaustive and exclusive conditions
                env[ins.res] = ('mptr', tuple((c, p[1], p[2] + o) for c, o in off))
                return
            env[ins.res] = ('ptr', p[1], p[2] + off)
            return
        if op == 'load':
            env[ins.res] = self.mload(mem, C(ins.ops[0], ('ptr', ins.ty)), ins.ty)
            return
        if op == 'store':
            self.mstore(mem, C(ins.ops[1], ('ptr', ins.ty)), ins.ty, C(ins.ops[0], ins.ty))
            return
        if op == 'extractvalue':
            v = C(ins.ops[0], ins.extra['agg_ty'])
            for i in ins.extra['idx']:
                v = v[i]
            env[ins.res] = v
            return
        if op == 'insertvalue':
            v = C(ins.ops[0], ins.ty)
            e = C(ins.ops[1], ins.extra['el_ty'])

            def ins_at(agg, idx, e):
                agg = list(agg)
                if len(idx) == 1:
                    agg[idx[0]] = e
                else:
                    agg[idx[0]] = ins_at(agg[idx[0]], idx[1:], e)
                return agg
            env[ins.res] = ins_at(v, ins.extra['idx'], e)
            return
        if op == 'extractelement':
            v = C(ins.ops[0], ins.extra['vec_ty'])
            i = C(ins.ops[1], ('int', 64))
            if not isinstance(i, int):
                raise NotEligible('dynamic extractelement')
            env[ins.res] = v[i]
            return
        if op == 'insertelement':
            v = list(C(ins.ops[0], ins.ty))
            vt = m.resolve(ins.ty)
            i = C(ins.ops[2], ('int', 64))
            if not isinstance(i, int):
                raise NotEligible('dynamic insertelement')
            v[i] = C(ins.ops[1], vt[2])
            env[ins.res] = v
            return
        if op == 'shufflevector':
            vt = m.resolve(ins.extra['vec_ty'])
            a = C(ins.ops[0], vt)
            b = C(ins.ops[1], vt) if ins.ops[1][0] not in ('undef', 'poison') else [None] * vt[1]
            mt, mv = ins.extra['mask']
            mt = m.resolve(mt)
            if mv[0] == 'zero':
                idxs = [0] * mt[1]
            elif mv[0] in ('undef', 'poison'):
                idxs = [None] * mt[1]
            else:
                idxs = [(ev[1] if ev[0] == 'int' else None) for (et, ev) in mv[1]]
            ab = list(a) + list(b)
            env[ins.res] = [(ab[i] if i is not None else None) for i in idxs]
            return
        if op == 'call':
            self.call(ins, env, mem)
            return
        raise NotEligible('instruction ' + op + ': ' + ins.src[:100])

    def farith(self, op, x, y):
        if x is None or y is None:
            return self.fresh('undef')
        if op == 'fadd':
            return x + y
        if op == 'fsub':
            return x - y
        if op == 'fmul':
            return x * y
        self.div_obls.append((self.pc_stack[-1], y))
        return x / y

    def lift1(self, f, a):
        if isinstance(a, list):
            return [self.lift1(f, x) for x in a]
        return f(a)

    def lift2(self, f, a, b):
        if isinstance(a, list):
            return [self.lift2(f, x, y) for x, y in zip(a, b)]
        return f(a, b)

    def call(self, ins, env, mem):
        m = self.mod
        callee = ins.ops[0]
        args = [self.const(v, t, env) for (t, v, a) in ins.extra['args'] if t != ('metadata',)]
        if callee[0] != 'global':
            raise NotEligible('indirect call')
        name = callee[1]
        if name.startswith(('llvm.lifetime.', 'llvm.dbg.', 'llvm.experimental.noalias', 'llvm.assume')):
            return
        if name.startswith(('llvm.memcpy.', 'llvm.memmove.')):
            d, s, n = args[0], args[1], args[2]
            if not isinstance(n, int) or not is_ptr(d) or not is_ptr(s):
                raise NotEligible('memcpy shape')
            src = mem.get(s[1], {})
            cells = [(o, c) for o, c in src.items() if s[2] <= o and o + c[1] <= s[2] + n]
            if s[1].startswith('@'):
                raise NotEligible('memcpy from global')
            covered = sum(c[1] for o, c in cells)
            if covered != n:
                raise NotEligible('memcpy over partially tracked memory (%d of %d bytes)' % (covered, n))
            b = mem.setdefault(d[1], {})
            for o in list(b.keys()):
                if d[2] <= o < d[2] + n:
                    del b[o]
            for o, c in cells:
                b[d[2] + (o - s[2])] = c
            return
        if name.startswith('llvm.memset.'):
            d, v, n = args[0], args[1], args[2]
            if v != 0 or not isinstance(n, int):
                raise NotEligible('memset shape')
            b = mem.setdefault(d[1], {})
            for o in list(b.keys()):
                if d[2] <= o < d[2] + n:
                    del b[o]
            for o in range(0, n, 4):
                b[d[2] + o] = (MEMSET_ZERO, 4)
            return
        if name.startswith('llvm.x86.'):
            short = name[len('llvm.x86.'):]
            if short in ('sse.min.ps', 'sse.max.ps', 'sse2.min.pd', 'sse2.max.pd'):
                f = (lambda x, y: z3.If(x < y, x, y)) if '.min.' in short else (lambda x, y: z3.If(x > y, x, y))
                env[ins.res] = [f(x, y) for x, y in zip(args[0], args[1])]
                return
            if short == 'sse3.hadd.ps':
                a, b = args[0], args[1]
                env[ins.res] = [a[0] + a[1], a[2] + a[3], b[0] + b[1], b[2] + b[3]]
                return
            if short == 'sse41.dpps':
                a, b, m_ = args
                t = [(a[i] * b[i]) if (m_ >> (4 + i)) & 1 else z3.RealVal(0) for i in range(4)]
                sm = (t[0] + t[1]) + (t[2] + t[3])
                env[ins.res] = [sm if (m_ >> i) & 1 else z3.RealVal(0) for i in range(4)]
                return
            if short in ('sse.cmp.ss', 'sse.cmp.ps') and isinstance(args[2], int) and 0 <= args[2] <= 7:
                # CMPSS/CMPPS imm8[2:0] (Intel SDM table 3-1) over the reals: no value is unordered.  The result lanes are comparison
                # masks (class Mask): they can be moved and sign-tested (movmskps), nothing else.
                tbl = {0: lambda x, y: x == y, 1: lambda x, y: x < y, 2: lambda x, y: x <= y, 3: lambda x, y: z3.BoolVal(False),
                       4: lambda x, y: x != y, 5: lambda x, y: z3.Not(x < y), 6: lambda x, y: z3.Not(x <= y), 7: lambda x, y: z3.BoolVal(True)}
                a, b = args[0], args[1]
                lanes = [0] if short.endswith('.ss') else [0, 1, 2, 3]
                r = list(a)
                for i in lanes:
                    if a[i] is None or b[i] is None or isinstance(a[i], Mask) or isinstance(b[i], Mask):
                        raise NotEligible('compare of undef / mask lanes')
                    r[i] = Mask(tbl[args[2]](a[i], b[i]))
                env[ins.res] = r
                return
            raise NotEligible('x86 intrinsic ' + short + ' has no real-arithmetic meaning here')
        base = re.sub(r'\.(f32|f64|v\d+f(32|64))$', '', name)
        if base in ('llvm.fabs',):
            env[ins.res] = self.lift1(lambda x: z3.If(x >= 0, x, -x), args[0])
            return
        if base in ('llvm.sqrt',):
            env[ins.res] = self.lift1(lambda x: self.ufs.app('sqrt', x), args[0])
            return
        if base in ('llvm.minnum', 'llvm.maxnum'):
            f = (lambda x, y: z3.If(x < y, x, y)) if base.endswith('minnum') else (lambda x, y: z3.If(x > y, x, y))
            env[ins.res] = self.lift2(f, args[0], args[1])
            return
        if base in ('llvm.fma', 'llvm.fmuladd'):
            env[ins.res] = args[0] * args[1] + args[2]
            return
        if base == 'llvm.floor' or name in ('floorf', 'floor'):
            env[ins.res] = self.lift1(lambda x: self.ufs.app('floor', x), args[0])
            return
        if base in ('llvm.sin', 'llvm.cos', 'llvm.pow', 'llvm.exp', 'llvm.log', 'llvm.exp2', 'llvm.log2'):
            nm = base.split('.')[1]
            env[ins.res] = self.lift1(lambda *xs: self.ufs.app(nm, *xs), *args) if len(args) == 1 else self.ufs.app(nm, *args)
            return
        if base == 'llvm.copysign':
            x, y = args
            ax = z3.If(x >= 0, x, -x)
            env[ins.res] = z3.If(y >= 0, ax, -ax)
            return
        if name in ('fabsf', 'fabs'):
            x = args[0]
            env[ins.res] = z3.If(x >= 0, x, -x)
            return
        if name in LIBM_UF:
            nm, ar = LIBM_UF[name]
            env[ins.res] = self.ufs.app(nm, *args[:ar])
            return
        if name == 'sincosf' or name == 'sincos':
            x, ps, pc_ = args
            ty = ('float',) if name == 'sincosf' else ('double',)
            self.mstore(mem, ps, ty, self.ufs.app('sin', x))
            self.mstore(mem, pc_, ty, self.ufs.app('cos', x))
            return
        f = m.funcs.get(name)
        if f is not None and f.defined:
            rv, m2 = self.run(name, args, mem)
            # callee worked on the same dict object only along a single path; adopt merged result
            if m2 is not mem:
                m2 = dict(m2)
                mem.clear()
                mem.update(m2)
            if ins.res is not None:
                env[ins.res] = rv
            return
        raise NotEligible('call to @' + name)


# =====================================================================================
def build_namespace(mode):
    """helper names visible to clause expressions; mode 'z3' or 'num'"""
    import rspec
    ns = {}
    ns.update(rspec.namespace(mode))
    return ns


def z3_to_float(v):
    if z3.is_rational_value(v):
        return v.numerator_as_long() / v.denominator_as_long()
    if z3.is_algebraic_value(v):
        return float(v.approx(20).as_decimal(20).rstrip('?'))
    return float(str(v))


def angles_from_model(model, ufs, invars, vals):
    """counterexample reporting only: sin/cos are uninterpreted, so the model's value of an angle input `a` is unrelated to
    its values of sin(a), cos(a).  Where sin is applied to an input variable (or rational multiple k*a), report
    a := atan2(sin, cos) / k instead, so that the native replay sees the sine/cosine the solver chose."""
    done = set()
    for (args, r) in ufs.apps.get('sin', []):
        try:
            x, k = args[0], 1.0
            if z3.is_mul(x) and x.num_args() == 2 and z3.is_rational_value(x.arg(0)):
                k, x = z3_to_float(x.arg(0)), x.arg(1)
            n = str(x)
            if not (z3.is_const(x) and n in invars and invars[n].eq(x)) or n in done or k == 0:
                continue
            c = ufs._get('cos', args)
            if c is None:
                continue
            sv = z3_to_float(model.eval(r, model_completion=True))
            cv = z3_to_float(model.eval(c, model_completion=True))
            if sv == 0 and cv == 0:
                continue
            vals[n] = math.atan2(sv, cv) / k
            done.add(n)
        except Exception:
            continue


def main():
    job = json.load(open(sys.argv[1]))
    t0 = time.time()
    out = {'fn': job['fn'], 'clauses': {}, 'status': 'error', 'detail': '', 'inputs': {}, 'ufs': [], 'axioms': 0, 'div_obligations': 0}
    try:
        mod = parse_module(open(job['ll']).read())
        import rspec
        ufs = UFs()
        ex = Exec(mod, ufs)
        rspec.bind(ufs, ex, mod, job)
        sig = job['sig']
        ns = build_namespace('z3')
        args = []
        mem = {}
        invars = {}
        for t, n in sig['ins']:
            if t in ('float', 'double'):
                v = z3.Real(n)
            else:
                v = z3.Int(n)
            invars[n] = v
            ns[n] = v
            args.append(v)
        for t, n, cnt in sig['outs']:
            args.append(('ptr', 'out:' + n, 0))
        rv, mem2 = ex.run(job['fn'], args, mem)
        ns['RESULT'] = rv
        for t, n, cnt in sig['outs']:
            sz = 4 if t in ('float', 'u32') else 8 if t in ('double', 'u64') else 1 if t == 'u8' else 2
            vals = []
            for i in range(cnt):
                cell = mem2.get('out:' + n, {}).get(i * sz)
                vals.append(cell[0] if cell else None)
            ns[n] = vals
        hyps = []
        for name, e in job['requires']:
            hyps.append(eval(e, ns))
        goals = []
        for name, e in job['ensures']:
            goals.append((name, eval(e, ns)))
        # division obligations generated by the code itself
        for i, (pcnd, den) in enumerate([] if 'no-division-obligations' in job.get('flags', ()) else ex.div_obls):
            goals.append(('safety:denominator_nonzero_%d' % i, z3.Implies(pcnd, den != 0)))
        out['div_obligations'] = len(ex.div_obls)
        timeout = int(job.get('timeout_s', 60))
        for name, g in goals + [('__canary', z3.BoolVal(False))]:
            t1 = time.time()
            if isinstance(g, bool):
                g = z3.BoolVal(g)
            if isinstance(g, list):
                g = z3.And(*[z3.BoolVal(x) if isinstance(x, bool) else x for x in g])
            res = None
            model = None
            engine = None
            for tactic in job.get('engines') or os.environ.get('LL2SMT_ENGINES', 'default,groebner,nlsat').split(','):
                if tactic == 'split':   # opt-in (LL2SMT_ENGINES): case split on ite conditions, leaves by z3 / Groebner, see rsplit.py
                    try:
                        import rsplit
                        st, mdl, sstats = rsplit.prove(hyps + ufs.axioms, g, timeout, [r_ for l_ in ufs.apps.values() for (a_, r_) in l_])
                        if st is not None:
                            res, model, engine = st, mdl, 'rsplit-case-split(z3-%s+groebner)' % z3.get_version_string()
                            break
                    except Exception as e:
                        out['detail'] += ' split(%s): %s' % (name, str(e)[:200])
                    continue
                if tactic == 'groebner':
                    try:
                        import rgroebner
                        if rgroebner.prove(hyps + ufs.axioms, g, timeout):
                            res = 'SUCCESS'
                            engine = 'sympy-polynomial-identity/groebner'
                            break
                    except Exception as e:
                        out['detail'] += ' groebner(%s): %s' % (name, str(e)[:200])
                    continue
                s = z3.Solver() if tactic == 'default' else z3.Tactic('qfnra-nlsat').solver()
                s.set('timeout', timeout * 1000 // (4 if tactic == 'default' else 2))
                for h in hyps:
                    s.add(h)
                for a in ufs.axioms:
                    s.add(a)
                s.add(z3.Not(g))
                # some z3 preprocessing steps ignore the solver timeout: interrupt the context from a timer thread as well
                import threading
                tm = threading.Timer(timeout // (4 if tactic == 'default' else 2) + 5, s.ctx.interrupt)
                tm.daemon = True
                tm.start()
                try:
                    r = s.check()
                except z3.Z3Exception:
                    r = z3.unknown
                finally:
                    tm.cancel()
                engine = 'z3-%s-%s' % (z3.get_version_string(), tactic)
                if r == z3.unsat:
                    res = 'SUCCESS'
                    break
                if r == z3.sat:
                    res = 'FAILURE'
                    model = s.model()
                    break
            if res is None:
                res = 'UNKNOWN'
            out['clauses'][name] = {'status': res, 'engine': engine, 'seconds': round(time.time() - t1, 2)}
            if model is not None and name != '__canary':
                vals = {}
                for n, v in invars.items():
                    mv = model.eval(v, model_completion=True)
                    try:
                        vals[n] = z3_to_float(mv)
                    except Exception:
                        vals[n] = 0.0
                angles_from_model(model, ufs, invars, vals)
                out['inputs'][name] = vals
        out['status'] = 'done'
        out['ufs'] = sorted(ufs.used)
        out['axioms'] = len(ufs.axioms)
    except NotEligible as e:
        out['detail'] = 'not eligible for real-arithmetic execution: %s' % e
    except Unsupported as e:
        out['detail'] = 'IR outside the table: %s' % e
    except Exception as e:
        out['detail'] = 'exception: ' + traceback.format_exc()[-2000:]
    out['seconds'] = round(time.time() - t0, 2)
    json.dump(out, sys.stdout)


if __name__ == '__main__':
    main()
