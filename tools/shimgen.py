"""shimgen.py - helpers to generate shims over GLM's type lattice"""
INT_TYPES = {
    'i8': ('int8_t', 8, 1), 'u8': ('uint8_t', 8, 0), 'i16': ('int16_t', 16, 1), 'u16': ('uint16_t', 16, 0),
    'i32': ('int32_t', 32, 1), 'u32': ('uint32_t', 32, 0), 'i64': ('int64_t', 64, 1), 'u64': ('uint64_t', 64, 0),
}
FLOAT_TYPES = {'f32': ('float', 32), 'f64': ('double', 64)}
COMPS = 'xyzw'


def cpp_type(tag):
    if tag in INT_TYPES:
        return INT_TYPES[tag][0]
    if tag == 'bool':
        return 'bool'
    return FLOAT_TYPES[tag][0]


def view_type(tag):
    if tag in INT_TYPES:
        return 'u%d' % INT_TYPES[tag][1]
    if tag == 'bool':
        return 'u8'
    return FLOAT_TYPES[tag][0]


def vec_t(L, tag, Q='glm::defaultp'):
    return 'glm::vec<%d, %s, %s>' % (L, cpp_type(tag), Q)


def vec_ins(L, tag, name):
    """by-value scalar parameters for a vector argument"""
    return [(cpp_type(tag), '%s%d' % (name, i)) for i in range(L)]


def vec_make(L, tag, name, Q='glm::defaultp'):
    return '%s(%s)' % (vec_t(L, tag, Q), ', '.join('%s%d' % (name, i) for i in range(L)))


def vec_store(L, var, out='out', base=0):
    return ' '.join('%s[%d] = %s.%s;' % (out, base + i, var, COMPS[i]) for i in range(L))


def mat_t(C, R, tag, Q='glm::defaultp'):
    return 'glm::mat<%d, %d, %s, %s>' % (C, R, cpp_type(tag), Q)


def mat_ins(C, R, tag, name):
    """column-major scalar parameters name_c_r"""
    return [(cpp_type(tag), '%s%d%d' % (name, c, r)) for c in range(C) for r in range(R)]


def mat_make(C, R, tag, name, Q='glm::defaultp'):
    return '%s(%s)' % (mat_t(C, R, tag, Q), ', '.join('%s%d%d' % (name, c, r) for c in range(C) for r in range(R)))


def mat_store(C, R, var, out='out'):
    return ' '.join('%s[%d] = %s[%d][%d];' % (out, c * R + r, var, c, r) for c in range(C) for r in range(R))


def same_as_build_contracts(P, driver, build, ref_tag, names, label, tier='quick', timeout=300, zero_sign_free=False):
    """relational family: every shim in `names`, extracted under `build`, returns bit-identical results (NaN == NaN) to its extraction under the
    reference build `ref_tag` of the same driver, for all argument values; float arithmetic and libm calls are abstracted on both sides
    (same operations on the same bits), with the engine's automatic exact-arithmetic refinement"""
    def beq(t, a, b):
        if t == 'float':
            return '(ll2c_f32_bits(%s) == ll2c_f32_bits(%s) || (%s != %s && %s != %s))' % (a, b, a, a, b, b)
        if t == 'double':
            return '(ll2c_f64_bits(%s) == ll2c_f64_bits(%s) || (%s != %s && %s != %s))' % (a, b, a, a, b, b)
        return '%s == %s' % (a, b)
    build.only = set(names) if getattr(build, 'only', None) is None else build.only | set(names)
    for n in names:
        sg = driver.shims[n].view_sig()
        args = ', '.join(nm for _, nm in sg['ins'])
        ens = []
        if sg['ret'] != 'void':
            ens.append(('same_result_as_%s' % ref_tag, beq(sg['ret'], 'RESULT', 'R_%s(%s)' % (n, args))))
        for k, (t, on, cnt) in enumerate(sg['outs']):
            for i in range(cnt):
                ens.append(('same_%s_%d_as_%s' % (on, i, ref_tag), beq(t, '%s[%d]' % (on, i), 'R_%s__o%d_%d(%s)' % (n, k, i, args))))
        P.contract(n, '%s: %s vs %s' % (label, n, ref_tag), ensures=ens, build=build, rel=(ref_tag, [n]), unwind=12,
                   uf_float=('fmul', 'fdiv', 'fadd', 'fsub', 'sqrt'), timeout=timeout, tier=tier, backends=('sat',))
