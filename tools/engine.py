#!/usr/bin/env python3
"""engine.py - runs one property: builds -> extraction -> T-check -> contract jobs -> verdicts -> evidence"""
import os, sys, re, json, time, shutil, glob
from concurrent.futures import ProcessPoolExecutor, ThreadPoolExecutor, as_completed
from vlib import *
import vlib

G_BUILDS = {}


def _r_worker(job):
    """kind R: real-arithmetic symbolic execution + SMT, in a python3-vt subprocess"""
    t0 = time.time()
    res = {'fn': job['fn'], 'variant': '', 'status': 'error', 'detail': '', 'clauses': {}, 'safety': [], 'inputs': {},
           'seconds': 0, 'solver_s': 0, 'backend': 'z3-nra', 'log': '', 'kind': 'R'}
    try:
        jf = os.path.join(job['workdir'], job['id'] + '.rjob.json')
        json.dump(job, open(jf, 'w'))
        rc, so, se, dt = sh(['python3-vt', os.path.join(VERIF, 'tools', 'll2smt.py'), jf], timeout=job['timeout'] * (len(job['ensures']) + 3) + 60, mem_gb=8)
        res['log'] = '$ python3-vt tools/ll2smt.py %s rc=%d %.1fs\n' % (jf, rc, dt)
        if rc == -999:
            res['status'] = 'timeout'
            res['detail'] = 'll2smt timeout'
        else:
            try:
                r = json.loads(so)
            except Exception:
                res['detail'] = 'll2smt produced no JSON: ' + (so[-300:] + se[-700:])
                r = None
            if r is not None:
                if r['status'] != 'done':
                    res['detail'] = r['detail']
                else:
                    res['status'] = 'done'
                    engines = set()
                    for name, c in r['clauses'].items():
                        if name.startswith('safety:'):
                            res['safety'].append((name, name[7:], c['status']))
                        else:
                            res['clauses'][name] = c['status']
                        engines.add(c['engine'])
                        res['solver_s'] += c['seconds']
                    res['backend'] = ','.join(sorted(e for e in engines if e))
                    res['inputs'] = r['inputs']
                    for k in list(res['inputs'].keys()):
                        if k.startswith('safety:'):
                            res['inputs'][k] = res['inputs'][k]
                    res['translate'] = {'trusted': ['uninterpreted real function + ground axioms: ' + u for u in r['ufs']] +
                                        ['machine arithmetic treated as mathematical (reals)'], 'libm': []}
                    unk = [n for n, c in r['clauses'].items() if c['status'] == 'UNKNOWN']
                    if unk:
                        res['status'] = 'timeout'
                        res['detail'] = 'solver returned unknown for: ' + ', '.join(unk)
                    res['detail'] += r.get('detail', '')
    except Exception:
        res['detail'] = 'exception: ' + traceback.format_exc()[-1500:]
    res['seconds'] = time.time() - t0
    return res


def _x_worker(job):
    """kind X: exhaustive native execution of the real shim over its whole (<= 32-bit) argument space; complete by enumeration, not a deductive proof"""
    t0 = time.time()
    res = {'fn': job['fn'], 'variant': '', 'status': 'error', 'detail': '', 'clauses': {}, 'safety': [], 'inputs': {},
           'seconds': 0, 'solver_s': 0, 'backend': 'native-exhaustive(g++ -O2)', 'log': '', 'kind': 'X'}
    try:
        b = G_BUILDS[job['build']]
        c = job['_contract']
        r = run_exhaustive(b, b.driver.shims[c.fn], c, job['workdir'], job['id'], nproc=job.get('nproc', 16), timeout=job['timeout'])
        res.update({k: v for k, v in r.items() if k in ('status', 'detail', 'clauses', 'inputs', 'log')})
        if r.get('status') == 'done':
            res['clauses']['__canary'] = 'FAILURE' if r.get('checked', 0) > 0 else 'SUCCESS'   # vacuity: some argument satisfied the requires
            res['checked'] = r['checked']
            res['solver_s'] = round(r.get('seconds', 0), 2)
    except Exception:
        res['detail'] = 'exception: ' + traceback.format_exc()[-1500:]
    res['seconds'] = time.time() - t0
    return res


def _job_worker(job):
    """translate in the worker (forked: G_BUILDS inherited), then run CBMC"""
    if job.get('kind') == 'R':
        return _r_worker(job)
    if job.get('kind') == 'X':
        return _x_worker(job)
    try:
        b = G_BUILDS[job['build']]
        roots = [job['fn_ir']] + job['uses_ir']
        text, info = ll2c.translate(b.mod, roots=roots, prefix='', poison_flags=job['poison_flags'], uf_float=job.get('uf_float', ()),
                                     loop_contracts={job['fn_ir']: job['loops']} if job.get('loops') else None)
        if job.get('rel'):
            b2 = G_BUILDS[job['rel'][0]]
            text2, info2 = ll2c.translate(b2.mod, roots=list(job['rel'][1]), prefix='R_', poison_flags=job['poison_flags'], uf_float=job.get('uf_float', ()))
            text = text + '\n/* ---- relational counterpart extracted from build %s (prefix R_) ---- */\n' % job['rel'][0] + text2
            info['trusted'] = sorted(set(info.get('trusted', [])) | set(info2.get('trusted', [])))
            info['libm'] = sorted(set(info.get('libm', [])) | set(info2.get('libm', [])))
        job['text_template'] = job['text']
        job['lines_template'] = dict(job['lines'])
        job['text'] = job['text'].replace('@@GEN@@', text)
        # line numbers shift by the generated text
        shift = text.count('\n')
        job['fn_contract'] = job['lines'].get('__fn_contract__', job['fn'])
        job['lines'] = {str(int(k) + shift): v for k, v in job['lines'].items() if str(k).isdigit()}
        r = run_contract_job(job)
        r['translate'] = info
        failed = [n for n, st in r.get('clauses', {}).items() if st != 'SUCCESS' and n != '__canary']
        if job.get('uf_float') and r.get('status') == 'done' and failed:
            # a failure under the uninterpreted-function abstraction of float * / sqrt is not a verdict: refine (exact arithmetic)
            job2 = dict(job)
            job2['uf_float'] = []
            job2['id'] = job['id'] + '_exact'
            job2['text'] = job['text_template']
            job2['lines'] = job['lines_template']
            text2, info2 = ll2c.translate(b.mod, roots=roots, prefix='', poison_flags=job['poison_flags'], uf_float=())
            if job.get('rel'):
                t3, i3 = ll2c.translate(G_BUILDS[job['rel'][0]].mod, roots=list(job['rel'][1]), prefix='R_', poison_flags=job['poison_flags'], uf_float=())
                text2 = text2 + '\n' + t3
            job2['text'] = job2['text'].replace('#define LL2C_CBMC 1', '#define LL2C_CBMC 1\n#define LL2C_NO_UF 1', 1).replace('@@GEN@@', text2)
            shift_extra = 1
            shift2 = text2.count('\n') + 1
            job2['lines'] = {str(int(k) + shift2): v for k, v in job2['lines'].items() if str(k).isdigit()}
            r2 = run_contract_job(job2)
            r2['translate'] = info2
            r2['refined_from_uf'] = failed
            r2['seconds'] += r['seconds']
            if r2.get('status') != 'done':
                r2['detail'] = 'abstraction (uninterpreted float ops) failed on %s; exact arithmetic: %s' % (failed, r2.get('detail', ''))
            return r2
        return r
    except llir.Unsupported as e:
        return {'fn': job['fn'], 'variant': job.get('variant', ''), 'status': 'error', 'detail': 'll2c unsupported: %s' % e,
                'clauses': {}, 'safety': [], 'inputs': {}, 'seconds': 0, 'solver_s': 0, 'backend': None, 'log': ''}
    except Exception as e:
        return {'fn': job['fn'], 'variant': job.get('variant', ''), 'status': 'error', 'detail': 'worker exception: ' + traceback.format_exc()[-1500:],
                'clauses': {}, 'safety': [], 'inputs': {}, 'seconds': 0, 'solver_s': 0, 'backend': None, 'log': ''}


def compact_obligations(obligations):
    """per function (and build): back end, seconds, number of obligations by status, the clause names (generated safety obligations only counted)"""
    out = {}
    for o in obligations:
        fn, _, name = o['id'].partition('.')
        e = out.setdefault(fn, {'kind': o.get('kind'), 'backend': o.get('backend'), 'seconds': o.get('seconds'), 'discharged': 0, 'refuted': 0,
                                'clauses': [], 'safety_obligations': 0})
        e['discharged' if o['status'] == 'discharged' else 'refuted'] += 1
        if 'bounded' in o:
            e['bounded'] = o['bounded']
        if name.startswith('safety:'):
            e['safety_obligations'] += 1
            if o['status'] != 'discharged':
                e.setdefault('refuted_names', []).append(name[:200])
        else:
            e['clauses'].append(name if o['status'] == 'discharged' else name + ' [REFUTED]')
    # very large tables (tens of thousands of clauses): keep the names of the first clauses of each function only
    total = sum(len(e['clauses']) for e in out.values())
    if total > 12000:
        for e in out.values():
            if len(e['clauses']) > 4:
                e['clauses'] = e['clauses'][:3] + ['... %d more (see obligation_list_full)' % (len(e['clauses']) - 3)]
    return out


def shrink_evidence(ev, limit=2500000):
    """an evidence file has to stay well below 5 MB (larger files are cut off by the reader and count as no evidence).  Nothing is dropped silently:
    the per-obligation list with times is in evidence/<id>.obligations.jsonl.gz; every reduction is named in coverage.reduced"""
    cov = ev['coverage']
    txt = json.dumps(ev, indent=1)
    if len(txt) <= limit:
        return txt
    cov['reduced'] = []
    can = cov.get('canaries') or {}
    cov['canaries'] = {'total': len(can), 'failed_as_required': sum(1 for v in can.values() if v == 'FAILURE'),
                       'others': {k: v for k, v in can.items() if v != 'FAILURE'}}
    cov['reduced'].append('canaries: counts instead of one entry per function')
    for e in cov['obligation_list'].values():
        if len(e.get('clauses', [])) > 2:
            e['clauses'] = e['clauses'][:1] + ['... %d more' % (len(e['clauses']) - 1)]
    cov['reduced'].append('obligation_list: first clause name per function, the others counted')
    txt = json.dumps(ev, indent=None, separators=(',', ':'))
    if len(txt) <= limit:
        return txt
    # tables: one row per function instead of one object
    fns = cov['functions_under_contract']
    cols = ['real', 'build', 'mode', 'kind', 'backend', 'seconds', 'solver_s', 'status']
    cov['functions_under_contract'] = {'columns': cols, 'rows': {k: [str(v.get(c))[:90] if c == 'real' else v.get(c) for c in cols] for k, v in fns.items()}}
    ol = cov['obligation_list']
    ocols = ['discharged', 'refuted', 'safety_obligations', 'first_clause', 'bounded', 'refuted_names']
    cov['obligation_list'] = {'columns': ocols, 'rows': {k: [v.get('discharged'), v.get('refuted'), v.get('safety_obligations'), (v.get('clauses') or [''])[0],
                                                               v.get('bounded'), v.get('refuted_names')] for k, v in ol.items()}}
    cov['reduced'].append('functions_under_contract and obligation_list: one row per function (see columns)')
    txt = json.dumps(ev, indent=None, separators=(',', ':'))
    if len(txt) > limit:
        rows = cov['functions_under_contract']['rows']
        by = {}
        for k, r in rows.items():
            b = by.setdefault(r[1], {'functions': 0, 'seconds': 0.0, 'backends': {}, 'not_done': []})
            b['functions'] += 1
            b['seconds'] += r[5] or 0
            b['backends'][str(r[4])] = b['backends'].get(str(r[4]), 0) + 1
            if r[7] != 'done':
                b['not_done'].append(k)
        cov['functions_under_contract'] = {'count': len(rows), 'by_build': by, 'note': 'one row per function: see obligation_list'}
        cov['reduced'].append('functions_under_contract: aggregated per build')
        txt = json.dumps(ev, indent=None, separators=(',', ':'))
    return txt


def compact_bounded(bnd):
    by = {}
    for o in bnd:
        by.setdefault(o.get('bounded'), []).append(o['id'])
    return [{'bound': k, 'obligations': len(v), 'examples': v[:5]} for k, v in by.items()]


def call_chain_to(mod, root, pattern):
    """first call chain root -> ... -> callee whose name matches pattern, following calls to functions defined in the module; None if none"""
    rx = re.compile(pattern)
    seen = {root}
    stack = [(root, [root])]
    while stack:
        fn, chain = stack.pop()
        f = mod.funcs.get(fn)
        if f is None or not f.defined:
            continue
        for b in f.blocks:
            for ins in b.instrs:
                if ins.op not in ('call', 'invoke') or not ins.ops or ins.ops[0][0] != 'global':
                    continue
                callee = ins.ops[0][1]
                if rx.search(callee):
                    return chain + [callee]
                if callee not in seen:
                    seen.add(callee)
                    stack.append((callee, chain + [callee]))
    return None


def parse_num(v):
    try:
        return int(v, 0)
    except ValueError:
        return float.fromhex(v) if 'x' in v.lower() else float(v)


def safety_key(desc):
    """stable identity of a generated safety obligation: kind + file, no line numbers (harmless edits move lines)"""
    d = re.sub(r'\s+', ' ', desc).strip()
    m = re.match(r'(ubsan:\S+|glm-assert|unreachable|trap|ub:\S+|llvm\.assume)\s*([^\s:]*)', d)
    if m:
        return ('%s %s' % (m.group(1), m.group(2))).strip()
    return d[:120]


class Prop:
    def __init__(self, pid, title=''):
        self.id = pid
        self.title = title
        self.drivers = {}
        self.builds = {}
        self.contracts = []
        self.assumptions = []
        self.not_covered = []
        self.level_text = ''
        self.level_note = ''
        self.technique = ''
        self.design_ref = ''
        self.default_build = None

    def driver(self, name, includes, prelude=''):
        d = Driver(name, includes, prelude)
        self.drivers[name] = d
        return d

    def build(self, driver, mode='flat', defines=(), flags=(), tag=None, prefix=''):
        b = Build(driver, mode, defines, flags, tag, prefix)
        self.builds[b.tag] = b
        if self.default_build is None:
            self.default_build = b.tag
        return b

    def contract(self, fn, real, **kw):
        c = Contract(fn, real, **kw)
        if c.build is None:
            c.build = self.default_build
        elif isinstance(c.build, Build):
            c.build = c.build.tag
        self.contracts.append(c)
        return c

    # ------------------------------------------------------------------------------
    def run(self, tier='quick', seed=0, only=None, verbose=False, keep=False):
        t0 = time.time()
        # partial runs (--only) get their own work directory and never overwrite the property's evidence file
        self._partial = bool(only) or bool(os.environ.get('VERIF_BUILD_FILTER'))
        wd = os.path.join(WORK, self.id + ('_partial_%d' % os.getpid() if self._partial else ''))
        self._wd = wd
        shutil.rmtree(wd, ignore_errors=True)
        os.makedirs(wd, exist_ok=True)
        os.makedirs(os.path.join(VERIF, 'replay'), exist_ok=True)
        os.makedirs(os.path.join(VERIF, 'evidence'), exist_ok=True)
        logf = open(os.path.join(wd, 'log.txt'), 'w')

        def log(s):
            logf.write(s + '\n')
            logf.flush()
            if verbose:
                print(s)
        contracts = [c for c in self.contracts if (tier == 'thorough' or c.tier == 'quick')]
        # contracts that stayed undecided (time limit) in a thorough run on the unchanged tree are not claimed: the committed list
        # unclaimed_thorough.json names them (fn@build); they are skipped in the thorough tier and reported under not_covered.
        # VERIF_TRY_UNCLAIMED=1 runs them anyway.
        self._unclaimed = []
        try:
            uc = set(json.load(open(os.path.join(VERIF, 'unclaimed_thorough.json'))).get(self.id, []))
        except Exception:
            uc = set()
        if uc and tier == 'thorough' and not os.environ.get('VERIF_TRY_UNCLAIMED'):
            self._unclaimed = sorted(c.fn + '@' + c.build for c in contracts if (c.fn + '@' + c.build) in uc and c.tier != 'quick')
            contracts = [c for c in contracts if not ((c.fn + '@' + c.build) in uc and c.tier != 'quick')]
        if only:
            contracts = [c for c in contracts if re.search(only, c.fn)]
        bf = os.environ.get('VERIF_BUILD_FILTER')   # debugging aid: restrict to builds matching a regex (treated like --only)
        if bf:
            contracts = [c for c in contracts if re.search(bf, c.build)]
            only = only or bf
            self._partial = True
        used_builds = sorted({c.build for c in contracts} | {c.rel[0] for c in contracts if getattr(c, 'rel', None)})
        builds = [self.builds[t] for t in used_builds]
        try:
            with ThreadPoolExecutor(max_workers=NPROC) as ex:
                list(ex.map(lambda b: compile_build(b, wd), builds))
            with ProcessPoolExecutor(max_workers=min(NPROC, max(1, len(builds)))) as ex:
                for b, pb in zip(builds, ex.map(_parse_ll, [b.ll for b in builds])):
                    if isinstance(pb, str):
                        raise Infra('IR of %s outside the ll2c table: %s' % (b.tag, pb))
                    b.mod = pb
            for b in builds:
                G_BUILDS[b.tag] = b
            log('parse done at %.1fs' % (time.time() - t0))
            log('builds: ' + ', '.join('%s (%.1fs, %d functions)' % (b.tag, b.compile_s, sum(1 for f in b.mod.funcs.values() if f.defined)) for b in builds))
            n_t = 200 if tier == 'quick' else 5000
            tstats = tcheck(builds, wd, seed, n_t, log)
            log('T-check: %r' % tstats)
            log('T-check done at %.1fs' % (time.time() - t0))
            if tstats['mismatches']:
                raise Infra('translator mismatch: generated C and the real code disagree on %d inputs (see %s)' % (tstats['mismatches'], logf.name))
        except Infra as e:
            print('UNDECIDED property=%s infrastructure: %s' % (self.id, e))
            self.write_evidence(tier, seed, [], [], {}, time.time() - t0, undecided=[str(e)], tstats={})
            return 2

        findings, fixed = load_findings()
        findings = [f for f in findings if f.prop == self.id]
        jobs = []
        jobmeta = {}
        infra = []
        for c in contracts:
            b = self.builds[c.build]
            try:
                sig, fn_ir = self.signature(c, b)
            except Infra as e:
                infra.append('%s: %s' % (c.fn, e))
                continue
            ens = []
            fnd = {f.obligation.split('.', 1)[1]: f for f in findings if f.obligation.split('.', 1)[0] in (c.fn, '%s[%s]' % (c.fn, c.build))}
            for name, e in c.ensures:
                if name in fnd:
                    f = fnd[name]
                    ens.append((name + '__orig', e))
                    if c.kind == 'R':
                        ens.append((name + '__outsideS', 'Or(%s, %s)' % (f.S, e)))
                        if f.pinned:
                            ens.append((name + '__pinned', 'Or(Not(%s), %s)' % (f.S, f.pinned)))
                    else:
                        ens.append((name + '__outsideS', '(%s) || (%s)' % (f.S, e)))
                        if f.pinned:
                            ens.append((name + '__pinned', '!(%s) || (%s)' % (f.S, f.pinned)))
                else:
                    ens.append((name, e))
            ckey = c.fn + '@' + c.build
            jid0 = re.sub(r'[^A-Za-z0-9_]', '_', c.fn)[:80] + '_' + hashlib.md5(ckey.encode()).hexdigest()[:6]
            if c.kind == 'X':
                jobs.append({'kind': 'X', 'id': jid0, 'key': ckey, 'fn': c.fn, 'build': c.build, '_contract': c, 'timeout': max(c.timeout, 1800) if tier != 'quick' else c.timeout,
                             'workdir': wd, 'nproc': NPROC})
                jobmeta[ckey] = (c, sig, ens, fnd)
                continue
            if c.kind == 'R':
                jobs.append({'kind': 'R', 'id': jid0, 'key': ckey, 'fn': c.fn, 'll': b.ll, 'sig': sig, 'requires': c.requires, 'ensures': ens,
                             'timeout': c.timeout, 'timeout_s': c.timeout, 'workdir': wd, 'flags': list(c.flags)})
                jobmeta[ckey] = (c, sig, ens, fnd)
                continue
            rel_sigs = {n: self.builds[c.rel[0]].driver.shims[n].view_sig() for n in c.rel[1]} if getattr(c, 'rel', None) else None
            keep_sigs = {}
            for u in c.uses:
                if u in b.driver.shims:
                    keep_sigs[u] = b.driver.shims[u].view_sig()
            for n_, s_ in (rel_sigs or {}).items():
                keep_sigs['R_' + n_] = s_
            callee_contracts = []
            for callee in c.replace:
                cand = [x for x in self.contracts if x.fn == callee and x.build == c.build]
                if not cand:
                    infra.append('%s: replaced callee %s has no contract in build %s' % (c.fn, callee, c.build))
                    continue
                try:
                    callee_contracts.append((cand[0], self.signature(cand[0], b)[0]))
                except Infra as e:
                    infra.append('%s: replaced callee: %s' % (c.fn, e))
                    callee_contracts = None
                    break
            if callee_contracts is None:
                continue
            if len(callee_contracts) != len(c.replace):
                continue
            text, lines = harness_text(c, sig, '@@GEN@@', ensures_override=ens, rel_sigs=rel_sigs, keep_sigs=keep_sigs, callee_contracts=callee_contracts)
            jid = jid0
            uses_ir = []
            for u in c.uses:
                uses_ir.append(u)
            job = {'id': jid, 'key': ckey, 'fn': c.fn, 'fn_ir': fn_ir, 'uses_ir': uses_ir, 'build': b.tag, 'text': text, 'lines': lines,
                   'workdir': wd, 'replace': c.replace, 'backends': list(c.backends), 'unwind': c.unwind,
                   'timeout': c.timeout if tier == 'quick' else max(c.timeout, 900), 'in_names': [n for t, n in sig['ins']],
                   'cbmc_flags': list(c.flags), 'poison_flags': c.poison_flags, 'uf_float': list(getattr(c, 'uf_float', ())), 'rel': (c.rel[0], list(c.rel[1])) if getattr(c, 'rel', None) else None}
            if getattr(c, 'loops', None):
                # parameter names of the shim -> ARG(k) (resolved by ll2c to the function's own locals)
                job['loops'] = [re.sub(r'\b(%s)\b' % '|'.join(re.escape(n) for _, n in sig['ins']), lambda m: 'ARG(%d)' % [n for _, n in sig['ins']].index(m.group(1)), lc) for lc in c.loops]
                job['unwind'] = max(job['unwind'], 16)   # loops of the contracts library (one iteration per assigns target)
            if c.kind == 'U':
                job['cbmc_flags'] = job['cbmc_flags'] + ['--pointer-check', '--bounds-check']
            jobs.append(job)
            jobmeta[ckey] = (c, sig, ens, fnd)
            sfnd = {k: f for k, f in fnd.items() if k.startswith('safety:')}
            if sfnd:
                text2, lines2 = harness_text(c, sig, '@@GEN@@', extra_requires=['!(%s)' % f.S for f in sfnd.values()], ensures_override=ens, rel_sigs=rel_sigs, keep_sigs=keep_sigs, callee_contracts=callee_contracts)
                job2 = dict(job)
                job2.update({'id': jid + '_x', 'text': text2, 'lines': lines2, 'variant': 'outsideS'})
                jobs.append(job2)
        results = {}
        results_x = {}
        with ProcessPoolExecutor(max_workers=NPROC) as ex:
            futs = {ex.submit(_job_worker, j): j for j in jobs}
            for fu in as_completed(futs):
                r = fu.result()
                if futs[fu].get('variant') == 'outsideS':
                    r['variant'] = 'outsideS'
                    results_x[futs[fu]['key']] = r
                else:
                    results[futs[fu]['key']] = r
                log('[%s] %s %s %.1fs %s' % (r['status'], r['fn'], r.get('backend'), r['seconds'],
                                            ' '.join('%s=%s' % kv for kv in r['clauses'].items()) + ' ' + r['detail'][:300]))

        # ---------------- verdicts
        obligations = []   # dicts
        multi = {}
        for c in contracts:
            multi[c.fn] = multi.get(c.fn, 0) + 1
        violations = []
        pending = []
        known_lines = []
        undecided = list(infra)
        struct_violations = []
        for c in contracts:
            # structural obligation (contract option forbid_calls=regex): no call reachable from the function under contract, in the extracted
            # module, has a callee matching the regex (e.g. hardware reciprocal approximations in a non-lowp function).  Decided by a scan of
            # the IR call graph, independently of (and before) the value clauses, which may not even be expressible then.
            fc = getattr(c, 'forbid_calls', None)
            if fc and c.build in self.builds and getattr(self.builds[c.build], 'mod', None) is not None:
                chain = call_chain_to(self.builds[c.build].mod, (c.sig or {}).get('ir', c.fn) if c.sig else c.fn, fc)
                oid = '%s%s.structure:no_call_matching' % (c.fn, ('[%s]' % c.build) if multi.get(c.fn, 0) > 1 else '')
                obligations.append({'id': oid, 'kind': 'S', 'backend': 'ir-call-graph-scan', 'seconds': 0, 'status': 'refuted' if chain else 'discharged',
                                    'real': c.real, 'build': c.build, 'pattern': fc})
                if chain:
                    path = os.path.join(VERIF, 'replay', '%s_%s%s.structure_no_call_matching.json' % (
                        self.id, re.sub(r'\W', '_', c.fn)[:60], ('@' + re.sub(r'\W', '_', c.build)) if multi.get(c.fn, 0) > 1 else ''))
                    json.dump({'property': self.id, 'obligation': oid, 'function': c.fn, 'real': c.real, 'build': c.build, 'kind': 'S',
                               'clause': 'no call reachable from the function has a callee matching /%s/' % fc,
                               'verifier': {'backend': 'ir-call-graph-scan', 'status': 'FAILURE', 'log': 'call chain: ' + ' -> '.join(chain)},
                               'inputs': {}, 'why': 'structural: holds for no input or for all', 'reproduced_on_real_code': False}, open(path, 'w'), indent=1)
                    struct_violations.append({'line': 'VIOLATION property=%s replay=%s no-failing-input-found' % (self.id, path), 'obligation': oid, 'path': path,
                                              'reproduced': False})
        for c in contracts:
            ckey = c.fn + '@' + c.build
            if ckey not in results:
                continue
            r = results[ckey]
            c_, sig, ens, fnd = jobmeta[ckey]
            lab = c.fn if multi[c.fn] == 1 else '%s[%s]' % (c.fn, c.build)
            if r['status'] != 'done':
                undecided.append('%s: %s %s' % (lab, r['status'], r['detail'][:500]))
                continue
            if r['clauses'].get('__canary') != 'FAILURE':
                undecided.append('%s: canary clause did not fail (vacuous requires or unreachable exit)' % lab)
                continue
            missing = [n for n, _ in ens if n not in r['clauses']]
            if missing:
                undecided.append('%s: clauses without verdict: %s' % (lab, missing))
                continue

            def ob(name, status, **kw):
                d = {'id': '%s%s.%s' % (c.fn, ('[%s]' % c.build) if multi.get(c.fn, 0) > 1 else '', name), 'kind': c.kind, 'backend': r['backend'], 'seconds': round(r['seconds'], 2),
                     'status': status, 'real': c.real, 'build': c.build}
                if c.bounded:
                    d['bounded'] = c.bounded
                d.update(kw)
                obligations.append(d)
                return d
            # generated safety obligations (div by zero, UBSan traps, GLM asserts, frame checks), grouped by stable key
            groups = {}
            for pid, desc, st in r['safety']:
                groups.setdefault(safety_key(desc), []).append((pid, desc, st))
            for key, items in groups.items():
                nm = 'safety:' + key
                bad = [it for it in items if it[2] != 'SUCCESS']
                if not bad:
                    ob(nm, 'discharged', sites=len(items))
                    continue
                f = fnd.get(nm)
                if f is not None:
                    rx = results_x.get(ckey)
                    okx = rx is not None and rx['status'] == 'done' and rx['clauses'].get('__canary') == 'FAILURE' and \
                        all(st == 'SUCCESS' for (_, d2, st) in rx['safety'] if safety_key(d2) == key)
                    if okx:
                        wit = {k: parse_num(v) for k, v in (f.witness or {}).items()}
                        rp = run_replay(self.builds[c.build], self.builds[c.build].driver.shims[c.fn], c, wit, wd,
                                        re.sub(r'\W', '_', c.fn + '_w_' + key)[:100], sanitize=True)
                        if rp.get('ok') and rp.get('rc', 0) != 0 and 'runtime error' in (rp.get('err') or ''):
                            known_lines.append('KNOWN-FINDING: property=%s %s.%s reachable for inputs {%s} (witness %s); %s' % (
                                self.id, c.fn, nm, f.S, ' '.join('%s=%s' % kv for kv in (f.witness or {}).items()), f.what))
                            ob(nm + '__outsideS', 'discharged', note='unreachable outside the recorded input set S: ' + f.S, sites=len(items))
                            continue
                    ob(nm, 'refuted')
                    pending.append((c, sig, 'safety:' + bad[0][0], nm, (rx if (rx and not okx and rx['status'] == 'done') else r), wd,
                                    'reachable outside the recorded finding, or the witness no longer fails'))
                    continue
                ob(nm, 'refuted')
                pending.append((c, sig, 'safety:' + bad[0][0], nm, r, wd, bad[0][1]))
            for name, e in c.ensures:
                if name in fnd:
                    f = fnd[name]
                    so, sw = r['clauses'][name + '__orig'], r['clauses'][name + '__outsideS']
                    sp = r['clauses'].get(name + '__pinned', 'SUCCESS')
                    if so == 'SUCCESS':
                        ob(name, 'discharged', note='listed finding no longer reproduces (clause proves outright)')
                        continue
                    if sw == 'SUCCESS' and sp == 'SUCCESS':
                        wit = {k: parse_num(v) for k, v in (f.witness or {}).items()}
                        rp = self.replay(c, sig, wit, wd, 'w_' + name)
                        if rp.get('ok') and rp['clauses'].get(name) == 'BREACHED':
                            known_lines.append('KNOWN-FINDING: property=%s %s.%s fails for inputs {%s} (witness %s); %s' % (
                                self.id, c.fn, name, f.S, ' '.join('%s=%s' % kv for kv in (f.witness or {}).items()), f.what))
                            ob(name + '__outsideS', 'discharged', note='clause holds outside the recorded input set S: ' + f.S)
                            if f.pinned:
                                ob(name + '__pinned', 'discharged', note='behaviour on S is pinned: ' + f.pinned)
                            continue
                        else:
                            pending.append((c, sig, name + '__orig', name, r, wd,
                                                                  'clause fails but the recorded witness no longer breaches it'))
                            ob(name, 'refuted')
                            continue
                    which = name + '__outsideS' if sw != 'SUCCESS' else name + '__pinned'
                    pending.append((c, sig, which, name, r, wd, 'fails outside the recorded finding'))
                    ob(name, 'refuted')
                    continue
                st = r['clauses'][name]
                if st == 'SUCCESS':
                    ob(name, 'discharged')
                else:
                    ob(name, 'refuted')
                    pending.append((c, sig, name, name, r, wd, ''))
        with ThreadPoolExecutor(max_workers=NPROC) as ex:
            violations = list(ex.map(lambda a: self.make_violation(*a), pending))
        violations = struct_violations + violations
        # ---------------- report
        for l in known_lines:
            print(l)
        for u in undecided:
            print('UNDECIDED property=%s %s' % (self.id, u))
        for v in violations:
            print(v['line'])
        self.write_evidence(tier, seed, obligations, violations, results, time.time() - t0, undecided, tstats, known_lines, contracts)
        n_dis = sum(1 for o in obligations if o['status'] == 'discharged')
        print('%s: %d obligations, %d discharged, %d refuted, %d undecided, %d known findings, %.1fs' % (
            self.id, len(obligations), n_dis, sum(1 for o in obligations if o['status'] == 'refuted'), len(undecided), len(known_lines), time.time() - t0))
        if not keep:
            for p in glob.glob(os.path.join(wd, '*.gb')) + glob.glob(os.path.join(wd, '*.o')):
                try:
                    os.remove(p)
                except OSError:
                    pass
        if getattr(self, '_partial', False) and not keep:
            shutil.rmtree(wd, ignore_errors=True)
        if violations:
            return 1
        if undecided:
            return 2
        return 0

    def signature(self, c, b):
        if c.sig is not None:
            fn_ir = c.sig.get('ir', c.fn)
            if fn_ir not in b.mod.funcs or not b.mod.funcs[fn_ir].defined:
                raise Infra('function under contract not found in the extracted module (renamed or removed?): ' + fn_ir)
            return c.sig, fn_ir
        if c.fn not in b.driver.shims:
            raise Infra('no shim named ' + c.fn)
        if c.fn not in b.mod.funcs or not b.mod.funcs[c.fn].defined:
            raise Infra('shim missing from IR: ' + c.fn)
        return b.driver.shims[c.fn].view_sig(), c.fn

    def replay(self, c, sig, inputs, wd, tag):
        b = self.builds[c.build]
        if c.fn not in b.driver.shims:
            return {'ok': False, 'error': 'not a shim-level contract'}
        if c.kind == 'R':
            return run_replay_R(b, b.driver.shims[c.fn], c, inputs, wd, re.sub(r'\W', '_', c.fn + '_' + tag))
        return run_replay(b, b.driver.shims[c.fn], c, inputs, wd, re.sub(r'\W', '_', c.fn + '_' + c.build + '_' + tag), sanitize=(c.kind == 'U'),
                          rel_build=self.builds[c.rel[0]] if getattr(c, 'rel', None) else None)

    def make_violation(self, c, sig, clause_key, clause_name, r, wd, why):
        inputs = r['inputs'].get(clause_key) or r['inputs'].get(clause_name) or {}
        multi = sum(1 for x in self.contracts if x.fn == c.fn) > 1
        path = os.path.join(VERIF, 'replay', '%s_%s%s.%s.json' % (self.id, re.sub(r'\W', '_', c.fn)[:60], ('@' + re.sub(r'\W', '_', c.build)) if multi else '',
                                                               re.sub(r'\W', '_', clause_name)[:60]))
        rec = {'property': self.id, 'obligation': '%s.%s' % (c.fn, clause_name), 'function': c.fn, 'real': c.real, 'build': c.build,
               'kind': c.kind, 'clause': dict(c.ensures).get(clause_name, clause_name), 'requires': c.requires,
               'verifier': {'backend': r['backend'], 'status': 'FAILURE', 'log': r['log'][-2000:]}, 'inputs': inputs, 'why': why}
        suffix = ''
        if inputs or not sig['ins']:
            rp = self.replay(c, sig, inputs, wd, 'cex_' + clause_name)
            rec['replay'] = {k: rp.get(k) for k in ('ok', 'rc', 'out', 'err', 'clauses', 'pre', 'error')}
            reproduced = False
            if rp.get('ok'):
                if clause_name in rp['clauses']:
                    reproduced = rp['clauses'][clause_name] == 'BREACHED' and rp.get('pre', True)
                elif clause_key.startswith('safety:') or c.kind == 'U':
                    reproduced = rp.get('rc', 0) != 0 and ('runtime error' in rp.get('err', '') or rp.get('rc', 0) < 0)
            if not reproduced and rp.get('ok') and rp.get('exe') and c.kind == 'F' and clause_name in rp.get('clauses', {}):
                b_ = self.builds[c.build]
                hit, hout = native_refuter(rp['exe'], b_.driver.shims[c.fn], clause_name)
                if hit is not None:
                    rec['verifier_inputs_not_reproduced'] = inputs
                    rec['inputs'] = hit
                    rec['replay'] = {'ok': True, 'out': hout, 'found_by': 'native refuter (boundary + random inputs on the real code)'}
                    reproduced = True
            rec['reproduced_on_real_code'] = reproduced
            if not reproduced:
                suffix = ' no-failing-input-found'
        else:
            rec['reproduced_on_real_code'] = False
            suffix = ' no-failing-input-found'
        json.dump(rec, open(path, 'w'), indent=1)
        return {'line': 'VIOLATION property=%s replay=%s%s' % (self.id, path, suffix), 'obligation': rec['obligation'], 'path': path,
                'reproduced': rec['reproduced_on_real_code']}

    def write_evidence(self, tier, seed, obligations, violations, results, wall, undecided=(), tstats=None, known=(), contracts=()):
        dis = [o for o in obligations if o['status'] == 'discharged' and 'bounded' not in o]
        bnd = [o for o in obligations if o['status'] == 'discharged' and 'bounded' in o]
        trusted = set(['clang++-14 lowering at the stated flags', 'tools/ll2c.py (guarded by T-check + canaries)',
                       'CBMC 6.11 + goto-instrument --dfcc', 'SAT/SMT back ends'])
        fns = {}
        multi_b = {}
        for c in contracts:
            multi_b[c.fn] = multi_b.get(c.fn, 0) + 1
        for c in contracts:
            r = results.get(c.fn + '@' + c.build)
            if not r:
                continue
            fns[c.fn + ('@' + c.build if multi_b.get(c.fn, 0) > 1 else '')] = {'real': c.real, 'build': c.build, 'mode': self.builds[c.build].mode, 'kind': c.kind,
                         'backend': r.get('backend'), 'seconds': round(r.get('seconds', 0), 2), 'solver_s': r.get('solver_s', 0),
                         'status': r.get('status'), 'replaced_callees': c.replace}
            for t in (r.get('translate') or {}).get('trusted', []):
                trusted.add(t)
            for l in (r.get('translate') or {}).get('libm', []):
                trusted.add('libm:' + l + (' (CBMC model)' if l in ll2c.LIBM_CBMC else ' (uninterpreted function / own model)'))
        samples = []
        for c in list(contracts)[:3]:
            samples.append({'function': c.fn, 'real': c.real, 'requires': c.requires, 'ensures': c.ensures[:4]})
        ev = {
            'property_id': self.id, 'tier': tier, 'seed': int(seed), 'level': 'proof',
            'coverage': {
                'obligations': len(dis) + sum(1 for o in obligations if o['status'] == 'refuted'),
                'discharged': len(dis),
                'checker_cmd': 'clang++-14 -S -emit-llvm | tools/ll2c.py | goto-cc | goto-instrument --dfcc h_entry --enforce-contract <f> '
                               '[--replace-call-with-contract <g>] | cbmc --unwind N --unwinding-assertions [--z3|--cvc5]',
                'trusted_base': sorted(trusted),
                'functions_under_contract': fns,
                # one entry per function under contract (the per-obligation list, with solver times, is in evidence/<id>.obligations.jsonl.gz;
                # an evidence file has to stay well below 5 MB)
                'obligation_list': compact_obligations(obligations),
                'obligation_list_full': 'evidence/%s.obligations.jsonl.gz' % self.id,
                'bounded': compact_bounded(bnd),
                'undecided': list(undecided),
                'known_findings': list(known),
                'tcheck': tstats or {},
                'canaries': {fn: r['clauses'].get('__canary') for fn, r in results.items() if r.get('clauses')},
                'samples': samples or [{'note': 'no obligation ran'}],
                'not_covered': list(self.not_covered) + (['thorough-tier contracts attempted and left undecided within the time limit on the unchanged tree '
                                                          '(not claimed; unclaimed_thorough.json): ' + ', '.join(getattr(self, '_unclaimed', []))]
                                                         if getattr(self, '_unclaimed', None) else []),
                'solver_seconds_total': round(sum(r.get('solver_s', 0) for r in results.values()), 2),
            },
            'assumptions': self.assumptions,
            'wall_s': round(wall, 2),
            'violations': len(violations),
        }
        if not getattr(self, '_partial', False):
            import gzip
            with gzip.open(os.path.join(VERIF, 'evidence', self.id + '.obligations.jsonl.gz'), 'wt', compresslevel=6) as gz:
                for o in obligations:
                    gz.write(json.dumps(o) + '\n')
        if not dis:
            # schema requires >= 1 for proof-level keys; an empty run is recorded honestly as 'other'
            ev['level'] = 'other'
            ev['coverage']['explanation'] = 'no obligation was discharged in this run: ' + '; '.join(list(undecided)[:3])
        evp = os.path.join(VERIF, 'evidence', self.id + '.json') if not getattr(self, '_partial', False) else os.path.join(self._wd, 'evidence_partial.json')
        open(evp, 'w').write(shrink_evidence(ev))


def _parse_ll(path):
    try:
        return llir.parse_module(open(path).read())
    except llir.Unsupported as e:
        return str(e)


def replay_file(P, path):
    """./check <id> --replay <file>: re-run the recorded counterexample against the real code"""
    rec = json.load(open(path))
    wd = os.path.join(WORK, P.id + '_replay')
    os.makedirs(wd, exist_ok=True)
    cs = [c for c in P.contracts if c.fn == rec['function']]
    if not cs:
        print('no contract named', rec['function'])
        return 2
    c = ([x for x in cs if x.build == rec.get('build')] or cs)[0]
    b = P.builds[c.build]
    compile_build(b, wd)
    if c.fn not in b.driver.shims:
        print('obligation %s is on an internal function; verifier output:\n%s' % (rec['obligation'], rec['verifier']['log']))
        return 1
    inputs = {k: int(v) for k, v in rec['inputs'].items()}
    if c.kind == 'R':
        rp = run_replay_R(b, b.driver.shims[c.fn], c, inputs, wd, 'file')
    else:
        rb = None
        if getattr(c, 'rel', None):
            rb = P.builds[c.rel[0]]
            compile_build(rb, wd)
        rp = run_replay(b, b.driver.shims[c.fn], c, inputs, wd, 'file', sanitize=(c.kind == 'U'), rel_build=rb)
    print('obligation:', rec['obligation'])
    print('inputs:', rec['inputs'])
    print(rp.get('out', ''), rp.get('err', '') or '', rp.get('error', '') or '')
    name = rec['obligation'].split('.', 1)[1]
    if rp.get('ok') and (rp['clauses'].get(name) == 'BREACHED' or (c.kind == 'U' and rp.get('rc'))):
        print('REPRODUCED on the real code')
        return 1
    print('not reproduced on the real code')
    return 0
