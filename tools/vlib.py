#!/usr/bin/env python3
"""vlib.py - the verification framework: driver (shim) generation, extraction (clang++ -> LLVM IR ->
ll2c), translator validation (T-check), contract harness generation, CBMC/DFCC runs, counterexample
extraction, native replay against the real code, known findings, evidence.  See DESIGN.md.

Exit codes of a check:  0 all claimed obligations discharged;  1 a named obligation is refuted
(VIOLATION line printed);  2 undecided / infrastructure (never presented as a violation).
"""
import subprocess, os, sys, re, json, time, subprocess, hashlib, shutil, random, struct, traceback
from concurrent.futures import ProcessPoolExecutor, as_completed

HERE = os.path.dirname(os.path.abspath(__file__))
VERIF = os.path.dirname(HERE)
sys.path.insert(0, HERE)
import llir, ll2c

REPO = os.environ.get('VERIF_REPO', '/repo')
WORK = os.path.join(VERIF, '.work')
RT = os.path.join(VERIF, 'rt')
SPECS = os.path.join(VERIF, 'specs')
NPROC = int(os.environ.get('VERIF_JOBS', '16'))

CLANG_BASE = ['clang++-14', '-std=c++17', '-fno-exceptions', '-fno-rtti', '-fno-vectorize', '-fno-slp-vectorize',
              '-ffp-contract=off', '-fno-strict-aliasing', '-S', '-emit-llvm', '-Wno-everything']
MODE_FLAGS = {
    'flat': ['-O2', '-DNDEBUG'],
    'flat_O0': ['-O0', '-DNDEBUG'],
    'flat_O1': ['-O1', '-DNDEBUG'],
    'flat_O3': ['-O3', '-DNDEBUG'],
    'modular': ['-O1', '-fno-inline', '-DNDEBUG'],
    'ubsan': ['-O1', '-gline-tables-only', '-fsanitize=undefined,float-cast-overflow', '-fsanitize-trap=all',
              '-fno-sanitize=vptr,function'],
}

CPP2VIEW = {
    'bool': 'u8', 'char': 'u8', 'signed char': 'u8', 'unsigned char': 'u8', 'int8_t': 'u8', 'uint8_t': 'u8',
    'int16_t': 'u16', 'uint16_t': 'u16', 'short': 'u16', 'unsigned short': 'u16',
    'int32_t': 'u32', 'uint32_t': 'u32', 'int': 'u32', 'unsigned': 'u32', 'unsigned int': 'u32',
    'int64_t': 'u64', 'uint64_t': 'u64', 'long': 'u64', 'unsigned long': 'u64', 'long long': 'u64',
    'unsigned long long': 'u64', 'size_t': 'u64',
    'float': 'float', 'double': 'double', 'void': 'void',
}
VIEW_BITS = {'u8': 8, 'u16': 16, 'u32': 32, 'u64': 64, 'float': 32, 'double': 64}
NONDET = {'u8': 'nondet_u8()', 'u16': 'nondet_u16()', 'u32': 'nondet_u32()', 'u64': 'nondet_u64()',
          'float': 'nondet_float()', 'double': 'nondet_double()'}


class Infra(Exception):
    """infrastructure failure -> exit 2"""
    pass


def _child_setup():
    """child: own session (so the whole tree can be killed) + die when the parent python dies"""
    os.setsid()
    try:
        import ctypes
        ctypes.CDLL('libc.so.6').prctl(1, 9)   # PR_SET_PDEATHSIG, SIGKILL
    except Exception:
        pass


def _kill_tree(p):
    import signal
    try:
        os.killpg(p.pid, signal.SIGKILL)
    except Exception:
        pass
    try:
        p.kill()
    except Exception:
        pass


def sh(cmd, timeout=None, cwd=None, mem_gb=8, inp=None):
    """run with memory limit in its own process group; on timeout the whole group (cbmc AND the SMT solver it spawned)
    is killed.  returns (rc, stdout, stderr, seconds)"""
    t0 = time.time()
    pre = 'ulimit -v %d; ' % (mem_gb * 1024 * 1024)
    if isinstance(cmd, list):
        cmdline = pre + 'exec ' + ' '.join(shq(c) for c in cmd)
    else:
        cmdline = pre + cmd
    p = subprocess.Popen(['bash', '-c', cmdline], stdout=subprocess.PIPE, stderr=subprocess.PIPE, cwd=cwd,
                         stdin=subprocess.PIPE if inp is not None else subprocess.DEVNULL, preexec_fn=_child_setup)
    try:
        so, se = p.communicate(input=inp, timeout=timeout)
        _kill_tree(p)  # stragglers of the group, if any
        return p.returncode, so.decode('utf8', 'replace'), se.decode('utf8', 'replace'), time.time() - t0
    except subprocess.TimeoutExpired:
        _kill_tree(p)
        try:
            so, se = p.communicate(timeout=5)
        except Exception:
            so, se = b'', b''
        return -999, (so or b'').decode('utf8', 'replace'), 'TIMEOUT', time.time() - t0


def sh_race(cmds, timeout=None, mem_gb=8, valid=None):
    """run several commands concurrently; first one to exit with output wins, the others are killed.
    returns (index, rc, stdout, stderr, seconds)"""
    import tempfile, signal
    t0 = time.time()
    procs = []
    for cmd in cmds:
        pre = 'ulimit -v %d; ' % (mem_gb * 1024 * 1024)
        fo = tempfile.TemporaryFile()
        fe = tempfile.TemporaryFile()
        p = subprocess.Popen(['bash', '-c', pre + 'exec ' + ' '.join(shq(c) for c in cmd)], stdout=fo, stderr=fe, preexec_fn=_child_setup)
        procs.append((p, fo, fe))
    winner = None
    while True:
        for i, (p, fo, fe) in enumerate(procs):
            rc = p.poll()
            if rc is not None and winner is None:
                fo.seek(0)
                out = fo.read().decode('utf8', 'replace')
                # a crashed/killed solver (rc not in 0,10) without results does not win
                if (rc in (0, 10) and (valid is None or valid(i, out))) or all(q.poll() is not None for q, _, _ in procs):
                    winner = (i, rc, out)
        if winner is not None:
            break
        if timeout and time.time() - t0 > timeout:
            break
        time.sleep(0.05)
    for p, fo, fe in procs:
        _kill_tree(p)
        try:
            p.wait(timeout=5)
        except Exception:
            pass
    if winner is None:
        return -1, -999, '', 'TIMEOUT', time.time() - t0
    i, rc, out = winner
    procs[i][2].seek(0)
    err = procs[i][2].read().decode('utf8', 'replace')
    return i, rc, out, err, time.time() - t0


def shq(s):
    if re.fullmatch(r'[-A-Za-z0-9_./=,+:@%]+', s):
        return s
    return "'" + s.replace("'", "'\\''") + "'"


# =====================================================================================
# declarations
# =====================================================================================
class Shim:
    def __init__(self, name, ret, ins, outs, body, note='', tmask=None):
        self.tmask = dict(tmask or {})   # translator validation only: {parameter: bit mask applied to its sampled inputs} (e.g. a step count)
        self.name = name          # C symbol
        self.ret = ret            # C++ scalar type or 'void'
        self.ins = ins            # [(cpptype, name)]
        self.outs = outs          # [(cpptype, name, count)]
        self.body = body          # C++ statements; must 'return' if ret != void
        self.note = note

    def cpp(self):
        ps = ['%s %s' % (t, n) for (t, n) in self.ins] + ['%s* %s' % (t, n) for (t, n, c) in self.outs]
        return 'SHIM %s %s(%s) { %s }' % (self.ret, self.name, ', '.join(ps) or 'void', self.body)

    def view_sig(self):
        return {'ret': CPP2VIEW[self.ret],
                'ins': [(CPP2VIEW[t], n) for (t, n) in self.ins],
                'outs': [(CPP2VIEW[t], n, c) for (t, n, c) in self.outs],
                'cpp_ret': self.ret, 'cpp_ins': [t for t, n in self.ins], 'cpp_outs': [t for t, n, c in self.outs]}


class Driver:
    """a generated C++ translation unit: includes + shims; compiled in one or more builds"""

    def __init__(self, name, includes, prelude=''):
        self.name = name
        self.includes = includes
        self.prelude = prelude
        self.shims = {}
        self.order = []

    def shim(self, name, ret, ins, body, outs=(), note='', tmask=None):
        if name in self.shims:
            raise Infra('duplicate shim ' + name)
        s = Shim(name, ret, list(ins), list(outs), body, note, tmask)
        self.shims[name] = s
        self.order.append(name)
        return s

    def source(self, defines=(), only=None):
        L = ['// generated by /verif/tools/vlib.py - shims only: one call of the real function + scalar loads/stores']
        for d in defines:
            L.append('#define ' + d)
        L.append('#include <cstdint>')
        L.append('#include <cstring>')
        for i in self.includes:
            L.append('#include ' + i)
        L.append('#ifndef SHIM')
        L.append('#define SHIM extern "C" __attribute__((flatten))')
        L.append('#endif')
        L.append(self.prelude)
        for n in self.order:
            if only is None or n in only:
                L.append(self.shims[n].cpp())
        return '\n'.join(L) + '\n'


class Build:
    """one compilation of a driver: mode flat|modular|ubsan, extra defines/flags, symbol prefix"""

    def __init__(self, driver, mode='flat', defines=(), flags=(), tag=None, prefix=''):
        self.driver, self.mode, self.defines, self.flags = driver, mode, list(defines), list(flags)
        self.tag = tag or (driver.name + '_' + mode)
        self.only = None   # optional set of shim names compiled in this build (others do not exist in it)
        self.prefix = prefix
        self.mod = None
        self.ll = None
        self.compile_s = 0


class Contract:
    """contract on one extracted function.
    fn        C symbol of the function under contract (shim name or sanitised mangled name)
    real      human-readable name of the real GLM function(s) + file
    requires  [(name, expr)]    ensures [(name, expr)]   assigns [expr]
    In expressions: RESULT, OLD(e), parameter names from the shim; spec functions from /verif/specs.
    """

    def __init__(self, fn, real, requires=(), ensures=(), assigns=None, build=None, unwind=1, backends=('sat',),
                 replace=(), kind='F', bounded=None, timeout=300, sig=None, tier='quick', uses=(), flags=(),
                 poison_flags=False, note='', uf_float=(), rel=None, assumed_ensures=None, forbid_calls=None, loops=()):
        self.fn, self.real = fn, real
        self.requires, self.ensures = list(requires), list(ensures)
        self.assigns = assigns
        self.build, self.unwind, self.backends = build, unwind, tuple(backends)
        self.replace, self.kind, self.bounded, self.timeout = list(replace), kind, bounded, timeout
        self.sig = sig  # explicit signature for non-shim functions
        self.tier = tier
        self.uses = list(uses)   # other extracted functions referenced from clauses (relational)
        self.flags = list(flags)
        self.poison_flags = poison_flags
        self.uf_float = tuple(uf_float)
        self.forbid_calls = forbid_calls   # regex: structural obligation "no reachable call to a matching callee" (engine.call_chain_to)
        # what callers may assume when this contract replaces a call: by default the ensures themselves; optionally the same facts
        # stated with an ABSTRACT (uninterpreted) predicate, so that caller proofs are parametric in the predicate (see C07)
        self.assumed_ensures = list(assumed_ensures) if assumed_ensures else None
        self.rel = rel   # (other build tag, [function names]): extracted from another build with prefix R_ (relational contracts)
        self.note = note
        # loop contracts, one string per single-block loop of the extracted function in order of appearance: CBMC clauses
        # (__CPROVER_loop_invariant(...) __CPROVER_decreases(...)) over the shim's parameter names and PHI(k), the k-th phi of the loop
        # header; closed by goto-instrument --apply-loop-contracts (inductive: no unwinding bound on that loop)
        self.loops = list(loops)


class Finding:
    """a recorded genuine defect: clause `obligation` fails exactly on the input set S (C expr over the
    contract's parameters); optionally pinned: what the code does instead on S; witness: one input."""

    def __init__(self, prop, obligation, S, witness, pinned=None, what=''):
        self.prop, self.obligation, self.S, self.witness, self.pinned, self.what = prop, obligation, S, witness, pinned, what


def load_findings(path=None):
    path = path or os.path.join(VERIF, 'known_findings.txt')
    out = []
    fixed = []
    if not os.path.exists(path):
        return out, fixed
    cur = None
    for raw in open(path):
        line = raw.rstrip('\n')
        if not line.strip() or line.strip().startswith('#'):
            continue
        if line.startswith('finding:'):
            kv = dict(re.findall(r'(\w+)=(\S+)', line))
            mo = re.search(r'obligation=(.*\S)\s*$', line)   # safety obligation keys contain a space: take the rest of the line
            if mo:
                kv['obligation'] = mo.group(1)
            cur = {'prop': kv['property'], 'obligation': kv['obligation'], 'S': None, 'pinned': None, 'witness': None, 'what': ''}
            out.append(cur)
        elif line.startswith('fixed:'):
            fixed.append(line)
            cur = None
        elif cur is not None and ':' in line:
            k, v = line.strip().split(':', 1)
            v = v.split('   #')[0].strip()
            if k == 'inputs':
                cur['S'] = v
            elif k == 'pinned':
                cur['pinned'] = v
            elif k == 'witness':
                cur['witness'] = dict((a, b) for a, b in re.findall(r'(\w+)=(\S+)', v))
            elif k == 'what':
                cur['what'] = v
    return [Finding(c['prop'], c['obligation'], c['S'], c['witness'], c['pinned'], c['what']) for c in out], fixed


# =====================================================================================
# extraction
# =====================================================================================
def compile_build(b, workdir):
    src = os.path.join(workdir, b.tag + '.cpp')
    ll = os.path.join(workdir, b.tag + '.ll')
    open(src, 'w').write(b.driver.source(b.defines, only=getattr(b, 'only', None)))
    # the vectoriser switches must come AFTER -O<n> (clang re-enables them otherwise)
    cmd = CLANG_BASE + MODE_FLAGS[b.mode] + ['-fno-vectorize', '-fno-slp-vectorize'] + b.flags + ['-I' + REPO, src, '-o', ll]
    rc, so, se, dt = sh(cmd, timeout=600, mem_gb=16)
    if rc != 0:
        raise Infra('driver %s does not compile against %s:\n%s' % (b.tag, REPO, se[-3000:]))
    b.ll = ll
    b.src = src
    b.compile_s = dt
    return b


def parse_build(b):
    try:
        b.mod = llir.parse_module(open(b.ll).read())
    except llir.Unsupported as e:
        raise Infra('IR of %s outside the ll2c table: %s' % (b.tag, e))
    return b


# =====================================================================================
# T-check: generated C vs the real shims, natively
# =====================================================================================
SPECIAL_F32 = [0x00000000, 0x80000000, 0x00000001, 0x80000001, 0x007fffff, 0x00800000, 0x3f000000, 0x3effffff,
               0x3f800000, 0xbf800000, 0x3fc00000, 0x40200000, 0x4b000000, 0x4b800000, 0x4f000000, 0xcf000000,
               0x4f800000, 0x5f000000, 0x7f7fffff, 0xff7fffff, 0x7f800000, 0xff800000, 0x7fc00000, 0xffc00000,
               0x38800000, 0x387fc000, 0x33000000, 0x33000001, 0x477fe000, 0x477ff000, 0x47800000,
               0x3f7fffff, 0x3f800001, 0x40490fdb, 0xc0490fdb, 0x3c008081, 0x3b808081]
SPECIAL_INT = [0, 1, 2, 3, 7, 8, 15, 16, 31, 32, 63, 64, 127, 128, 255, 256, 0x7fff, 0x8000, 0xffff, 0x10000,
               0x7fffffff, 0x80000000, 0xffffffff, 0x100000000, 0x7fffffffffffffff, 0x8000000000000000,
               0xffffffffffffffff, 0xfffffffffffffffe, 0x5555555555555555, 0xaaaaaaaaaaaaaaaa]


def gen_inputs(view, rnd, n):
    out = []
    if view == 'float':
        sp = SPECIAL_F32
        for i in range(n):
            r = rnd.random()
            if r < 0.35:
                out.append(rnd.choice(sp))
            elif r < 0.6:
                # moderate magnitudes
                f = rnd.uniform(-4, 4) if rnd.random() < 0.5 else rnd.uniform(-70000, 70000)
                out.append(struct.unpack('<I', struct.pack('<f', f))[0])
            else:
                out.append(rnd.getrandbits(32))
        # signalling NaNs are outside every property (libm and inline min/max sequences treat them differently): quiet them
        return [(v | 0x00400000) if (v & 0x7f800000) == 0x7f800000 and (v & 0x007fffff) else v for v in out]
    if view == 'double':
        for i in range(n):
            r = rnd.random()
            if r < 0.35:
                f32 = rnd.choice(SPECIAL_F32)
                d = struct.unpack('<f', struct.pack('<I', f32))[0]
                out.append(struct.unpack('<Q', struct.pack('<d', d))[0])
            elif r < 0.6:
                out.append(struct.unpack('<Q', struct.pack('<d', rnd.uniform(-100, 100)))[0])
            else:
                out.append(rnd.getrandbits(64))
        return [(v | (1 << 51)) if (v & 0x7ff0000000000000) == 0x7ff0000000000000 and (v & 0x000fffffffffffff) else v for v in out]
    bits = VIEW_BITS[view]
    for i in range(n):
        r = rnd.random()
        if r < 0.4:
            out.append(rnd.choice(SPECIAL_INT) & ((1 << bits) - 1))
        elif r < 0.6:
            out.append(rnd.getrandbits(rnd.randint(1, bits)))
        else:
            out.append(rnd.getrandbits(bits))
    return out


def tcheck(builds, workdir, seed, n_inputs, log):
    """compile generated C (prefix T_) and the real drivers natively; compare bits. returns stats dict.
    One forked worker per build (the parsed modules are inherited)."""
    stats = {'shims': 0, 'inputs': 0, 'compared': 0, 'skipped_poison': 0, 'mismatches': 0, 'compilers': ['g++ -O2']}
    todo = [b for b in builds if b.mode != 'ubsan']
    global _TCHECK_BUILDS
    _TCHECK_BUILDS = {b.tag: b for b in todo}
    logs = []
    if todo:
        import multiprocessing
        ctx = multiprocessing.get_context('fork')
        with ProcessPoolExecutor(max_workers=min(NPROC, len(todo)), mp_context=ctx) as ex:
            for st, lg, err in ex.map(_tcheck_one, [(b.tag, workdir, seed, n_inputs) for b in todo]):
                if err:
                    raise Infra(err)
                for k in ('shims', 'inputs', 'compared', 'skipped_poison', 'mismatches'):
                    stats[k] += st[k]
                if st.get('never_compared'):
                    stats.setdefault('never_compared', []).extend(st['never_compared'])
                for l in lg:
                    log(l)
    return stats


_TCHECK_BUILDS = {}


def _tcheck_one(arg):
    tag, workdir, seed, n_inputs = arg
    lg = []
    try:
        st = _tcheck_build(_TCHECK_BUILDS[tag], workdir, seed, n_inputs, lg.append)
        return st, lg, None
    except Infra as e:
        return None, lg, str(e)
    except Exception:
        return None, lg, 'T-check worker exception: ' + traceback.format_exc()[-1500:]


def _tcheck_build(b, workdir, seed, n_inputs, log):
    stats = {'shims': 0, 'inputs': 0, 'compared': 0, 'skipped_poison': 0, 'mismatches': 0}
    for b in [b]:
        rnd = random.Random(seed)
        names = [n for n in b.driver.order if (b.prefix + n) in b.mod.funcs or n in b.mod.funcs]
        t_tr = time.time()
        try:
            text, info = ll2c.translate(b.mod, roots=names, prefix='T_', poison_flags=True)
        except llir.Unsupported as e:
            raise Infra('ll2c: unsupported construct in %s: %s' % (b.tag, e))
        gen = os.path.join(workdir, b.tag + '_tgen.c')
        open(gen, 'w').write(text)
        log('T-check %s: translated %d shims, %d lines, %.1fs' % (b.tag, len(names), text.count('\n'), time.time() - t_tr))
        # main
        L = ['#include "ll2c_rt.h"', '#include <stdio.h>', '#include <string.h>',
             'int ll2c_poison_seen, ll2c_trap_seen; const char *ll2c_trap_msg; jmp_buf ll2c_trap_jmp;',
             'static unsigned long n_cmp, n_skip, n_bad;']
        for n in names:
            s = b.driver.shims[n].view_sig()
            ps = [t for t, _ in s['ins']] + [t + '*' for t, _, _ in s['outs']]
            # the real function is declared with the signedness of its C++ parameters: clang relies on the caller's sign extension of
            # int8_t/int16_t arguments (signext), so passing them as u8/u16 would hand it a differently extended register
            SGN = {'int8_t': 's8', 'int16_t': 's16', 'signed char': 's8', 'short': 's16'}
            ps_real = [SGN.get(ct, t) for (t, _), ct in zip(s['ins'], s['cpp_ins'])] + [t + '*' for t, _, _ in s['outs']]
            L.append('extern %s %s(%s);' % (s['ret'], n, ', '.join(ps_real) or 'void'))
            L.append('extern %s T_%s(%s);' % (s['ret'], n, ', '.join(ps) or 'void'))
        nsz = any('nsz' in t for t in info.get('trusted', [])) or any(l in ('fminf', 'fmaxf', 'fmin', 'fmax') for l in info.get('libm', []))  # sign of fmin/fmax(+0,-0) is unspecified
        zs = ' || (a == 0 && b == 0)' if nsz else ''
        L.append('static int eqf(float a, float b){ u32 x=ll2c_f32_bits(a), y=ll2c_f32_bits(b); return x==y || (a!=a && b!=b)%s; }' % zs)
        L.append('static int eqd(double a, double b){ u64 x=ll2c_f64_bits(a), y=ll2c_f64_bits(b); return x==y || (a!=a && b!=b)%s; }' % zs)
        L.append('int main(void){')
        for n in names:
            s = b.driver.shims[n].view_sig()
            stats['shims'] += 1
            cols = [([rnd.randint(0, 1) for _ in range(n_inputs)] if cppt == 'bool' else gen_inputs(t, rnd, n_inputs)) for (t, _), cppt in zip(s['ins'], s['cpp_ins'])]
            tm = b.driver.shims[n].tmask
            if tm:
                cols = [[v & tm[nm_]for v in col] if nm_ in tm else col for col, (t_, nm_) in zip(cols, s['ins'])]
            k = n_inputs if s['ins'] else 1
            stats['inputs'] += k
            L.append('{ /* %s */ unsigned long cmp0_%s = n_cmp;' % (n, n))
            for ci, (t, nm) in enumerate(s['ins']):
                it = {'float': 'u32', 'double': 'u64'}.get(t, t)
                suffix = 'ull' if VIEW_BITS[t] == 64 else 'u'
                L.append(' static const %s in%d[%d] = {%s};' % (it, ci, k, ', '.join('0x%x%s' % (v, suffix) for v in cols[ci])))
            L.append(' for (int k = 0; k < %d; k++) {' % k)
            args = []
            for ci, (t, nm) in enumerate(s['ins']):
                if t == 'float':
                    args.append('ll2c_bits_f32(in%d[k])' % ci)
                elif t == 'double':
                    args.append('ll2c_bits_f64(in%d[k])' % ci)
                else:
                    args.append('in%d[k]' % ci)
            oa, ob = [], []
            for oi, (t, nm, c) in enumerate(s['outs']):
                L.append('  %s oa%d[%d], ob%d[%d]; memset(oa%d, 0x5a, sizeof oa%d); memset(ob%d, 0x5a, sizeof ob%d);' % (t, oi, c, oi, c, oi, oi, oi, oi))
                oa.append('oa%d' % oi)
                ob.append('ob%d' % oi)
            L.append('  ll2c_poison_seen = 0; ll2c_trap_seen = 0;')
            rt = s['ret']
            if rt != 'void':
                L.append('  %s ra, rb;' % rt)
                L.append('  if (setjmp(ll2c_trap_jmp) == 0) ra = T_%s(%s);' % (n, ', '.join(args + oa)))
            else:
                L.append('  if (setjmp(ll2c_trap_jmp) == 0) T_%s(%s);' % (n, ', '.join(args + oa)))
            L.append('  if (ll2c_poison_seen || ll2c_trap_seen) { n_skip++; continue; }')
            L.append('  %s%s(%s);' % ('rb = ' if rt != 'void' else '', n, ', '.join(args + ob)))
            conds = []
            if rt == 'float':
                conds.append('eqf(ra, rb)')
            elif rt == 'double':
                conds.append('eqd(ra, rb)')
            elif rt != 'void':
                conds.append('ra == rb')
            for oi, (t, nm, c) in enumerate(s['outs']):
                for j in range(c):
                    if t == 'float':
                        conds.append('eqf(oa%d[%d], ob%d[%d])' % (oi, j, oi, j))
                    elif t == 'double':
                        conds.append('eqd(oa%d[%d], ob%d[%d])' % (oi, j, oi, j))
                    else:
                        conds.append('oa%d[%d] == ob%d[%d]' % (oi, j, oi, j))
            L.append('  n_cmp++; if (!(%s)) { n_bad++; if (n_bad < 20) printf("MISMATCH %s input#%%d\\n", k); }' % (' && '.join(conds) or '1', n))
            L.append(' }')
            L.append(' if (n_cmp == cmp0_%s) printf("NEVERCOMPARED %s\\n");' % (n, n))
            L.append('}')
        L.append(' printf("TCHECK cmp=%lu skip=%lu bad=%lu\\n", n_cmp, n_skip, n_bad); return n_bad != 0;')
        L.append('}')
        mainc = os.path.join(workdir, b.tag + '_tmain.c')
        open(mainc, 'w').write('\n'.join(L) + '\n')
        exe = os.path.join(workdir, b.tag + '_tcheck')
        realo = os.path.join(workdir, b.tag + '_real.o')
        cxxflags = ['-O2', '-DNDEBUG', '-std=c++17', '-ffp-contract=off', '-fno-strict-aliasing', '-w'] + b.flags
        cmds = [
            ['g++'] + cxxflags + ['-I' + REPO, '-c', b.src, '-o', realo],
            ['gcc', '-O0', '-ffp-contract=off', '-fno-strict-aliasing', '-w', '-I' + RT, '-c', gen, '-o', gen + '.o'],
            ['gcc', '-O0', '-w', '-I' + RT, '-c', mainc, '-o', mainc + '.o'],
        ]
        for c in cmds:
            if c[0] == 'g++' and getattr(b, 'native_cc', None):
                # configuration macros whose meaning depends on the compiler (GLM_FORCE_CXX98 under clang keeps __has_feature-detected
                # language features, under g++ it does not): the native reference must be built by the compiler of the extraction
                c = [b.native_cc] + c[1:]
                stats.setdefault('native_reference_clang', []).append(b.tag)
            rc, so, se, dt = sh(c, timeout=900, mem_gb=16)
            log('T-check %s: %s %.1fs' % (b.tag, ' '.join(c[:2]), dt))
            if rc != 0 and c[0] == 'g++':
                # some configurations (e.g. GLM_FORCE_INLINE: always_inline through a function pointer) are rejected by g++ itself;
                # fall back to clang++ for the native reference build and say so
                log('T-check %s: g++ rejects this configuration (%s); using clang++-14 -O2 for the native reference' % (b.tag, se.strip().splitlines()[-1][:160] if se.strip() else ''))
                c = ['clang++-14'] + c[1:]
                rc, so, se, dt = sh(c, timeout=900, mem_gb=16)
                stats.setdefault('native_reference_clang', []).append(b.tag)
            if rc != 0:
                raise Infra('T-check build failed (%s): %s' % (' '.join(c[:3]), se[-2000:]))
        rc, so, se, dt = sh(['g++', realo, gen + '.o', mainc + '.o', '-lm', '-o', exe], timeout=300)
        if rc != 0:
            raise Infra('T-check link failed: ' + se[-2000:])
        rc, so, se, dt = sh([exe], timeout=900)
        m = re.search(r'TCHECK cmp=(\d+) skip=(\d+) bad=(\d+)', so)
        if not m:
            raise Infra('T-check crashed for %s (rc=%d): %s %s' % (b.tag, rc, so[-500:], se[-500:]))
        stats['compared'] += int(m.group(1))
        stats['skipped_poison'] += int(m.group(2))
        stats['mismatches'] += int(m.group(3))
        nc = re.findall(r'NEVERCOMPARED (\S+)', so)
        if nc:
            stats.setdefault('never_compared', []).extend(nc)
            log('T-check: shims whose every input was skipped (poison/trap in the generated code): ' + ' '.join(nc))
        if int(m.group(3)):
            log('T-check mismatch in %s:\n%s' % (b.tag, so[-2000:]))
    return stats


# =====================================================================================
# CBMC jobs
# =====================================================================================
def clause_expr(e):
    e = re.sub(r'\bRESULT\b', '__CPROVER_return_value', e)
    e = re.sub(r'\bOLD\(', '__CPROVER_old(', e)
    return e


def rel_wrappers(rel_sigs, cxx=False):
    """component accessors for relational counterparts with out buffers:  R_f__o<k>_<i>(args) = i-th element of the k-th out buffer"""
    L = []
    for name, s in rel_sigs.items():
        if not s['outs']:
            continue
        ps = ', '.join('%s %s' % (t, n) for t, n in s['ins'])
        for k, (t, on, cnt) in enumerate(s['outs']):
            for i in range(cnt):
                bufs = ' '.join('%s ob__%d[%d];' % (t2, k2, c2) for k2, (t2, _, c2) in enumerate(s['outs']))
                if cxx:
                    cargs = ', '.join(['(%s)%s' % (ct, n) for (t_, n), ct in zip(s['ins'], s['cpp_ins'])] + ['(%s*)ob__%d' % (ct, k2) for k2, ct in enumerate(s['cpp_outs'])])
                else:
                    cargs = ', '.join([n for _, n in s['ins']] + ['ob__%d' % k2 for k2 in range(len(s['outs']))])
                L.append('static inline %s R_%s__o%d_%d(%s) { %s R_%s(%s); return ob__%d[%d]; }' % (t, name, k, i, ps or 'void', bufs, name, cargs, k, i))
    return L


def harness_text(c, sig, gen_text, extra_requires=(), ensures_override=None, canary=True, rel_sigs=None, keep_sigs=None, callee_contracts=None):
    """C file: generated code + contract declaration + harness.  returns (text, {line: clause name})"""
    L = ['#define LL2C_CBMC 1', gen_text, '#include "specs.h"']
    params = ['%s %s' % (t, n) for t, n in sig['ins']] + ['%s *%s' % (t, n) for t, n, cnt in sig.get('ptr_ins', [])] + \
        ['%s *%s' % (t, n) for t, n, cnt in sig['outs']]
    fn_contract = c.fn
    rel_bufs = []      # (type, name, count) result buffers of the relational counterparts
    if rel_sigs:
        # relational contract against another extraction: the function under contract is the JOINT function that runs the
        # function of this build and its counterpart(s) R_<name> once on the same arguments; the clauses compare the buffers
        fn_contract = 'J__' + c.fn
        body = []
        for rn, rs in rel_sigs.items():
            rargs = [n for _, n in rs['ins']]
            for k, (t, on, cnt) in enumerate(rs['outs']):
                rel_bufs.append((t, 'R_%s__o%d' % (rn, k), cnt))
                rargs.append('R_%s__o%d' % (rn, k))
            if rs['ret'] != 'void':
                rel_bufs.append((rs['ret'], 'R_%s__ret' % rn, 1))
                body.append('  R_%s__ret[0] = R_%s(%s);' % (rn, rn, ', '.join(rargs)))
            else:
                body.append('  R_%s(%s);' % (rn, ', '.join(rargs)))
        jparams = params + ['%s *%s' % (t, n) for t, n, cnt in rel_bufs]
        own = ', '.join([n for _, n in sig['ins']] + [n for _, n, _ in sig['outs']])
        L.append('%s %s(%s) {' % (sig['ret'], fn_contract, ', '.join(jparams) or 'void'))
        L.extend(body)
        L.append('  %s%s(%s);' % ('return ' if sig['ret'] != 'void' else '', c.fn, own))
        L.append('}')
        params = jparams

    def relrw(e):
        if not rel_sigs:
            return e
        for rn in rel_sigs:
            e = re.sub(r'\bR_%s__o(\d+)_(\d+)\([^()]*\)' % re.escape(rn), r'R_%s__o\1[\2]' % rn, e)
            e = re.sub(r'\bR_%s\([^()]*\)' % re.escape(rn), 'R_%s__ret[0]' % rn, e)
        return e
    # contracts of the callees that are replaced at their call sites (assumed there; enforced by their own obligation in this run)
    for (cc, csig) in (callee_contracts or []):
        cparams = ['%s %s' % (t, n) for t, n in csig['ins']] + ['%s *%s' % (t, n) for t, n, cnt in csig.get('ptr_ins', [])] + \
            ['%s *%s' % (t, n) for t, n, cnt in csig['outs']]
        L.append('/* callee contract (assumed at call sites): %s */' % cc.fn)
        L.append('%s %s(%s)' % (csig['ret'], cc.fn, ', '.join(cparams) or 'void'))
        for name, e in cc.requires:
            L.append('__CPROVER_requires(%s)' % clause_expr(e))
        casg = cc.assigns if cc.assigns is not None else ['__CPROVER_object_whole(%s)' % n for t, n, cnt in csig['outs']]
        L.append('__CPROVER_assigns(%s)' % ', '.join(casg))
        for name, e in (getattr(cc, 'assumed_ensures', None) or cc.ensures):
            L.append('__CPROVER_ensures(%s)' % clause_expr(e))
        L.append(';')
    L.append('/* contract for %s (%s) */' % (fn_contract, c.real))
    L.append('%s %s(%s)' % (sig['ret'], fn_contract, ', '.join(params) or 'void'))
    lines = {}
    for name, e in list(c.requires) + [('extra', x) for x in extra_requires]:
        L.append('__CPROVER_requires(%s)' % clause_expr(relrw(e)))
    assigns = c.assigns
    if assigns is None:
        assigns = ['__CPROVER_object_whole(%s)' % n for t, n, cnt in sig['outs']]
    assigns = list(assigns) + ['__CPROVER_object_whole(%s)' % n for t, n, cnt in rel_bufs]
    L.append('__CPROVER_assigns(%s)' % ', '.join(assigns))
    ens = ensures_override if ensures_override is not None else c.ensures
    for name, e in ens:
        L.append('__CPROVER_ensures(%s)' % clause_expr(relrw(e)))
        lines[sum(x.count('\n') + 1 for x in L)] = name
    if canary:
        L.append('__CPROVER_ensures(0)')
        lines[sum(x.count('\n') + 1 for x in L)] = '__canary'
    L.append(';')
    # functions referenced only from contract clauses must be visible as ordinary code, so that the CPROVER library models
    # they call (roundf, ...) get linked before the contract instrumentation runs; this function is never called
    if keep_sigs:
        L.append('void ll2c_keep_refs(void) {')
        for kn, ks in keep_sigs.items():
            ka = [NONDET[t] for t, _ in ks['ins']]
            for j, (t, n_, cnt_) in enumerate(ks['outs']):
                L.append('  %s kb_%s_%d[%d];' % (t, kn, j, cnt_))
                ka.append('kb_%s_%d' % (kn, j))
            L.append('  %s(%s);' % (kn, ', '.join(ka)))
        L.append('}')
    L.append('void h_entry(void) {')
    args = []
    for t, n in sig['ins']:
        L.append('  %s %s = %s;' % (t, n, NONDET[t]))
        args.append(n)
    for t, n, cnt in sig.get('ptr_ins', []):
        # pointer INPUT of an internal (non-shim) function: harness-owned buffer with nondeterministic content
        L.append('  %s %s[%d];' % (t, n, cnt))
        for i in range(cnt):
            L.append('  %s[%d] = %s;' % (n, i, NONDET[t]))
        args.append(n)
    for t, n, cnt in list(sig['outs']) + rel_bufs:
        L.append('  %s %s[%d];' % (t, n, cnt))
        args.append(n)
    L.append('  %s(%s);' % (fn_contract, ', '.join(args)))
    if keep_sigs:
        L.append('  if (nondet_u8() == 77) { __CPROVER_assume(0); ll2c_keep_refs(); }  /* syntactic reachability only (library linking): never executed */')
    L.append('}')
    lines['__fn_contract__'] = fn_contract
    return '\n'.join(L) + '\n', lines


BACKEND_FLAGS = {
    'sat': ['--sat-solver', 'cadical'], 'minisat': [], 'cadical': ['--sat-solver', 'cadical'], 'z3': ['--z3'], 'cvc5': ['--cvc5'],
    'kissat': ['--external-sat-solver', 'kissat'],
}


def parse_cbmc_json(txt):
    try:
        d = json.loads(txt)
    except Exception:
        # truncated output: try to repair by closing the list
        try:
            d = json.loads(txt.rstrip().rstrip(',') + ']')
        except Exception:
            return None
    res = {'props': [], 'status': None, 'messages': []}
    for e in d:
        if 'result' in e:
            res['props'] = e['result']
        if 'cProverStatus' in e:
            res['status'] = e['cProverStatus']
        if 'messageText' in e:
            res['messages'].append(e['messageText'])
    return res


def run_contract_job(job):
    """executed in a worker process.  job: dict with everything needed.  returns result dict"""
    t0 = time.time()
    out = {'fn': job['fn'], 'variant': job.get('variant', ''), 'clauses': {}, 'status': 'error', 'detail': '',
           'seconds': 0, 'solver_s': 0, 'backend': None, 'safety': [], 'inputs': {}, 'log': ''}
    try:
        wd = job['workdir']
        base = os.path.join(wd, job['id'])
        open(base + '.c', 'w').write(job['text'])
        cmd = ['goto-cc', '-I' + RT, '-I' + SPECS, base + '.c', '--function', 'h_entry', '-o', base + '.gb']
        rc, so, se, dt = sh(cmd, timeout=300)
        if rc != 0:
            out['detail'] = 'goto-cc failed: ' + (se + so)[-1500:]
            return out
        # link the CPROVER C library models first (library functions reached only through function pointers,
        # e.g. functor1::call(roundf, v) at -O0/-O1, are otherwise left without a body by the contract instrumentation)
        rc, so, se, dt = sh(['goto-instrument', '--add-library', base + '.gb', base + '.l.gb'], timeout=300)
        if rc != 0:
            out['detail'] = 'goto-instrument --add-library failed: ' + (se + so)[-1500:]
            return out
        fnc = job.get('fn_contract', job['fn'])
        cmd = ['goto-instrument', '--dfcc', 'h_entry', '--enforce-contract', fnc]
        for r in job.get('replace', []):
            cmd += ['--replace-call-with-contract', r]
        if job.get('loops'):
            cmd += ['--apply-loop-contracts']
        cmd += [base + '.l.gb', base + '.i.gb']
        rc, so, se, dt = sh(cmd, timeout=600)
        if rc != 0:
            out['detail'] = 'goto-instrument failed: ' + (se + so)[-1500:]
            return out
        lines = {int(k): v for k, v in job['lines'].items() if str(k).lstrip('-').isdigit()}
        for be in job['backends']:
            common = ['cbmc', base + '.i.gb', '--json-ui', '--unwind', str(job['unwind']), '--unwinding-assertions',
                      '--no-standard-checks', '--object-bits', '11'] + job.get('cbmc_flags', [])
            if be == 'sat':
                # portfolio: cadical and minisat race (either can be pathologically slow on instances the other solves at once)
                variants = ['cadical', 'minisat']
                if job.get('uf_float'):
                    # uninterpreted-function abstraction in use: z3 decides congruence natively (a 4x4 element-wise product: 0.9 s against
                    # 30-180 s for the Ackermann expansion in SAT); floats stay bit-vector encoded by CBMC, so the semantics is the same.
                    # A z3 run that printed a solver/parse error never wins the race.
                    variants = ['cadical', 'minisat', 'z3']
                wi, rc, so, se, dt = sh_race([common + BACKEND_FLAGS[v] for v in variants], timeout=job['timeout'], mem_gb=job.get('mem_gb', 8),
                                             valid=lambda i, o: not re.search(r'returned error|Parse Error|ignoring|unsupported|invariant', o))
                be_used = 'sat:' + (variants[wi] if wi >= 0 else 'none')
                cmd = common + (BACKEND_FLAGS[variants[wi]] if wi >= 0 else [])
            else:
                cmd = common + BACKEND_FLAGS[be]
                rc, so, se, dt = sh(cmd, timeout=job['timeout'], mem_gb=job.get('mem_gb', 8))
                be_used = be
            out['log'] += '$ %s\n rc=%d %.1fs\n' % (' '.join(cmd), rc, dt)
            if rc == -999:
                out['status'] = 'timeout'
                out['detail'] = 'backend %s: timeout after %ds' % (be, job['timeout'])
                continue
            r = parse_cbmc_json(so)
            if r is None or not r['props']:
                out['status'] = 'error'
                out['detail'] = 'backend %s: no result (rc=%d) %s' % (be, rc, (so[-600:] + se[-300:]))
                continue
            bad = [m for m in r['messages'] if re.search(r'ignoring|no body for|Parse Error|SMT2 solver returned error', m)]
            if bad:
                out['status'] = 'error'
                out['detail'] = 'backend %s: voided by log message: %s' % (be, bad[0][:300])
                continue
            # wall time of the deciding cbmc process (symbolic execution + SAT/SMT solving); cbmc prints its own split only at verbosity >= 8
            out['solver_s'] = round(dt, 2)
            for m in r['messages']:
                mm = re.search(r'Runtime [Dd]ecision [Pp]rocedure: ([0-9.]+)s', m)
                if mm:
                    out['solver_s'] = float(mm.group(1))
            clauses = {}
            safety = []
            unwind_bad = False
            loops_seen = []
            for p in r['props']:
                desc = p.get('description', '')
                pid = p.get('property', '')
                st = p.get('status')
                line = int(p.get('sourceLocation', {}).get('line', 0) or 0)
                if '.postcondition.' in pid and pid.startswith(fnc + '.'):
                    nm = lines.get(line, 'line%d' % line)
                    clauses[nm] = st
                elif 'unwinding assertion' in desc or '.unwind.' in pid:
                    if st != 'SUCCESS':
                        unwind_bad = True
                elif re.search(r'\.loop_(invariant_base|invariant_step|decreases|assigns|step_unwinding)\.', pid):
                    loops_seen.append((pid, desc[:200], st))
                else:
                    safety.append((pid, desc[:200], st))
            if unwind_bad:
                out['status'] = 'error'
                out['detail'] = 'unwinding assertion failed with --unwind %d' % job['unwind']
                break
            if job.get('loops'):
                # loop-contract obligations: a failure means "the stated invariant is not inductive for this code" - undecided, never a verdict
                # (the havocked loop state of such a counterexample is not an execution); the bounded twin of the contract decides violations
                kinds = {k: [x for x in loops_seen if ('.loop_%s.' % k) in x[0]] for k in ('invariant_base', 'invariant_step', 'decreases')}
                if not kinds['invariant_base'] or not kinds['invariant_step']:
                    out['status'] = 'error'
                    out['detail'] = 'loop contract silently dropped: no loop_invariant_base/step obligations were generated'
                    break
                badl = [x for x in loops_seen if x[2] != 'SUCCESS']
                if badl:
                    out['status'] = 'error'
                    out['detail'] = 'loop contract obligation not established (undecided, not a verdict): %s %s' % (badl[0][0], badl[0][1])
                    break
                for k, items in kinds.items():
                    if items:
                        safety.append((items[0][0], 'loop-contract %s (%d checks, goto-instrument --apply-loop-contracts)' % (k, len(items)), 'SUCCESS'))
            out['clauses'] = clauses
            out['safety'] = safety
            out['backend'] = be_used
            out['backend_flags'] = BACKEND_FLAGS[be_used.split(':')[-1]] if be_used.split(':')[-1] in BACKEND_FLAGS else []
            out['status'] = 'done'
            out['nprops'] = len(r['props'])
            break
        if out['status'] == 'done':
            failed = [n for n, s in out['clauses'].items() if s != 'SUCCESS' and n != '__canary']
            failed_safety = [s for s in out['safety'] if s[2] != 'SUCCESS']
            if failed or failed_safety:
                # rerun with trace to get inputs (first failing property)
                cmd = ['cbmc', base + '.i.gb', '--json-ui', '--trace', '--unwind', str(job['unwind']), '--unwinding-assertions',
                       '--no-standard-checks', '--object-bits', '11'] + out.get('backend_flags', []) + job.get('cbmc_flags', [])
                rc, so, se, dt = sh(cmd, timeout=job['timeout'] * 2, mem_gb=job.get('mem_gb', 8))
                r = parse_cbmc_json(so) if rc != -999 else None
                if r:
                    for p in r['props']:
                        if p.get('status') == 'SUCCESS' or 'trace' not in p:
                            continue
                        line = int(p.get('sourceLocation', {}).get('line', 0) or 0)
                        pid = p.get('property', '')
                        if '.postcondition.' in pid and pid.startswith(fnc + '.'):
                            nm = lines.get(line, 'line%d' % line)
                        else:
                            nm = 'safety:' + pid
                        vals = {}
                        for s in p['trace']:
                            if s.get('stepType') == 'assignment' and s.get('sourceLocation', {}).get('function') == 'h_entry':
                                lhs = s.get('lhs')
                                v = s.get('value', {})
                                if lhs in job['in_names'] and 'binary' in v:
                                    vals[lhs] = int(v['binary'], 2)
                        out['inputs'][nm] = vals
    except Exception as e:
        out['detail'] = 'exception: ' + traceback.format_exc()[-1500:]
    out['seconds'] = time.time() - t0
    return out


# =====================================================================================
# replay against the real code
# =====================================================================================
def lit(view, bits):
    if view == 'float':
        return 'll2c_bits_f32(0x%xu)' % bits
    if view == 'double':
        return 'll2c_bits_f64(0x%xull)' % bits
    if view == 'u64':
        return '0x%xull' % bits
    return '((%s)0x%xu)' % (view, bits)


def native_clause(e):
    e = re.sub(r'\bOLD\(', '(', e)
    return e


def replay_program(build, shim, contract, inputs, sanitize=False, rel_build=None):
    """C++ source that calls the real shim on `inputs` and evaluates the contract natively"""
    s = shim.view_sig()
    L = ['// replay of %s against the real code in %s' % (contract.fn, REPO)]
    L.append('#define SHIM extern "C"')
    L.append(build.driver.source(build.defines, only=[shim.name] + list(contract.uses)))
    L.append('#include <cstdio>')
    if getattr(contract, 'rel', None) and rel_build is not None:
        for n in contract.rel[1]:
            s2 = rel_build.driver.shims[n]
            ps = ['%s' % t for (t, _) in s2.ins] + ['%s*' % t for (t, _, _) in s2.outs]
            L.append('extern "C" %s R_%s(%s);' % (s2.ret, n, ', '.join(ps)))
    L.append('extern "C" {')
    L.append('#include "ll2c_rt.h"')
    L.append('#include "specs.h"')
    L.append('}')
    if getattr(contract, 'rel', None) and rel_build is not None:
        L += rel_wrappers({n: rel_build.driver.shims[n].view_sig() for n in contract.rel[1]}, cxx=True)
    L.append('#include <cstdlib>')
    L.append('int main(int argc, char** argv){')
    args = []
    for k, ((t, n), cppt) in enumerate(zip(s['ins'], s['cpp_ins'])):
        v = inputs.get(n, 0)
        L.append('  %s %s = %s;' % (t, n, lit(t, v)))
        # optional override from the command line (bit pattern, hex): used by the native refuter
        if t == 'float':
            L.append('  if (argc > %d) %s = ll2c_bits_f32((u32)strtoull(argv[%d], 0, 16));' % (k + 1, n, k + 1))
        elif t == 'double':
            L.append('  if (argc > %d) %s = ll2c_bits_f64((u64)strtoull(argv[%d], 0, 16));' % (k + 1, n, k + 1))
        else:
            L.append('  if (argc > %d) %s = (%s)strtoull(argv[%d], 0, 16);' % (k + 1, n, t, k + 1))
        if t in ('float', 'double'):
            args.append(n)
        else:
            args.append('(%s)%s' % (cppt, n))
    for (t, n, c), cppt in zip(s['outs'], s['cpp_outs']):
        L.append('  %s %s[%d] = {};' % (t, n, c))
        args.append('(%s*)%s' % (cppt, n))
    L.append('  int pre = 1;')
    for name, e in contract.requires:
        L.append('  if (!(%s)) { pre = 0; printf("REQUIRES %s NOT-SATISFIED\\n"); }' % (native_clause(e), name))
    if s['ret'] != 'void':
        L.append('  %s RESULT = (%s)%s(%s);' % (s['ret'], s['ret'], shim.name, ', '.join(args)))
        if s['ret'] in ('float', 'double'):
            L.append('  printf("RESULT %a\\n", (double)RESULT);')
        else:
            L.append('  printf("RESULT %llu\\n", (unsigned long long)RESULT);')
    else:
        L.append('  %s(%s);' % (shim.name, ', '.join(args)))
    for (t, n, c) in s['outs']:
        for j in range(c):
            if t in ('float', 'double'):
                L.append('  printf("%s[%d] %%a\\n", (double)%s[%d]);' % (n, j, n, j))
            else:
                L.append('  printf("%s[%d] %%llu\\n", (unsigned long long)%s[%d]);' % (n, j, n, j))
    for name, e in contract.ensures:
        L.append('  printf("ENSURES %s %%s\\n", (%s) ? "HOLDS" : "BREACHED");' % (name, native_clause(e)))
    L.append('  return 0; }')
    return '\n'.join(L) + '\n'


def run_replay(build, shim, contract, inputs, workdir, tag, sanitize=False, rel_build=None):
    src = os.path.join(workdir, 'replay_%s.cpp' % tag)
    open(src, 'w').write(replay_program(build, shim, contract, inputs, rel_build=rel_build))
    exe = src[:-4]
    flags = ['-O2', '-std=c++17', '-w', '-fno-strict-aliasing', '-ffp-contract=off'] + build.flags + ['-D' + d for d in build.defines]
    if sanitize:
        flags = ['-O1', '-g', '-std=c++17', '-w', '-fsanitize=undefined,float-cast-overflow', '-fno-sanitize-recover=all'] + build.flags
        cc = 'clang++-14'
    else:
        flags = flags + ['-DNDEBUG']
        cc = 'g++'
    extra_objs = []
    if getattr(contract, 'rel', None) and rel_build is not None:
        src2 = os.path.join(workdir, 'replay_%s_rel.cpp' % tag)
        ren = ''.join('#define %s R_%s\n' % (n, n) for n in contract.rel[1])
        open(src2, 'w').write('#define SHIM extern "C"\n' + ren + rel_build.driver.source(rel_build.defines, only=list(contract.rel[1])))
        o2 = src2[:-4] + '.o'
        # the counterpart is a second configuration of the same inline templates: keep its symbols apart (namespace glm -> glm_rel),
        # otherwise the linker merges the two definitions of every glm:: function (ODR) and both sides run the same code
        f2 = [f for f in flags if not f.startswith('-D')] + ['-D' + d for d in rel_build.defines] + rel_build.flags + ['-Dglm=glm_rel']
        rc, so, se, dt = sh([cc] + f2 + ['-I' + REPO, '-c', src2, '-o', o2], timeout=600, mem_gb=16)
        if rc != 0:
            return {'ok': False, 'error': 'replay build (rel) failed: ' + se[-1500:], 'out': ''}
        extra_objs.append(o2)
    rc, so, se, dt = sh([cc] + flags + ['-I' + REPO, '-I' + RT, '-I' + SPECS, src] + extra_objs + ['-o', exe, '-lm'], timeout=600, mem_gb=16)
    if rc != 0:
        return {'ok': False, 'error': 'replay build failed: ' + se[-1500:], 'out': ''}
    rc, so, se, dt = sh([exe], timeout=60)
    res = {'ok': True, 'rc': rc, 'out': so, 'err': se[-2000:], 'clauses': {}, 'pre': True}
    for m in re.finditer(r'ENSURES (\S+) (HOLDS|BREACHED)', so):
        res['clauses'][m.group(1)] = m.group(2)
    if 'NOT-SATISFIED' in so:
        res['pre'] = False
    res['exe'] = exe
    return res


def exhaustive_program(build, shim, contract):
    """kind X: the real shim is executed natively on EVERY value of its single (<= 32-bit) argument in [lo, hi) (argv, hex); for each value that
    satisfies the requires every ensures clause is evaluated (same clause text as kind F, natively).  Output: one line per clause."""
    s = shim.view_sig()
    if len(s['ins']) != 1 or s['ins'][0][0] not in ('u8', 'u16', 'u32', 'float') or s['outs']:
        raise Infra('kind X needs a shim with exactly one argument of at most 32 bits and a return value: ' + shim.name)
    (t, n), cppt = s['ins'][0], s['cpp_ins'][0]
    L = ['// exhaustive native execution of %s against the real code in %s' % (contract.fn, REPO), '#define SHIM extern "C"',
         build.driver.source(build.defines, only=[shim.name] + list(contract.uses)), '#include <cstdio>', '#include <cstdlib>',
         'extern "C" {', '#include "ll2c_rt.h"', '#include "specs.h"', '}',
         'int main(int argc, char** argv){', '  unsigned long long lo = strtoull(argv[1], 0, 16), hi = strtoull(argv[2], 0, 16), checked = 0;']
    for k, (name, e) in enumerate(contract.ensures):
        L.append('  unsigned long long bad%d = 0, first%d = 0;' % (k, k))
    L.append('  for (unsigned long long it = lo; it < hi; ++it) {')
    if t == 'float':
        L.append('    float %s = ll2c_bits_f32((u32)it);' % n)
        arg = n
    else:
        L.append('    %s %s = (%s)it;' % (t, n, t))
        arg = '(%s)%s' % (cppt, n)
    for name, e in contract.requires:
        L.append('    if (!(%s)) continue;' % native_clause(e))
    L.append('    ++checked;')
    L.append('    %s RESULT = (%s)%s(%s);' % (s['ret'], s['ret'], shim.name, arg))
    for k, (name, e) in enumerate(contract.ensures):
        L.append('    if (!(%s)) { if (!bad%d) first%d = it; ++bad%d; }' % (native_clause(e), k, k, k))
    L.append('  }')
    L.append('  printf("XCHECKED %llu\\n", checked);')
    for k, (name, e) in enumerate(contract.ensures):
        L.append('  printf("XCLAUSE %s %%llu %%llx\\n", bad%d, first%d);' % (name, k, k))
    L.append('  return 0; }')
    return '\n'.join(L) + '\n'


def run_exhaustive(build, shim, contract, workdir, tag, nproc=16, bits=None, timeout=1800):
    """compile the exhaustive program with g++ -O2 and run it on nproc slices of the argument space; returns dict like a verifier result"""
    s = shim.view_sig()
    t = s['ins'][0][0]
    nbits = bits or {'u8': 8, 'u16': 16, 'u32': 32, 'float': 32}[t]
    src = os.path.join(workdir, 'exh_%s.cpp' % tag)
    open(src, 'w').write(exhaustive_program(build, shim, contract))
    exe = src[:-4]
    flags = ['-O2', '-std=c++17', '-w', '-fno-strict-aliasing', '-ffp-contract=off', '-DNDEBUG'] + build.flags + ['-D' + d for d in build.defines]
    rc, so, se, dt = sh(['g++'] + flags + ['-I' + REPO, '-I' + RT, '-I' + SPECS, src, '-o', exe, '-lm'], timeout=600, mem_gb=16)
    if rc != 0:
        return {'status': 'error', 'detail': 'exhaustive build failed: ' + se[-1500:]}
    total = 1 << nbits
    k = min(nproc, total)
    step = (total + k - 1) // k
    procs = []
    t0 = time.time()
    for i in range(k):
        lo, hi = i * step, min(total, (i + 1) * step)
        procs.append(subprocess.Popen([exe, '%x' % lo, '%x' % hi], stdout=subprocess.PIPE, stderr=subprocess.PIPE, preexec_fn=_child_setup))
    res = {'status': 'done', 'clauses': {}, 'inputs': {}, 'checked': 0, 'detail': '', 'log': '$ %s <lo> <hi>  x %d slices of 2^%d values\n' % (exe, k, nbits)}
    for p_ in procs:
        try:
            so, se = p_.communicate(timeout=max(1, timeout - (time.time() - t0)))
        except subprocess.TimeoutExpired:
            for q in procs:
                _kill_tree(q)
            return {'status': 'timeout', 'detail': 'exhaustive run: timeout after %ds' % timeout}
        so = so.decode('utf8', 'replace')
        if p_.returncode != 0:
            return {'status': 'error', 'detail': 'exhaustive run: slice exited with %d: %s' % (p_.returncode, se.decode('utf8', 'replace')[-300:])}
        m = re.search(r'XCHECKED (\d+)', so)
        res['checked'] += int(m.group(1)) if m else 0
        for m in re.finditer(r'XCLAUSE (\S+) (\d+) ([0-9a-f]+)', so):
            nm, bad, first = m.group(1), int(m.group(2)), int(m.group(3), 16)
            if bad and res['clauses'].get(nm) != 'FAILURE':
                res['clauses'][nm] = 'FAILURE'
                res['inputs'][nm] = {s['ins'][0][1]: first}
            else:
                res['clauses'].setdefault(nm, 'SUCCESS')
    res['seconds'] = time.time() - t0
    return res


def native_refuter(exe, shim, clause, seed=0, tries=400):
    """the verifier refuted `clause` but its counterexample does not reproduce (typically because it lives in an uninterpreted
    function): search boundary + random inputs natively for one that breaches the clause on the real code.  A hit is a genuine
    counterexample; a miss proves nothing."""
    s = shim.view_sig()
    rnd = random.Random(seed + 12345)
    cols = [([rnd.randint(0, 1) for _ in range(tries)] if cppt == 'bool' else gen_inputs(t, rnd, tries)) for (t, _), cppt in zip(s['ins'], s['cpp_ins'])]
    for k in range(tries):
        argv = ['%x' % c[k] for c in cols]
        rc, so, se, dt = sh([exe] + argv, timeout=20)
        if 'NOT-SATISFIED' in so:
            continue
        m = re.search(r'ENSURES %s (HOLDS|BREACHED)' % re.escape(clause), so)
        if m and m.group(1) == 'BREACHED':
            return {n: c[k] for (t, n), c in zip(s['ins'], cols)}, so
    return None, ''


# =====================================================================================
# kind R replay: run the real shim natively on the (rounded) model, evaluate clauses with a tolerance
# =====================================================================================
def run_replay_R(build, shim, contract, inputs, workdir, tag):
    s = shim.view_sig()
    L = ['#define SHIM extern "C"', build.driver.source(build.defines, only=[shim.name] + list(contract.uses)), '#include <cstdio>', 'int main(){']
    args = []
    for (t, n), cppt in zip(s['ins'], s['cpp_ins']):
        v = float(inputs.get(n, 0.0))
        if t in ('float', 'double'):
            L.append('  %s %s = (%s)%s;' % (cppt, n, cppt, v.hex()))
        else:
            L.append('  %s %s = (%s)%d;' % (cppt, n, cppt, int(v)))
        args.append(n)
    for (t, n, c), cppt in zip(s['outs'], s['cpp_outs']):
        L.append('  %s %s[%d] = {};' % (cppt, n, c))
        args.append(n)
    for (t, n) in s['ins']:
        L.append('  printf("IN %s %%a\\n", (double)%s);' % (n, n))
    if s['ret'] != 'void':
        L.append('  printf("RESULT %%a\\n", (double)%s(%s));' % (shim.name, ', '.join(args)))
    else:
        L.append('  %s(%s);' % (shim.name, ', '.join(args)))
    for (t, n, c) in s['outs']:
        for j in range(c):
            L.append('  printf("OUT %s %d %%a\\n", (double)%s[%d]);' % (n, j, n, j))
    L.append('  return 0; }')
    src = os.path.join(workdir, 'replayR_%s.cpp' % tag)
    open(src, 'w').write('\n'.join(L) + '\n')
    exe = src[:-4]
    flags = ['-O2', '-std=c++17', '-w', '-DNDEBUG', '-ffp-contract=off'] + build.flags + ['-D' + d for d in build.defines]
    rc, so, se, dt = sh(['g++'] + flags + ['-I' + REPO, src, '-o', exe, '-lm'], timeout=600, mem_gb=16)
    if rc != 0:
        return {'ok': False, 'error': 'replay build failed: ' + se[-1500:], 'out': ''}
    rc, so, se, dt = sh([exe], timeout=60)
    sys.path.insert(0, SPECS)
    import rspec
    ns = rspec.namespace('num')
    outs = {}
    for line in so.splitlines():
        p = line.split()
        if p[0] == 'IN':
            ns[p[1]] = rspec.Num(float.fromhex(p[2]))
        elif p[0] == 'RESULT':
            ns['RESULT'] = rspec.Num(float.fromhex(p[1]))
        elif p[0] == 'OUT':
            outs.setdefault(p[1], {})[int(p[2])] = rspec.Num(float.fromhex(p[3]))
    for n, d in outs.items():
        ns[n] = [d[i] for i in range(len(d))]
    res = {'ok': True, 'rc': rc, 'out': so, 'err': se[-1000:], 'clauses': {}, 'pre': True}
    try:
        for name, e in contract.requires:
            if not eval(e, ns):
                res['pre'] = False
        for name, e in contract.ensures:
            v = eval(e, ns)
            if isinstance(v, (list, tuple)):
                v = all(v)
            res['clauses'][name] = 'HOLDS' if v else 'BREACHED'
    except Exception as ex:
        res['ok'] = False
        res['error'] = 'clause evaluation failed: %r' % ex
    return res
