#!/bin/bash
# thorough_sweep.sh <ids...> : run the thorough tier of each property once; contracts left undecided are appended to unclaimed_thorough.json
cd /verif
for id in "$@"; do
  t0=$(date +%s)
  ./check $id --tier thorough > .work/thorough_$id.log 2>&1; rc=$?
  t1=$(date +%s)
  echo "$(date +%H:%M) $id exit=$rc wall=$((t1-t0))s $(tail -1 .work/thorough_$id.log)" >> .work/thorough.log
  python3 - "$id" <<'PY'
import json, re, sys
pid = sys.argv[1]
und = set()
for l in open('/verif/.work/thorough_%s.log' % pid):
    m = re.match(r'UNDECIDED property=\S+ (\S+?)(?:\[(\S+)\])?: ', l)
    if m:
        und.add((m.group(1), m.group(2)))
if und:
    sys.path.insert(0, '/verif/tools'); sys.path.insert(0, '/verif/props')
    import importlib
    P = importlib.import_module(pid).P
    f = '/verif/unclaimed_thorough.json'
    d = json.load(open(f))
    cur = set(d.get(pid, []))
    for fn, b in und:
        for c in P.contracts:
            if c.fn == fn and (b is None or c.build == b) and c.tier != 'quick':
                cur.add(c.fn + '@' + c.build)
    d[pid] = sorted(cur)
    json.dump(d, open(f, 'w'), indent=1)
PY
done
