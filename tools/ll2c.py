#!/usr/bin/env python3
"""ll2c.py - syntax-directed translation of LLVM IR (clang++-14 output for /verif drivers) to the
C dialect CBMC verifies.  One IR instruction -> one C statement.  Closed instruction table:
anything outside it raises llir.Unsupported (exit 2 in the callers).

Representation choices (see DESIGN.md section 3):
 * iN values live zero-extended in the next C unsigned type (u8/u16/u32/u64/u128); every result
   is masked back to N bits; signed operations sign-extend explicitly.
 * poison (shift >= width, fptoui/fptosi out of range, nsw/nuw overflow) is a nondeterministic value
   under CBMC (LL2C_POISON), so no clause can depend on it; division by zero is an assertion.
 * float/double are C float/double; constants are re-emitted as exact hex literals.
 * pointers are char*; memory access is byte-addressed via LL2C_LOAD/LL2C_STORE at offsets computed
   from the module's own type table and the x86-64 data layout.
 * <N x T> and first-class aggregates are C structs, expanded element-wise.
"""
import re, sys, struct, math
from llir import *

INTW = [8, 16, 32, 64, 128]


def cwidth(n):
    for w in INTW:
        if n <= w:
            return w
    raise Unsupported('integer width %d' % n)


def mask(n):
    return (1 << n) - 1


def ulit(v, n):
    v &= mask(n)
    w = cwidth(n)
    if w <= 32:
        return '((u%d)0x%xu)' % (w, v)
    if w == 64:
        return '0x%xull' % v
    return '((((u128)0x%xull) << 64) | (u128)0x%xull)' % (v >> 64, v & mask(64))


def sanitize(name):
    s = re.sub(r'[^A-Za-z0-9_]', '_', name)
    return s


class Ctx:
    """per-module emission state"""

    def __init__(self, mod, prefix='', poison_flags=True, ubsan=False, keep=None, libm_uninterpreted=True):
        self.mod = mod
        self.prefix = prefix
        self.poison_flags = poison_flags
        self.typedefs = {}  # key -> (name, decl)
        self.typedef_order = []
        self.fnames = {}
        self.used_ext = set()
        self.trusted = set()
        self.dropped = set()
        self.gnames = {}
        self.uf_float = set()   # float operations translated as uninterpreted functions (relational proofs)
        self.uf_decls = set()

    # ------------------------------------------------------------ types
    def ctype(self, t):
        t = self.mod.resolve(t)
        k = t[0]
        if k == 'int':
            return 'u%d' % cwidth(t[1])
        if k == 'float':
            return 'float'
        if k == 'double':
            return 'double'
        if k == 'ptr':
            return 'll2c_ptr'
        if k == 'void':
            return 'void'
        if k in ('vector', 'array'):
            et = self.ctype(t[2])
            key = self.prefix + ('V' if k == 'vector' else 'A') + '%d_%s' % (t[1], self.tykey(t[2]))
            if key not in self.typedefs:
                self.typedefs[key] = 'struct %s { %s e[%d]; };' % (key, et, max(t[1], 1))
                self.typedef_order.append(key)
            return 'struct ' + key
        if k == 'struct':
            key = self.prefix + 'S_' + '_'.join(self.tykey(f) for f in t[1]) + ('_p' if t[2] else '')
            if len(key) > 200:
                import hashlib
                key = self.prefix + 'S_h' + hashlib.md5(key.encode()).hexdigest()[:16]
            if key not in self.typedefs:
                fields = ' '.join('%s f%d;' % (self.ctype(f), i) for i, f in enumerate(t[1]))
                if not t[1]:
                    fields = 'u8 empty;'
                self.typedefs[key] = 'struct %s { %s };' % (key, fields)
                self.typedef_order.append(key)
            return 'struct ' + key
        raise Unsupported('C type for %r' % (t,))

    def tykey(self, t):
        t = self.mod.resolve(t)
        k = t[0]
        if k == 'int':
            return 'i%d' % t[1]
        if k == 'float':
            return 'f32'
        if k == 'double':
            return 'f64'
        if k == 'ptr':
            return 'p'
        if k in ('vector', 'array'):
            return ('V' if k == 'vector' else 'A') + '%d%s' % (t[1], self.tykey(t[2]))
        if k == 'struct':
            return 'S' + ''.join(self.tykey(f) for f in t[1]) + 'E'
        raise Unsupported('type key %r' % (t,))

    def fname(self, name):
        if name not in self.fnames:
            self.fnames[name] = self.prefix + sanitize(name)
        return self.fnames[name]

    def gname(self, name):
        if name not in self.gnames:
            self.gnames[name] = self.prefix + 'g_' + sanitize(name)
        return self.gnames[name]

    # signature in the "C view": pointers to scalars stay typed so contracts can name them
    def sig_type(self, t):
        t = self.mod.resolve(t)
        if t[0] == 'ptr':
            e = t[1]
            try:
                e = self.mod.resolve(e)
            except Unsupported:
                return 'void *'
            if e[0] == 'int' and e[1] in (8, 16, 32, 64):
                return 'u%d *' % e[1]
            if e[0] in ('float', 'double'):
                return e[0] + ' *'
            return 'void *'
        return self.ctype(t)

    def signature(self, f):
        ps = []
        for (t, nm, at) in f.params:
            ps.append('%s a_%s' % (self.sig_type(t), sanitize(nm)))
        if f.vararg:
            raise Unsupported('vararg definition')
        return '%s %s(%s)' % (self.sig_type(f.ret), self.fname(f.name), ', '.join(ps) if ps else 'void')


# ---------------------------------------------------------------- float constants
def f64_from_bits(b):
    return struct.unpack('<d', struct.pack('<Q', b))[0]


def fp_literal(bits, kind):
    d = f64_from_bits(bits)
    if kind == 'float':
        if math.isnan(d):
            sign = bits >> 63
            mant = (bits & ((1 << 52) - 1)) >> 29
            fb = (sign << 31) | 0x7f800000 | mant
            return 'll2c_bits_f32(0x%xu)' % fb
        if math.isinf(d):
            return '(-__builtin_inff())' if d < 0 else '__builtin_inff()'
        fb = struct.unpack('<I', struct.pack('<f', d))[0]
        if struct.unpack('<f', struct.pack('<I', fb))[0] != d:
            raise Unsupported('float constant not exact')
        if d == 0:
            return '(-0.0f)' if (bits >> 63) else '0.0f'
        return '(%sf)' % d.hex()
    if kind == 'double':
        if math.isnan(d):
            return 'll2c_bits_f64(0x%xull)' % bits
        if math.isinf(d):
            return '(-__builtin_inf())' if d < 0 else '__builtin_inf()'
        if d == 0:
            return '(-0.0)' if (bits >> 63) else '0.0'
        return '(%s)' % d.hex()
    raise Unsupported('fp kind ' + kind)


# libm functions: name -> (C name, arity, modelled by CBMC?)   [f32 and f64 forms]
LIBM_CBMC = {'fabsf', 'fabs', 'floorf', 'floor', 'ceilf', 'ceil', 'truncf', 'trunc', 'roundf', 'round',
             'sqrtf', 'sqrt', 'copysignf', 'copysign', 'fminf', 'fmin', 'fmaxf', 'fmax',
             'nearbyintf', 'nearbyint', 'rintf', 'rint'}
LIBM_UNINT = {'sinf', 'cosf', 'tanf', 'asinf', 'acosf', 'atanf', 'atan2f', 'sinhf', 'coshf', 'tanhf',
              'asinhf', 'acoshf', 'atanhf', 'expf', 'logf', 'exp2f', 'log2f', 'powf', 'log10f', 'cbrtf',
              'sin', 'cos', 'tan', 'asin', 'acos', 'atan', 'atan2', 'sinh', 'cosh', 'tanh', 'asinh',
              'acosh', 'atanh', 'exp', 'log', 'exp2', 'log2', 'pow', 'log10', 'cbrt', 'fmaf', 'fma', 'fmodf', 'fmod',
              'expm1f', 'expm1', 'log1pf', 'log1p', 'hypotf', 'hypot'}
LIBM_MODEL = {'ldexpf', 'ldexp', 'frexpf', 'frexp', 'nextafterf', 'nextafter', 'modff', 'modf', 'scalbnf', 'scalbn'}

FLOAT_INTRINSICS = {
    'llvm.fabs': 'fabs', 'llvm.floor': 'floor', 'llvm.ceil': 'ceil', 'llvm.trunc': 'trunc',
    'llvm.round': 'round', 'llvm.sqrt': 'sqrt', 'llvm.copysign': 'copysign', 'llvm.minnum': 'fmin',
    'llvm.maxnum': 'fmax', 'llvm.nearbyint': 'nearbyint', 'llvm.rint': 'rint', 'llvm.fma': 'fma',
    'llvm.sin': 'sin', 'llvm.cos': 'cos', 'llvm.pow': 'pow', 'llvm.exp': 'exp', 'llvm.exp2': 'exp2',
    'llvm.log': 'log', 'llvm.log2': 'log2', 'llvm.log10': 'log10',
}


class FuncEmitter:
    def __init__(self, ctx, f):
        self.ctx = ctx
        self.mod = ctx.mod
        self.f = f
        self.out = []
        self.decls = []
        self.names = {}
        self.types = {}  # local name -> type
        self.tmpn = 0
        self.collect_types()

    # ---------------------------------------------------------- naming / typing
    def lname(self, n):
        if n not in self.names:
            s = 'v' + sanitize(n) if n[0].isdigit() else 'v_' + sanitize(n)
            base = s
            k = 0
            while s in self.names.values():
                k += 1
                s = '%s_%d' % (base, k)
            self.names[n] = s
        return self.names[n]

    def label(self, n):
        return 'L_' + sanitize(n)

    def collect_types(self):
        m = self.mod
        for (t, nm, at) in self.f.params:
            self.types[nm] = t
        for b in self.f.blocks:
            for ins in b.instrs:
                if ins.res is None:
                    continue
                self.types[ins.res] = self.result_type(ins)

    def result_type(self, ins):
        op = ins.op
        if op in ('icmp', 'fcmp'):
            t = self.mod.resolve(ins.ty)
            if t[0] == 'vector':
                return ('vector', t[1], ('int', 1))
            return ('int', 1)
        if op == 'alloca':
            return ('ptr', ins.ty)
        if op == 'getelementptr':
            return ('ptr', ('int', 8))
        if op == 'extractvalue':
            t = ins.extra['agg_ty']
            for i in ins.extra['idx']:
                t = self.mod.resolve(t)
                t = t[1][i] if t[0] == 'struct' else t[2]
            return t
        if op == 'extractelement':
            return self.mod.resolve(ins.extra['vec_ty'])[2]
        if op == 'shufflevector':
            vt = self.mod.resolve(ins.extra['vec_ty'])
            mt = self.mod.resolve(ins.extra['mask'][0])
            return ('vector', mt[1], vt[2])
        return ins.ty

    def tmp(self, ctype):
        self.tmpn += 1
        n = 't%d' % self.tmpn
        self.decls.append('%s %s;' % (ctype, n))
        return n

    # ---------------------------------------------------------- values
    def val(self, v, ty):
        """C expression for value v of IR type ty"""
        ty = self.mod.resolve(ty)
        k = v[0]
        if k == 'local':
            return self.lname(v[1])
        if k == 'int':
            if ty[0] != 'int':
                raise Unsupported('int constant of type %r' % (ty,))
            return ulit(v[1], ty[1])
        if k == 'fp':
            return fp_literal(v[1], ty[0])
        if k == 'null':
            return '((ll2c_ptr)0)'
        if k in ('undef', 'poison'):
            return self.undef(ty)
        if k == 'zero':
            return self.zero(ty)
        if k == 'global':
            return self.global_ref(v[1])
        if k in ('vec', 'array'):
            ct = self.ctx.ctype(ty)
            return '((%s){{%s}})' % (ct, ', '.join(self.val(ev, et) for (et, ev) in v[1]))
        if k == 'struct':
            ct = self.ctx.ctype(ty)
            return '((%s){%s})' % (ct, ', '.join(self.val(ev, et) for (et, ev) in v[1]))
        if k == 'cexpr':
            return self.cexpr(v)
        raise Unsupported('value %r' % (v,))

    def global_ref(self, name):
        if name in self.mod.funcs:
            self.ctx.used_ext.add(('fnaddr', name))
            return '((ll2c_ptr)&%s)' % self.ctx.fname(name)
        if name in self.mod.globals:
            self.ctx.used_ext.add(('global', name))
            return '((ll2c_ptr)&%s)' % self.ctx.gname(name)
        raise Unsupported('unknown global @' + name)

    def cexpr(self, v):
        op = v[1]
        if op == 'getelementptr':
            bt, (pt, pv), idx = v[2], v[3], v[4]
            base = self.val(pv, pt)
            off = self.gep_offset(bt, idx)
            return '(%s + %s)' % (base, off)
        if op in ('bitcast', 'addrspacecast'):
            (st, sv), dt = v[2], v[3]
            if self.mod.resolve(st)[0] == 'ptr' and self.mod.resolve(dt)[0] == 'ptr':
                return self.val(sv, st)
        if op == 'inttoptr':
            (st, sv), dt = v[2], v[3]
            if sv[0] == 'int':
                return 'LL2C_INTPTR(%s)' % ulit(sv[1], 64)
        raise Unsupported('constant expression %r' % (v,))

    def undef(self, ty, q=''):
        """q='Q': quiet variant (base of an insertelement/insertvalue chain: natively 0 without flag)"""
        k = ty[0]
        if k == 'int':
            return 'LL2C_UNDEF%s(u%d)' % (q, cwidth(ty[1])) if ty[1] == cwidth(ty[1]) else \
                '((u%d)(LL2C_UNDEF%s(u%d) & %s))' % (cwidth(ty[1]), q, cwidth(ty[1]), ulit(mask(ty[1]), ty[1]))
        if k == 'float':
            return 'LL2C_UNDEF%s_F32' % q
        if k == 'double':
            return 'LL2C_UNDEF%s_F64' % q
        if k == 'ptr':
            return 'LL2C_UNDEF%s_PTR' % q
        if k in ('vector', 'array'):
            return '((%s){{%s}})' % (self.ctx.ctype(ty), ', '.join(self.undef(self.mod.resolve(ty[2]), q) for _ in range(ty[1])))
        if k == 'struct':
            return '((%s){%s})' % (self.ctx.ctype(ty), ', '.join(self.undef(self.mod.resolve(f), q) for f in ty[1]))
        raise Unsupported('undef of %r' % (ty,))

    def base_val(self, v, ty):
        if v[0] in ('undef', 'poison'):
            return self.undef(self.mod.resolve(ty), 'Q')
        return self.val(v, ty)

    def zero(self, ty):
        k = ty[0]
        if k == 'int':
            return ulit(0, ty[1])
        if k == 'float':
            return '0.0f'
        if k == 'double':
            return '0.0'
        if k == 'ptr':
            return '((ll2c_ptr)0)'
        if k in ('vector', 'array'):
            return '((%s){{%s}})' % (self.ctx.ctype(ty), ', '.join(self.zero(self.mod.resolve(ty[2])) for _ in range(ty[1])))
        if k == 'struct':
            return '((%s){%s})' % (self.ctx.ctype(ty), ', '.join(self.zero(self.mod.resolve(f)) for f in ty[1]))
        raise Unsupported('zero of %r' % (ty,))

    # ---------------------------------------------------------- integer helpers
    def sext(self, x, n):
        w = cwidth(n)
        w2 = max(w, 32)
        return 'll2c_sext%d(%s, %d)' % (w2, x, n)

    def trunc_to(self, expr, n):
        """expr computed in >= cwidth(n) bits -> masked value in u{cwidth(n)}"""
        w = cwidth(n)
        if n == w:
            return '((u%d)(%s))' % (w, expr)
        return '((u%d)((%s) & %s))' % (w, expr, ulit(mask(n), n))

    def ucomp(self, x, n):
        w = max(cwidth(n), 32)
        return '((u%d)%s)' % (w, x)

    def int_binop(self, op, flags, n, a, b):
        w = cwidth(n)
        cw = max(w, 32)
        U = 'u%d' % cw
        T = 'u%d' % w
        A = self.ucomp(a, n)
        B = self.ucomp(b, n)
        SA = self.sext(a, n)
        SB = self.sext(b, n)
        pf = self.ctx.poison_flags and cw <= 64
        wide = 's%d' % (cw * 2) if cw <= 64 else None
        uwide = 'u%d' % (cw * 2) if cw <= 64 else None
        smin = -(1 << (n - 1))
        smax = (1 << (n - 1)) - 1

        def swide_lit(v):
            if cw * 2 <= 64:
                return '((%s)%dll)' % (wide, v) if v != -(1 << 63) else '((s64)(-9223372036854775807ll - 1))'
            if v < 0:
                return '(-(s128)%s - 1)' % ulit(-v - 1, 128) if False else '(-((s128)%s))' % ulit(-v, 128)
            return '((s128)%s)' % ulit(v, 128)
        if op in ('udiv', 'urem', 'sdiv', 'srem', 'mul') and ('i' + op) in self.ctx.uf_float and n <= 64:
            # relational abstraction of integer multiply/divide (same rationale as for the float operations; mul is commutative)
            if op != 'mul':
                self.out.append('LL2C_CHECK(%s != 0, "ub:integer-divide-by-zero");' % b)
            self.ctx.trusted.add('relational abstraction: integer %s as an uninterpreted function (sound for equalities between two runs)' % op)
            return self.trunc_to('LL2C_UFI(%s, %d, (u64)%s, (u64)%s)' % (op, n, a, b), n)
        if op in ('add', 'sub', 'mul'):
            c = {'add': '+', 'sub': '-', 'mul': '*'}[op]
            r = self.trunc_to('%s %s %s' % (A, c, B), n)
            conds = []
            if pf and 'nuw' in flags:
                conds.append('((%s)%s %s (%s)%s) != (%s)%s' % (uwide, A, c, uwide, B, uwide, r) if op != 'sub'
                             else '%s < %s' % (A, B))
            if pf and 'nsw' in flags:
                e = '((%s)%s %s (%s)%s)' % (wide, SA, c, wide, SB)
                conds.append('(%s < %s || %s > %s)' % (e, swide_lit(smin), e, swide_lit(smax)))
            if conds:
                return 'LL2C_POISON(%s, %s, %s)' % (T, ' || '.join(conds), r)
            return r
        if op in ('and', 'or', 'xor'):
            c = {'and': '&', 'or': '|', 'xor': '^'}[op]
            return '((%s)(%s %s %s))' % (T, a, c, b)
        if op in ('udiv', 'urem'):
            c = '/' if op == 'udiv' else '%'
            self.out.append('LL2C_CHECK(%s != 0, "ub:integer-divide-by-zero");' % b)
            return self.trunc_to('%s %s (%s == 0 ? (%s)1 : %s)' % (A, c, B, U, B), n)
        if op in ('sdiv', 'srem'):
            c = '/' if op == 'sdiv' else '%'
            self.out.append('LL2C_CHECK(%s != 0, "ub:integer-divide-by-zero");' % b)
            self.out.append('LL2C_CHECK(!(%s == %s && %s == %s), "ub:signed-division-overflow");' %
                            (a, ulit(1 << (n - 1), n), b, ulit(mask(n), n)))
            W = 's%d' % (cw * 2) if cw <= 64 else 's128'
            return self.trunc_to('(%s)((%s)%s %s (%s == 0 ? (%s)1 : (%s)%s))' % (U, W, SA, c, B, W, W, SB), n)
        if op in ('shl', 'lshr', 'ashr'):
            amt = '(%s & %d)' % (B, cw - 1)
            mc = re.fullmatch(r'\(\(u\d+\)0x([0-9a-f]+)u\)|0x([0-9a-f]+)ull', b)
            const_ok = False
            if mc:
                cv = int(mc.group(1) or mc.group(2), 16)
                if cv < n:
                    const_ok = True
                    amt = str(cv)
            if op == 'shl':
                r = self.trunc_to('%s << %s' % (A, amt), n)
                conds = ['%s >= %d' % (b, n)]
                if pf and 'nuw' in flags:
                    conds.append('((%s)%s >> %s) != %s' % (U, r, amt, A))
                if pf and 'nsw' in flags:
                    conds.append('(%s >> %s) != %s' % (self.sext(r, n), amt, SA))
            elif op == 'lshr':
                r = self.trunc_to('%s >> %s' % (A, amt), n)
                conds = ['%s >= %d' % (b, n)]
            else:
                r = self.trunc_to('(%s)(%s >> %s)' % (U, SA, amt), n)
                conds = ['%s >= %d' % (b, n)]
            if const_ok:
                conds = conds[1:]
                if not conds:
                    return r
            return 'LL2C_POISON(%s, %s, %s)' % (T, ' || '.join(conds), r)
        raise Unsupported('int binop ' + op)

    def float_binop(self, op, a, b, kind):
        if op == 'frem':
            self.ctx.used_ext.add(('libm', 'fmodf' if kind == 'float' else 'fmod'))
            return 'LL2C_LIBM_%s(%s, %s)' % ('fmodf' if kind == 'float' else 'fmod', a, b)
        if op in self.ctx.uf_float:
            sfx = 'f32' if kind == 'float' else 'f64'
            self.ctx.trusted.add('relational abstraction: %s as an uninterpreted function (sound for equalities between two runs)' % op)
            return 'LL2C_UF2(%s_%s, %s, %s, %s)' % (op, sfx, {'fmul': '*', 'fdiv': '/', 'fadd': '+', 'fsub': '-'}[op], a, b)
        c = {'fadd': '+', 'fsub': '-', 'fmul': '*', 'fdiv': '/'}[op]
        return '(%s %s %s)' % (a, c, b)

    def icmp(self, pred, ty, a, b):
        ty = self.mod.resolve(ty)
        if ty[0] == 'ptr':
            c = {'eq': '==', 'ne': '!=', 'ult': '<', 'ule': '<=', 'ugt': '>', 'uge': '>='}.get(pred)
            if not c:
                raise Unsupported('signed pointer compare')
            if 'LL2C_INTPTR(' in a or 'LL2C_INTPTR(' in b:
                # UBSan pointer-overflow checks compare against inttoptr constants: compare integer addresses
                return '((u8)(LL2C_PTRTOINT(%s) %s LL2C_PTRTOINT(%s)))' % (a, c, b)
            return '((u8)(%s %s %s))' % (a, c, b)
        n = ty[1]
        if pred in ('eq', 'ne', 'ult', 'ule', 'ugt', 'uge'):
            c = {'eq': '==', 'ne': '!=', 'ult': '<', 'ule': '<=', 'ugt': '>', 'uge': '>='}[pred]
            return '((u8)(%s %s %s))' % (a, c, b)
        c = {'slt': '<', 'sle': '<=', 'sgt': '>', 'sge': '>='}[pred]
        return '((u8)(%s %s %s))' % (self.sext(a, n), c, self.sext(b, n))

    def fcmp(self, pred, a, b):
        tbl = {
            'oeq': '(A == B)', 'ogt': '(A > B)', 'oge': '(A >= B)', 'olt': '(A < B)', 'ole': '(A <= B)',
            'one': '(A < B || A > B)', 'ord': '(A == A && B == B)', 'uno': '(A != A || B != B)',
            'ueq': '(!(A < B || A > B))', 'ugt': '(!(A <= B))', 'uge': '(!(A < B))', 'ult': '(!(A >= B))',
            'ule': '(!(A > B))', 'une': '(A != B)', 'true': '1', 'false': '0'}
        e = tbl[pred].replace('A', '\x00').replace('B', '\x01').replace('\x00', a).replace('\x01', b)
        return '((u8)%s)' % e

    def cast(self, op, st, dt, x):
        st = self.mod.resolve(st)
        dt = self.mod.resolve(dt)
        if op == 'trunc':
            return self.trunc_to(x, dt[1])
        if op == 'zext':
            return '((u%d)%s)' % (cwidth(dt[1]), x)
        if op == 'sext':
            w = cwidth(dt[1])
            e = self.sext(x, st[1])
            return self.trunc_to('(u%d)%s' % (max(w, 32), e) if max(w, 32) >= max(cwidth(st[1]), 32) else e, dt[1]) \
                if w <= 64 else self.trunc_to('(u128)(s128)%s' % e, dt[1])
        if op in ('fpext', 'fptrunc'):
            return '((%s)%s)' % (dt[0], x)
        if op in ('uitofp', 'sitofp'):
            if op == 'uitofp':
                return '((%s)%s)' % (dt[0], x)
            return '((%s)%s)' % (dt[0], self.sext(x, st[1]))
        if op in ('fptoui', 'fptosi'):
            n = dt[1]
            w = cwidth(n)
            if w > 64:
                raise Unsupported('fp to i128')
            T = 'u%d' % w
            mant = 24 if st[0] == 'float' else 53
            X = '(double)%s' % x if st[0] == 'float' else x
            if op == 'fptoui':
                hi = float(1 << n)
                ok = '(%s > -1.0 && %s < %s)' % (X, X, hi.hex())
                conv = self.trunc_to('(u64)%s' % x, n)
            else:
                hi = float(1 << (n - 1))
                if n - 1 < 53:
                    lo = float(-(1 << (n - 1)) - 1)
                    ok = '(%s > %s && %s < %s)' % (X, lo.hex(), X, hi.hex())
                else:
                    ok = '(%s >= %s && %s < %s)' % (X, (-hi).hex(), X, hi.hex())
                conv = self.trunc_to('(u64)(s64)%s' % x, n)
            return 'LL2C_POISON(%s, !%s, %s)' % (T, ok, conv)
        if op == 'bitcast':
            if st[0] == 'ptr' and dt[0] == 'ptr':
                return x
            if st[0] == 'float' and dt == ('int', 32):
                return 'll2c_f32_bits(%s)' % x
            if st == ('int', 32) and dt[0] == 'float':
                return 'll2c_bits_f32(%s)' % x
            if st[0] == 'double' and dt == ('int', 64):
                return 'll2c_f64_bits(%s)' % x
            if st == ('int', 64) and dt[0] == 'double':
                return 'll2c_bits_f64(%s)' % x
            return None  # generic: through memory
        raise Unsupported('cast ' + op)

    # ---------------------------------------------------------- memory
    def load(self, ty, p, off=0):
        ty = self.mod.resolve(ty)
        k = ty[0]
        pe = '(%s + %d)' % (p, off) if off else p
        if k == 'int':
            n = ty[1]
            sz = self.mod.sizeof(ty)
            if sz * 8 == n:
                return 'LL2C_LOAD(u%d, %s)' % (n, pe)
            if n < 8:
                return '((u8)(LL2C_LOAD(u8, %s) & %s))' % (pe, ulit(mask(n), n))
            if n % 8 == 0 and n <= 64:
                # odd byte width (i24, i48, ...: memcpy of 3 or 6 bytes): little-endian byte assembly
                w = cwidth(n)
                return '((u%d)(%s))' % (w, ' | '.join('((u%d)LL2C_LOAD(u8, (%s + %d)) << %d)' % (w, p, off + i, 8 * i) for i in range(n // 8)))
            raise Unsupported('load of i%d' % n)
        if k in ('float', 'double'):
            return 'LL2C_LOAD(%s, %s)' % (k, pe)
        if k == 'ptr':
            return 'LL2C_LOAD(ll2c_ptr, %s)' % pe
        if k in ('vector', 'array'):
            es = self.mod.sizeof(ty[2])
            return '((%s){{%s}})' % (self.ctx.ctype(ty), ', '.join(self.load(ty[2], p, off + i * es) for i in range(ty[1])))
        if k == 'struct':
            return '((%s){%s})' % (self.ctx.ctype(ty), ', '.join(
                self.load(f, p, off + self.mod.field_offset(ty, i)) for i, f in enumerate(ty[1])))
        raise Unsupported('load of %r' % (ty,))

    def store(self, ty, v, p, off=0):
        ty = self.mod.resolve(ty)
        k = ty[0]
        pe = '(%s + %d)' % (p, off) if off else p
        if k == 'int':
            n = ty[1]
            sz = self.mod.sizeof(ty)
            if sz * 8 == n:
                self.out.append('LL2C_STORE(u%d, %s, %s);' % (n, pe, v))
                return
            if n < 8:
                self.out.append('LL2C_STORE(u8, %s, %s);' % (pe, v))
                return
            if n % 8 == 0 and n <= 64:
                for i in range(n // 8):
                    self.out.append('LL2C_STORE(u8, (%s + %d), (u8)(%s >> %d));' % (p, off + i, v, 8 * i))
                return
            raise Unsupported('store of i%d' % n)
        if k in ('float', 'double'):
            self.out.append('LL2C_STORE(%s, %s, %s);' % (k, pe, v))
            return
        if k == 'ptr':
            self.out.append('LL2C_STORE(ll2c_ptr, %s, %s);' % (pe, v))
            return
        if k in ('vector', 'array'):
            es = self.mod.sizeof(ty[2])
            for i in range(ty[1]):
                self.store(ty[2], '%s.e[%d]' % (v, i), p, off + i * es)
            return
        if k == 'struct':
            for i, f in enumerate(ty[1]):
                self.store(f, '%s.f%d' % (v, i), p, off + self.mod.field_offset(ty, i))
            return
        raise Unsupported('store of %r' % (ty,))

    def gep_offset(self, bt, idx):
        """C expression (ptrdiff) for a GEP offset"""
        const = 0
        terms = []
        t = bt
        for j, (it, iv) in enumerate(idx):
            it = self.mod.resolve(it)
            if j == 0:
                sz = self.mod.sizeof(t)
            else:
                rt = self.mod.resolve(t)
                if rt[0] == 'struct':
                    if iv[0] != 'int':
                        raise Unsupported('dynamic struct index')
                    const += self.mod.field_offset(rt, iv[1])
                    t = rt[1][iv[1]]
                    continue
                if rt[0] in ('array', 'vector'):
                    t = rt[2]
                    sz = self.mod.sizeof(t)
                else:
                    raise Unsupported('GEP into %r' % (rt,))
            if iv[0] == 'int':
                v = iv[1]
                if v >= (1 << (it[1] - 1)):
                    v -= (1 << it[1])
                const += v * sz
            else:
                terms.append('(s64)%s * %d' % (self.sext(self.val(iv, it), it[1]) if it[1] < 64
                                              else '(s64)' + self.val(iv, it), sz))
        terms.append(str(const))
        return '(' + ' + '.join(terms) + ')'

    # ---------------------------------------------------------- per-lane helper
    def lanes(self, ty):
        ty = self.mod.resolve(ty)
        if ty[0] == 'vector':
            return ty[1], self.mod.resolve(ty[2])
        return None, ty

    def assign(self, res, expr):
        self.out.append('%s = %s;' % (self.lname(res), expr))

    # ---------------------------------------------------------- instruction emission
    def emit_instr(self, ins, blk):
        op = ins.op
        m = self.mod
        if ins.flags & FMF:
            # nsz on llvm.minnum/maxnum (clang's lowering of std::fmin/fmax): only frees the sign of a zero result;
            # modelled by the fmin/fmax model (one of the permitted results).  Everything else: outside the table.
            if not (ins.flags & FMF == {'nsz'} and op == 'call' and ins.ops[0][0] == 'global' and
                    ins.ops[0][1].startswith(('llvm.minnum.', 'llvm.maxnum.'))):
                raise Unsupported('fast-math flags: ' + ins.src)
            self.ctx.trusted.add('nsz on llvm.minnum/maxnum modelled as fmin/fmax (sign of a zero result is one permitted choice)')
        if op in BIN_OPS:
            n, et = self.lanes(ins.ty)
            a = self.val(ins.ops[0], ins.ty)
            b = self.val(ins.ops[1], ins.ty)

            def one(x, y):
                if et[0] == 'int':
                    return self.int_binop(op, ins.flags, et[1], x, y)
                return self.float_binop(op, x, y, et[0])
            if n is None:
                self.assign(ins.res, one(a, b))
            else:
                ta = self.mat(a, ins.ty)
                tb = self.mat(b, ins.ty)
                for i in range(n):
                    e = one('%s.e[%d]' % (ta, i), '%s.e[%d]' % (tb, i))
                    self.out.append('%s.e[%d] = %s;' % (self.lname(ins.res), i, e))
            return
        if op == 'fneg':
            n, et = self.lanes(ins.ty)
            a = self.val(ins.ops[0], ins.ty)
            if n is None:
                self.assign(ins.res, '(-%s)' % a)
            else:
                ta = self.mat(a, ins.ty)
                for i in range(n):
                    self.out.append('%s.e[%d] = -%s.e[%d];' % (self.lname(ins.res), i, ta, i))
            return
        if op in ('icmp', 'fcmp'):
            n, et = self.lanes(ins.ty)
            a = self.val(ins.ops[0], ins.ty)
            b = self.val(ins.ops[1], ins.ty)
            pred = ins.extra['pred']
            f = (lambda x, y: self.icmp(pred, et, x, y)) if op == 'icmp' else (lambda x, y: self.fcmp(pred, x, y))
            if n is None:
                self.assign(ins.res, f(a, b))
            else:
                ta = self.mat(a, ins.ty)
                tb = self.mat(b, ins.ty)
                for i in range(n):
                    self.out.append('%s.e[%d] = %s;' % (self.lname(ins.res), i, f('%s.e[%d]' % (ta, i), '%s.e[%d]' % (tb, i))))
            return
        if op in CAST_OPS:
            st = m.resolve(ins.extra['src_ty'])
            dt = m.resolve(ins.ty)
            x = self.val(ins.ops[0], st)
            if op == 'ptrtoint':
                self.ctx.trusted.add('ptrtoint model: object bases are aligned to 4096 bytes (only used by UBSan alignment/null checks)')
                self.assign(ins.res, self.trunc_to('LL2C_PTRTOINT(%s)' % x, dt[1]))
                return
            if op in ('inttoptr', 'addrspacecast'):
                raise Unsupported(op)
            if st[0] == 'vector' and dt[0] == 'vector' and st[1] == dt[1] and op != 'bitcast':
                tx = self.mat(x, st)
                for i in range(st[1]):
                    e = self.cast(op, st[2], dt[2], '%s.e[%d]' % (tx, i))
                    self.out.append('%s.e[%d] = %s;' % (self.lname(ins.res), i, e))
                return
            if op == 'bitcast' and st[0] == 'vector' and m.resolve(st[2]) == ('int', 1) and dt[0] == 'int' and dt[1] == st[1]:
                # <N x i1> -> iN (movemask idiom): lane i becomes bit i
                self.assign(ins.res, self.trunc_to(' | '.join('((u32)%s.e[%d] << %d)' % (x, i, i) for i in range(st[1])), dt[1]))
                return
            if op == 'bitcast' and dt[0] == 'vector' and m.resolve(dt[2]) == ('int', 1) and st[0] == 'int' and st[1] == dt[1]:
                for i in range(dt[1]):
                    self.out.append('%s.e[%d] = (u8)((%s >> %d) & 1);' % (self.lname(ins.res), i, x, i))
                return
            e = self.cast(op, st, dt, x) if not (st[0] in ('vector',) or dt[0] in ('vector',)) else None
            if e is None:
                if op != 'bitcast':
                    raise Unsupported('cast %s %r -> %r' % (op, st, dt))
                # generic bitcast through a byte buffer
                sz = m.sizeof(st)
                if sz != m.sizeof(dt):
                    raise Unsupported('bitcast size mismatch')
                buf = self.tmp_buf(sz)
                self.store(st, self.mat(x, st), buf)
                self.assign(ins.res, self.load(dt, buf))
                return
            self.assign(ins.res, e)
            return
        if op == 'select':
            ct = m.resolve(ins.extra['cond_ty'])
            c = self.val(ins.ops[0], ct)
            a = self.val(ins.ops[1], ins.ty)
            b = self.val(ins.ops[2], ins.ty)
            if ct[0] == 'vector':
                tc = self.mat(c, ct)
                ta = self.mat(a, ins.ty)
                tb = self.mat(b, ins.ty)
                for i in range(ct[1]):
                    self.out.append('%s.e[%d] = %s.e[%d] ? %s.e[%d] : %s.e[%d];' % (self.lname(ins.res), i, tc, i, ta, i, tb, i))
            else:
                self.assign(ins.res, '(%s ? %s : %s)' % (c, a, b))
            return
        if op == 'freeze':
            self.assign(ins.res, self.val(ins.ops[0], ins.ty))
            return
        if op == 'alloca':
            if blk is not self.f.blocks[0]:
                raise Unsupported('alloca outside entry block')
            cnt = 1
            if ins.extra['count']:
                ct, cv = ins.extra['count']
                if cv[0] != 'int':
                    raise Unsupported('dynamic alloca')
                cnt = cv[1]
            sz = m.sizeof(ins.ty) * cnt
            al = ins.extra['align'] or m.alignof(ins.ty)
            bn = self.lname(ins.res) + '_buf'
            self.decls.append('char %s[%d] LL2C_ALIGNED(%d);' % (bn, max(sz, 1), al))
            self.assign(ins.res, '(ll2c_ptr)%s' % bn)
            return
        if op == 'load':
            p = self.val(ins.ops[0], ('ptr', ins.ty))
            self.assign(ins.res, self.load(ins.ty, p))
            return
        if op == 'store':
            p = self.val(ins.ops[1], ('ptr', ins.ty))
            v = self.val(ins.ops[0], ins.ty)
            rt = m.resolve(ins.ty)
            if rt[0] in ('vector', 'array', 'struct'):
                v = self.mat(v, rt)
            self.store(ins.ty, v, p)
            return
        if op == 'getelementptr':
            p = self.val(ins.ops[0], ins.extra['ptr_ty'])
            if m.resolve(ins.extra['ptr_ty'])[0] == 'vector':
                raise Unsupported('vector GEP')
            self.assign(ins.res, '(%s + %s)' % (p, self.gep_offset(ins.extra['base_ty'], ins.extra['idx'])))
            return
        if op == 'phi':
            return  # handled on edges
        if op == 'extractvalue':
            t = ins.extra['agg_ty']
            e = self.mat(self.val(ins.ops[0], t), t)
            for i in ins.extra['idx']:
                rt = m.resolve(t)
                if rt[0] == 'struct':
                    e += '.f%d' % i
                    t = rt[1][i]
                else:
                    e += '.e[%d]' % i
                    t = rt[2]
            self.assign(ins.res, e)
            return
        if op == 'insertvalue':
            t = ins.ty
            self.assign(ins.res, self.base_val(ins.ops[0], t))
            e = self.lname(ins.res)
            for i in ins.extra['idx']:
                rt = m.resolve(t)
                if rt[0] == 'struct':
                    e += '.f%d' % i
                    t = rt[1][i]
                else:
                    e += '.e[%d]' % i
                    t = rt[2]
            self.out.append('%s = %s;' % (e, self.val(ins.ops[1], ins.extra['el_ty'])))
            return
        if op == 'extractelement':
            vt = m.resolve(ins.extra['vec_ty'])
            v = self.mat(self.val(ins.ops[0], vt), vt)
            if ins.ops[1][0] == 'int':
                self.assign(ins.res, '%s.e[%d]' % (v, ins.ops[1][1]))
            else:
                raise Unsupported('dynamic extractelement')
            return
        if op == 'insertelement':
            vt = m.resolve(ins.ty)
            base = ins.ops[0]
            if (base[0] == 'vec' and ins.ops[2][0] == 'int' and 0 <= ins.ops[2][1] < len(base[1])
                    and base[1][ins.ops[2][1]][1][0] in ('undef', 'poison')):
                # constant base <poison, c1, ..> whose poison lane is the one being overwritten: that lane is never
                # observable, so build the base with the inserted value already in place (no poison flag in the T-check)
                elems = list(base[1])
                elems[ins.ops[2][1]] = (elems[ins.ops[2][1]][0], ins.ops[1])
                base = ('vec', elems)
            self.assign(ins.res, self.base_val(base, vt))
            if ins.ops[2][0] != 'int':
                raise Unsupported('dynamic insertelement')
            self.out.append('%s.e[%d] = %s;' % (self.lname(ins.res), ins.ops[2][1], self.val(ins.ops[1], vt[2])))
            return
        if op == 'shufflevector':
            vt = m.resolve(ins.extra['vec_ty'])
            a = self.mat(self.val(ins.ops[0], vt), vt)
            b = self.mat(self.val(ins.ops[1], vt), vt) if ins.ops[1][0] not in ('undef', 'poison') else None
            mt, mv = ins.extra['mask']
            mt = m.resolve(mt)
            n = vt[1]
            if mv[0] == 'zero':
                idxs = [0] * mt[1]
            elif mv[0] in ('undef', 'poison'):
                idxs = [None] * mt[1]
            else:
                idxs = [(ev[1] if ev[0] == 'int' else None) for (et, ev) in mv[1]]
            def lane(opnd, expr, j):
                if opnd[0] == 'vec':
                    # constant operand: evaluate the selected lane only (its other lanes may be poison and are never observed)
                    et_, ev_ = opnd[1][j]
                    return self.val(ev_, et_)
                return '%s.e[%d]' % (expr, j)
            for i, ix in enumerate(idxs):
                if ix is None:
                    e = self.undef(m.resolve(vt[2]), 'Q')
                elif ix < n:
                    e = lane(ins.ops[0], a, ix)
                else:
                    if b is None:
                        e = self.undef(m.resolve(vt[2]), 'Q')
                    else:
                        e = lane(ins.ops[1], b, ix - n)
                self.out.append('%s.e[%d] = %s;' % (self.lname(ins.res), i, e))
            return
        if op == 'call':
            self.emit_call(ins)
            return
        if op == 'ret':
            if ins.ty == ('void',):
                self.out.append('return;')
            else:
                self.out.append('return %s;' % self.val(ins.ops[0], ins.ty))
            return
        if op == 'br':
            if 'dest' in ins.extra:
                self.edge(blk, ins.extra['dest'])
            else:
                c = self.val(ins.ops[0], ('int', 1))
                self.out.append('if (%s) {' % c)
                self.edge(blk, ins.extra['t'])
                self.out.append('} else {')
                self.edge(blk, ins.extra['f'])
                self.out.append('}')
            return
        if op == 'switch':
            v = self.val(ins.ops[0], ins.ty)
            self.out.append('switch (%s) {' % v)
            for cv, l in ins.extra['cases']:
                self.out.append('case %s: {' % ('0x%x' % (cv[1] & mask(m.resolve(ins.ty)[1]))))
                self.edge(blk, l)
                self.out.append('}')
            self.out.append('default: {')
            self.edge(blk, ins.extra['default'])
            self.out.append('}')
            self.out.append('}')
            return
        if op == 'unreachable':
            self.out.append('LL2C_TRAP("unreachable");')
            return
        raise Unsupported('emit ' + op)

    def mat(self, expr, ty):
        """make sure an aggregate expression is an lvalue-ish name (compound literals are fine too)"""
        return expr

    def tmp_buf(self, sz):
        self.tmpn += 1
        n = 'tb%d' % self.tmpn
        self.decls.append('char %s[%d] LL2C_ALIGNED(16);' % (n, sz))
        return '((ll2c_ptr)%s)' % n

    def edge(self, blk, dest):
        """phi copies for edge blk->dest, then goto"""
        db = self.blockmap[dest]
        phis = [i for i in db.instrs if i.op == 'phi']
        if phis:
            tmps = []
            for ph in phis:
                v = None
                for (iv, il) in ph.extra['inc']:
                    if il == blk.label:
                        v = iv
                        break
                if v is None:
                    raise Unsupported('phi without incoming for edge %s->%s' % (blk.label, dest))
                t = self.tmp(self.ctx.ctype(ph.ty))
                self.out.append('%s = %s;' % (t, self.val(v, ph.ty)))
                tmps.append(t)
            for ph, t in zip(phis, tmps):
                self.out.append('%s = %s;' % (self.lname(ph.res), t))
        if dest == getattr(self, 'selfloop', None) and blk.label == dest:
            self.out.append('continue;   /* back edge of the loop under contract */')
        else:
            self.out.append('goto %s;' % self.label(dest))

    # ---------------------------------------------------------- calls
    def emit_call(self, ins):
        m = self.mod
        callee = ins.ops[0]
        args = ins.extra['args']
        if callee[0] == 'local':
            # indirect call through a function pointer value
            fp = self.lname(callee[1])
            at = ', '.join(self.ctx.sig_type(t) for (t, v, a) in args) or 'void'
            rt = self.ctx.sig_type(ins.ty)
            call = '((%s (*)(%s))%s)(%s)' % (rt, at, fp, ', '.join(self.argval(t, v) for (t, v, a) in args))
            self.finish_call(ins, call)
            return
        if callee[0] != 'global':
            raise Unsupported('callee %r' % (callee,))
        name = callee[1]
        if name.startswith('llvm.'):
            self.emit_intrinsic(ins, name, args)
            return
        f = m.funcs.get(name)
        if f is not None and f.defined:
            call = '%s(%s)' % (self.ctx.fname(name), ', '.join(self.argval(t, v) for (t, v, a) in args))
            self.ctx.used_ext.add(('call', name))
            self.finish_call(ins, call)
            return
        if name == '__assert_fail':
            loc = self.dbgloc(ins)
            self.out.append('LL2C_TRAP("glm-assert %s");' % loc)
            return
        if name in ('abort', '_ZSt9terminatev', '__cxa_pure_virtual'):
            self.out.append('LL2C_TRAP("abort");')
            return
        if name in LIBM_CBMC or name in LIBM_UNINT or name in LIBM_MODEL:
            self.ctx.used_ext.add(('libm', name))
            call = '%s(%s)' % (self.libm_name(name, args), ', '.join(self.argval(t, v) for (t, v, a) in args))
            self.finish_call(ins, call)
            return
        if name in ('memcpy', 'memset', 'memmove'):
            call = '%s(%s)' % (name, ', '.join(self.argval(t, v) for (t, v, a) in args))
            self.finish_call(ins, call)
            return
        if f is not None and not f.defined:
            # external function declared but not defined: keep as extern (contract may be supplied)
            self.ctx.used_ext.add(('extern', name))
            call = '%s(%s)' % (self.ctx.fname(name), ', '.join(self.argval(t, v) for (t, v, a) in args))
            self.finish_call(ins, call)
            return
        raise Unsupported('call to unknown @' + name)

    def libm_name(self, name, args, nargs=None):
        base = name[:-1] if (name.endswith('f') and name[:-1] in ('sqrt', 'fmod', 'floor', 'ceil', 'trunc', 'round', 'fabs', 'fmin', 'fmax', 'nearbyint', 'rint', 'copysign')) else name
        if base in self.ctx.uf_float and base in ('sqrt', 'fmod'):
            k = 'float' if name.endswith('f') else 'double'
            n = nargs if nargs is not None else len(args)
            self.ctx.uf_decls.add('%s __CPROVER_uninterpreted_uf_%s(%s);' % (k, name, ', '.join([k] * n)))
            self.ctx.trusted.add('relational abstraction: %s as an uninterpreted function (sound for equalities between two runs)' % base)
            return 'LL2C_UFCALL(%s)' % name
        return 'LL2C_LIBM_%s' % name

    def argval(self, t, v):
        e = self.val(v, t)
        rt = self.mod.resolve(t)
        if rt[0] == 'ptr':
            return '(void *)%s' % e
        return e

    def finish_call(self, ins, call):
        rt = self.mod.resolve(ins.ty)
        if ins.res is None or rt == ('void',):
            self.out.append(call + ';')
        elif rt[0] == 'ptr':
            self.assign(ins.res, '(ll2c_ptr)' + call)
        else:
            self.assign(ins.res, call)

    def dbgloc(self, ins):
        if not ins.dbg:
            return '?:0'
        loc = dbg_location(self.mod, ins.dbg)
        parts = []
        n = 0
        while loc and n < 8:
            fn = (loc[0] or '?')
            fn = re.sub(r'^.*/glm/', 'glm/', fn)
            parts.append('%s:%d' % (fn, loc[1]))
            if loc[2]:
                loc = dbg_location(self.mod, loc[2])
            else:
                break
            n += 1
        return ' <- '.join(parts)

    UBSAN_KINDS = {0: 'add-overflow', 1: 'builtin-unreachable', 2: 'cfi-check-fail', 3: 'divrem-overflow',
                   4: 'dynamic-type-cache-miss', 5: 'float-cast-overflow', 6: 'function-type-mismatch',
                   7: 'implicit-conversion', 8: 'invalid-builtin', 9: 'invalid-objc-cast',
                   10: 'load-invalid-value', 11: 'missing-return', 12: 'mul-overflow', 13: 'negate-overflow',
                   14: 'nullability-arg', 15: 'nullability-return', 16: 'nonnull-arg', 17: 'nonnull-return',
                   18: 'out-of-bounds', 19: 'pointer-overflow', 20: 'shift-out-of-bounds', 21: 'sub-overflow',
                   22: 'type-mismatch', 23: 'alignment-assumption', 24: 'vla-bound-not-positive'}

    def emit_intrinsic(self, ins, name, args):
        m = self.mod
        base = name
        if name.startswith(('llvm.lifetime.', 'llvm.dbg.', 'llvm.experimental.noalias', 'llvm.invariant.',
                            'llvm.donothing', 'llvm.prefetch')):
            return   # no-ops; their arguments may be metadata, which has no C value
        A = [self.val(v, t) for (t, v, a) in args]
        if name == 'llvm.assume':
            self.out.append('LL2C_CHECK(%s, "llvm.assume");' % A[0])
            return
        if name == 'llvm.ubsantrap':
            kind = args[0][1][1]
            self.out.append('LL2C_TRAP("ubsan:%s %s");' % (self.UBSAN_KINDS.get(kind, str(kind)), self.dbgloc(ins)))
            return
        if name in ('llvm.trap', 'llvm.debugtrap'):
            self.out.append('LL2C_TRAP("trap %s");' % self.dbgloc(ins))
            return
        if name.startswith(('llvm.memcpy.', 'llvm.memmove.', 'llvm.memset.')):
            fn = name.split('.')[1]
            n = args[2][1]
            if n[0] != 'int':
                raise Unsupported('dynamic-length ' + fn)
            nb = n[1]
            if fn == 'memset':
                for i in range(nb):
                    self.out.append('LL2C_STORE(u8, (%s + %d), %s);' % (A[0], i, A[1]))
            else:
                # byte-wise copy through temporaries (memmove-safe)
                ts = []
                for i in range(nb):
                    t = self.tmp('u8')
                    self.out.append('%s = LL2C_LOAD(u8, (%s + %d));' % (t, A[1], i))
                    ts.append(t)
                for i, t in enumerate(ts):
                    self.out.append('LL2C_STORE(u8, (%s + %d), %s);' % (A[0], i, t))
            return
        # float intrinsics llvm.<op>.f32 / .f64 / .v4f32
        mm = re.match(r'^(llvm\.[a-z0-9]+)\.(f32|f64|v(\d+)f(32|64))$', name)
        if mm and mm.group(1) in FLOAT_INTRINSICS:
            cn = FLOAT_INTRINSICS[mm.group(1)]
            if cn in ('fmin', 'fmax'):
                # LangRef llvm.minnum/maxnum (= libm fmin/fmax): for operands +0 and -0 either zero may be returned, so two
                # correct compilations may differ in that sign bit.  The marker (it contains 'nsz') makes the T-check
                # compare zero results by value for this build; CBMC's fmin/fmax model is one permitted choice.
                self.ctx.trusted.add('llvm.minnum/maxnum: sign of a zero result unspecified (nsz-like), one permitted choice modelled')
            if mm.group(3):
                n = int(mm.group(3))
                suf = 'f' if mm.group(4) == '32' else ''
                fn = cn + suf
                self.ctx.used_ext.add(('libm', fn))
                for i in range(n):
                    self.out.append('%s.e[%d] = %s(%s);' % (self.lname(ins.res), i, self.libm_name(fn, None, len(A)),
                                                                      ', '.join('%s.e[%d]' % (a, i) for a in A)))
                return
            fn = cn + ('f' if mm.group(2) == 'f32' else '')
            self.ctx.used_ext.add(('libm', fn))
            self.assign(ins.res, '%s(%s)' % (self.libm_name(fn, None, len(A)), ', '.join(A)))
            return
        # horizontal integer reductions: llvm.vector.reduce.or.v4i32 etc. (add/mul wrap: low n bits of the u64 result are exact)
        mm = re.match(r'^llvm\.vector\.reduce\.(or|and|xor|add|mul)\.v(\d+)i(\d+)$', name)
        if mm:
            opn, lanes, n = mm.group(1), int(mm.group(2)), int(mm.group(3))
            if n > 64:
                raise Unsupported(name)
            ta = self.mat(A[0], m.resolve(args[0][0]))
            c = {'or': '|', 'and': '&', 'xor': '^', 'add': '+', 'mul': '*'}[opn]
            self.assign(ins.res, self.trunc_to((' %s ' % c).join('(u64)%s.e[%d]' % (ta, i) for i in range(lanes)), n))
            return
        # element-wise integer intrinsics on vectors: llvm.abs.v4i32 etc. (same formulas as the scalar case below)
        mm = re.match(r'^llvm\.(abs|smax|smin|umax|umin|ctpop|ctlz|cttz)\.v(\d+)i(\d+)$', name)
        if mm:
            opn, lanes, n = mm.group(1), int(mm.group(2)), int(mm.group(3))
            if n > 64:
                raise Unsupported(name)
            T = 'u%d' % cwidth(n)
            vty = m.resolve(args[0][0])
            ta = self.mat(A[0], vty)
            tb = self.mat(A[1], vty) if opn in ('smax', 'smin', 'umax', 'umin') else None
            for i in range(lanes):
                a = '%s.e[%d]' % (ta, i)
                if opn == 'abs':
                    sa = self.sext(a, n)
                    e = self.trunc_to('(u64)(%s < 0 ? -(s64)%s : (s64)%s)' % (sa, sa, sa), n)
                    if args[1][1] == ('int', 1):
                        e = 'LL2C_POISON(%s, %s == %s, %s)' % (T, a, ulit(1 << (n - 1), n), e)
                elif opn == 'ctpop':
                    e = '(%s)ll2c_ctpop(%s)' % (T, a)
                elif opn in ('ctlz', 'cttz'):
                    e = '(%s)ll2c_%s(%s, %d)' % (T, opn, a, n)
                    if args[1][1] == ('int', 1):
                        e = 'LL2C_POISON(%s, %s == 0, %s)' % (T, a, e)
                else:
                    b = '%s.e[%d]' % (tb, i)
                    if opn in ('smax', 'smin'):
                        e = '(%s %s %s ? %s : %s)' % (self.sext(a, n), '>' if opn == 'smax' else '<', self.sext(b, n), a, b)
                    else:
                        e = '(%s %s %s ? %s : %s)' % (a, '>' if opn == 'umax' else '<', b, a, b)
                self.out.append('%s.e[%d] = %s;' % (self.lname(ins.res), i, e))
            return
        mm = re.match(r'^llvm\.(ctpop|ctlz|cttz|bswap|bitreverse|abs|smax|smin|umax|umin|fshl|fshr|'
                      r'uadd\.sat|usub\.sat|sadd\.sat|ssub\.sat)\.i(\d+)$', name)
        if mm:
            opn, n = mm.group(1), int(mm.group(2))
            if n > 64:
                raise Unsupported(name)
            T = 'u%d' % cwidth(n)
            a = A[0]
            if opn == 'ctpop':
                e = '(%s)ll2c_ctpop(%s)' % (T, a)
            elif opn == 'ctlz':
                e = '(%s)ll2c_ctlz(%s, %d)' % (T, a, n)
                if args[1][1] == ('int', 1):
                    e = 'LL2C_POISON(%s, %s == 0, %s)' % (T, a, e)
            elif opn == 'cttz':
                e = '(%s)ll2c_cttz(%s, %d)' % (T, a, n)
                if args[1][1] == ('int', 1):
                    e = 'LL2C_POISON(%s, %s == 0, %s)' % (T, a, e)
            elif opn == 'bswap':
                e = self.trunc_to('ll2c_bswap64(%s) >> %d' % (a, 64 - n), n)
            elif opn == 'bitreverse':
                e = self.trunc_to('ll2c_bitreverse64(%s) >> %d' % (a, 64 - n), n)
            elif opn == 'abs':
                sa = self.sext(a, n)
                e = self.trunc_to('(u64)(%s < 0 ? -(s64)%s : (s64)%s)' % (sa, sa, sa), n)
                if args[1][1] == ('int', 1):
                    e = 'LL2C_POISON(%s, %s == %s, %s)' % (T, a, ulit(1 << (n - 1), n), e)
            elif opn in ('smax', 'smin'):
                c = '>' if opn == 'smax' else '<'
                e = '(%s %s %s ? %s : %s)' % (self.sext(a, n), c, self.sext(A[1], n), a, A[1])
            elif opn in ('umax', 'umin'):
                c = '>' if opn == 'umax' else '<'
                e = '(%s %s %s ? %s : %s)' % (a, c, A[1], a, A[1])
            elif opn in ('fshl', 'fshr'):
                # fshl(a,b,c): ((a:b) << (c mod n)) high part ; fshr: low part of ((a:b) >> (c mod n))
                if n > 32 and n != 64:
                    raise Unsupported(name)
                c = '(%s %% %d)' % (A[2], n)
                if n <= 32:
                    cat = '(((u64)%s << %d) | (u64)%s)' % (a, n, A[1])
                    e = self.trunc_to('(%s << %s) >> %d' % (cat, c, n) if opn == 'fshl' else '%s >> %s' % (cat, c), n)
                else:
                    cat = '(((u128)%s << 64) | (u128)%s)' % (a, A[1])
                    e = '((u64)((%s << %s) >> 64))' % (cat, c) if opn == 'fshl' else '((u64)(%s >> %s))' % (cat, c)
            elif opn in ('uadd.sat', 'usub.sat'):
                if opn == 'uadd.sat':
                    s = self.trunc_to('%s + %s' % (self.ucomp(a, n), self.ucomp(A[1], n)), n)
                    e = '(%s < %s ? %s : %s)' % (s, a, ulit(mask(n), n), s)
                else:
                    e = '(%s < %s ? %s : %s)' % (a, A[1], ulit(0, n), self.trunc_to('%s - %s' % (self.ucomp(a, n), self.ucomp(A[1], n)), n))
            else:
                raise Unsupported(name)
            self.assign(ins.res, e)
            return
        mm = re.match(r'^llvm\.(uadd|usub|umul|sadd|ssub|smul)\.with\.overflow\.i(\d+)$', name)
        if mm:
            opn, n = mm.group(1), int(mm.group(2))
            if n > 64:
                raise Unsupported(name)
            c = {'add': '+', 'sub': '-', 'mul': '*'}[opn[1:]]
            a, b = A
            r = self.trunc_to('%s %s %s' % (self.ucomp(a, n), c, self.ucomp(b, n)), n)
            cw = max(cwidth(n), 32)
            if opn[0] == 'u':
                if opn == 'usub':
                    ov = '(%s < %s)' % (a, b)
                else:
                    ov = '(((u%d)%s %s (u%d)%s) != (u%d)%s)' % (cw * 2, a, c, cw * 2, b, cw * 2, r)
            else:
                W = 's%d' % (cw * 2)
                e = '((%s)%s %s (%s)%s)' % (W, self.sext(a, n), c, W, self.sext(b, n))
                ov = '(%s != (%s)%s)' % (e, W, self.sext(r, n))
            rn = self.lname(ins.res)
            self.out.append('%s.f0 = %s;' % (rn, r))
            self.out.append('%s.f1 = (u8)%s;' % (rn, ov))
            return
        if name.startswith('llvm.x86.'):
            self.emit_x86(ins, name, args, A)
            return
        raise Unsupported('intrinsic ' + name)

    def emit_x86(self, ins, name, args, A):
        """lane-wise models of the few x86 intrinsics that survive in the IR of GLM's SIMD paths, written from the Intel SDM
        pseudo-code (TRUSTED; listed in the evidence)"""
        self.ctx.used_ext.add(('x86', name))
        self.ctx.trusted.add('x86-intrinsic-model (Intel SDM pseudo-code): ' + name)
        r = self.lname(ins.res) if ins.res is not None else None
        short = name[len('llvm.x86.'):]

        def imm(k):
            v = args[k][1]
            if v[0] != 'int':
                raise Unsupported('non-constant immediate of ' + name)
            return v[1] & 0xff
        if short in ('sse.min.ps', 'sse.max.ps', 'sse2.min.pd', 'sse2.max.pd'):
            # MINPS: dst = (src1 < src2) ? src1 : src2   (NaN or both zero: second operand)
            n = 4 if short.endswith('ps') else 2
            c = '<' if '.min.' in short else '>'
            for i in range(n):
                self.out.append('%s.e[%d] = (%s.e[%d] %s %s.e[%d]) ? %s.e[%d] : %s.e[%d];' % (r, i, A[0], i, c, A[1], i, A[0], i, A[1], i))
            return
        if short in ('sse.min.ss', 'sse.max.ss'):
            c = '<' if '.min.' in short else '>'
            self.out.append('%s = %s;' % (r, A[0]))
            self.out.append('%s.e[0] = (%s.e[0] %s %s.e[0]) ? %s.e[0] : %s.e[0];' % (r, A[0], c, A[1], A[0], A[1]))
            return
        if short in ('sse.cmp.ss', 'sse.cmp.ps'):
            if imm(2) > 7:
                raise Unsupported('AVX comparison predicate %d of %s' % (imm(2), name))
            pred = imm(2) & 7
            tbl = {0: '(X == Y)', 1: '(X < Y)', 2: '(X <= Y)', 3: '(X != X || Y != Y)', 4: '(X != Y)', 5: '(!(X < Y))', 6: '(!(X <= Y))', 7: '(X == X && Y == Y)'}
            lanes = [0] if short.endswith('.ss') else [0, 1, 2, 3]
            if short.endswith('.ss'):
                self.out.append('%s = %s;' % (r, A[0]))
            for i in lanes:
                e = tbl[pred].replace('X', '\x00').replace('Y', '\x01').replace('\x00', '%s.e[%d]' % (A[0], i)).replace('\x01', '%s.e[%d]' % (A[1], i))
                self.out.append('%s.e[%d] = ll2c_bits_f32(%s ? 0xffffffffu : 0u);' % (r, i, e))
            return
        if short == 'ssse3.psign.d.128':
            # PSIGND: dst = (src2 < 0) ? -src1 : ((src2 == 0) ? 0 : src1)   per 32-bit lane
            for i in range(4):
                self.out.append('%s.e[%d] = ((s32)%s.e[%d] < 0) ? (u32)(0u - %s.e[%d]) : (%s.e[%d] == 0 ? 0u : %s.e[%d]);' % (r, i, A[1], i, A[0], i, A[1], i, A[0], i))
            return
        if short == 'sse3.hadd.ps':
            # HADDPS: dst = {a0 + a1, a2 + a3, b0 + b1, b2 + b3}; the sums go through float_binop so that a contract's relational
            # abstraction of fadd (uf_float) is applied to them like to every other addition of the function
            for i, (src, j) in enumerate(((A[0], 0), (A[0], 2), (A[1], 0), (A[1], 2))):
                self.out.append('%s.e[%d] = %s;' % (r, i, self.float_binop('fadd', '%s.e[%d]' % (src, j), '%s.e[%d]' % (src, j + 1), 'float')))
            return
        if short in ('sse41.round.ps', 'sse41.round.pd'):
            m = imm(1)
            fn = {0: 'nearbyint', 1: 'floor', 2: 'ceil', 3: 'trunc'}[m & 3] if not (m & 4) else 'nearbyint'
            n = 4 if short.endswith('ps') else 2
            suf = 'f' if short.endswith('ps') else ''
            self.ctx.used_ext.add(('libm', fn + suf))
            for i in range(n):
                self.out.append('%s.e[%d] = LL2C_LIBM_%s%s(%s.e[%d]);' % (r, i, fn, suf, A[0], i))
            return
        if short == 'sse41.dpps':
            m = imm(2)
            t = [('%s' % self.float_binop('fmul', '%s.e[%d]' % (A[0], i), '%s.e[%d]' % (A[1], i), 'float')) if (m >> (4 + i)) & 1 else '0.0f' for i in range(4)]
            tmp = self.tmp('float')
            fa = lambda x, y: self.float_binop('fadd', x, y, 'float')
            self.out.append('%s = %s;' % (tmp, fa(fa(t[0], t[1]), fa(t[2], t[3]))))
            for i in range(4):
                self.out.append('%s.e[%d] = %s;' % (r, i, tmp if (m >> i) & 1 else '0.0f'))
            return
        if short in ('sse.rsqrt.ps', 'sse.rcp.ps', 'sse.rsqrt.ss', 'sse.rcp.ss'):
            # hardware approximations (relative error <= 1.5 * 2^-12): uninterpreted per-lane functions
            fn = 'rsqrt' if 'rsqrt' in short else 'rcp'
            self.ctx.uf_decls.add('float __CPROVER_uninterpreted_x86_%s(float);' % fn)
            self.ctx.trusted.add('x86 %s approximation: uninterpreted (only "same function of the same bits" is provable)' % fn)
            lanes = [0] if short.endswith('.ss') else [0, 1, 2, 3]
            if short.endswith('.ss'):
                self.out.append('%s = %s;' % (r, A[0]))
            for i in lanes:
                self.out.append('%s.e[%d] = LL2C_X86APPROX(%s, %s.e[%d]);' % (r, i, fn, A[0], i))
            return
        raise Unsupported('x86 intrinsic ' + name)

    # ---------------------------------------------------------- function
    def emit(self):
        f = self.f
        ctx = self.ctx
        self.blockmap = {b.label: b for b in f.blocks}
        body = []
        # loop contracts (contract option loops=[...]): clause text per loop, in order of appearance of the loop headers.  Supported shape: a
        # single-block natural loop (a block that branches to itself - what clang's loop rotation leaves of `for (i = 0; i < n; ++i) t = f(t);`),
        # emitted as  while (1) <clauses> { block; exit edges: goto, back edge: continue }  so that goto-instrument --apply-loop-contracts
        # sees the clauses at the loop head.  PHI(k) in a clause names the k-th phi of the header (role-based: no SSA numbers in contracts);
        # ARG(k) the k-th parameter of the function.  Any other loop shape under a loop contract is outside the table (exit 2).
        lcs = list((getattr(ctx, 'loop_contracts', None) or {}).get(f.name, []))
        self.loops_emitted = 0
        for b in f.blocks:
            self.out = []
            term = b.instrs[-1] if b.instrs else None
            is_self = bool(term is not None and term.op == 'br' and b.label in [term.extra.get(k) for k in ('dest', 't', 'f')])
            self.selfloop = b.label if (is_self and lcs) else None
            if self.selfloop is not None:
                preds = [x.label for x in f.blocks if x.instrs and x.instrs[-1].op in ('br', 'switch') and
                         b.label in ([x.instrs[-1].extra.get(k) for k in ('dest', 't', 'f', 'default')] + [l for _, l in x.instrs[-1].extra.get('cases', [])])]
                if sorted(set(preds) - {b.label}) and len(set(preds) - {b.label}) != 1:
                    raise Unsupported('loop header %s of %s has several entries: not a single-block loop with one preheader' % (b.label, f.name))
            for ins in b.instrs:
                self.out.append('/* %s */' % ins.src.replace('*/', '* /').replace('/*', '/ *')[:160])
                self.emit_instr(ins, b)
            body.append('%s: ;' % self.label(b.label))
            if self.selfloop is not None:
                if self.loops_emitted >= len(lcs):
                    raise Unsupported('function %s has more self-loops than loop contracts' % f.name)
                phis = [self.lname(i.res) for i in b.instrs if i.op == 'phi']
                phis_i = [self.lname(i.res) for i in b.instrs if i.op == 'phi' and self.mod.resolve(i.ty)[0] == 'int']
                phis_f = [self.lname(i.res) for i in b.instrs if i.op == 'phi' and self.mod.resolve(i.ty)[0] in ('float', 'double')]
                params = [self.lname(nm) for (t, nm, at) in f.params]

                def role(m):
                    k = int(m.group(2))
                    src = {'PHI': phis, 'PHI_I': phis_i, 'PHI_F': phis_f, 'ARG': params}[m.group(1)]
                    if k >= len(src):
                        raise Unsupported('loop contract of %s refers to %s(%d): the loop header has %d phis' % (f.name, m.group(1), k, len(src)))
                    return src[k]
                clause = re.sub(r'\b(PHI_I|PHI_F|PHI|ARG)\((\d+)\)', role, lcs[self.loops_emitted])
                self.loops_emitted += 1
                body.append('  while (1)')
                body.append('  ' + clause)
                body.append('  {')
                body.extend('    ' + l for l in self.out)
                body.append('  }')
            else:
                body.extend('  ' + l for l in self.out)
        self.selfloop = None
        if lcs and self.loops_emitted != len(lcs):
            raise Unsupported('function %s: %d loop contract(s) given, %d single-block loop(s) found' % (f.name, len(lcs), self.loops_emitted))
        lines = [ctx.signature(f), '{']
        # param copies into locals of internal type
        for (t, nm, at) in f.params:
            rt = self.mod.resolve(t)
            ln = self.lname(nm)
            if rt[0] == 'ptr':
                lines.append('  ll2c_ptr %s = (ll2c_ptr)a_%s;' % (ln, sanitize(nm)))
            else:
                lines.append('  %s %s = a_%s;' % (ctx.ctype(t), ln, sanitize(nm)))
        for b in f.blocks:
            for ins in b.instrs:
                if ins.res is not None:
                    rt = self.types[ins.res]
                    if self.mod.resolve(rt) == ('void',):
                        continue
                    lines.append('  %s %s;' % (ctx.ctype(rt), self.lname(ins.res)))
        lines.extend('  ' + d for d in self.decls)
        lines.append('  goto %s;' % self.label(f.blocks[0].label))
        lines.extend(body)
        lines.append('}')
        return '\n'.join(lines)


def reachable_functions(mod, roots):
    seen = set()
    work = list(roots)
    while work:
        n = work.pop()
        if n in seen or n not in mod.funcs or not mod.funcs[n].defined:
            continue
        seen.add(n)
        for b in mod.funcs[n].blocks:
            for ins in b.instrs:
                for g in instr_globals(ins):
                    if g in mod.funcs:
                        work.append(g)
    return seen


def instr_globals(ins):
    out = []

    def walk(v):
        if isinstance(v, tuple):
            if len(v) >= 2 and v[0] == 'global' and isinstance(v[1], str):
                out.append(v[1])
            for x in v:
                walk(x)
        elif isinstance(v, list):
            for x in v:
                walk(x)
    walk(ins.ops)
    if ins.extra:
        walk(list(ins.extra.get('args', [])))
        walk(list(ins.extra.get('inc', [])))
    return out


def global_init(ctx, fe, name, g):
    """emit a C definition for a module global"""
    m = ctx.mod
    t = m.resolve(g['ty'])
    ct = ctx.ctype(t)
    qual = 'static const' if g['const'] else 'static'
    if g['init'] is None:
        return 'extern %s %s;' % (ct, ctx.gname(name))
    init = g['init']
    if init[0] == 'cstr':
        bs = init[1]
        return '%s %s %s = {{%s}};' % (qual, ct, ctx.gname(name), ', '.join(str(b) for b in bs))
    e = fe.val(init, t)
    # compound literal initialisers are not constant expressions in ISO C; strip the outer cast
    e = re.sub(r'\(\((struct \w+)\)(\{.*\})\)$', r'\2', e)
    e = re.sub(r'\(\(struct \w+\)(\{)', r'\1', e)
    e = e.replace('}})', '}}').replace('})', '}')
    return '%s %s %s = %s;' % (qual, ct, ctx.gname(name), e)


def translate(mod, roots=None, prefix='', poison_flags=True, only=None, uf_float=(), loop_contracts=None):
    """returns (c_text, info)"""
    ctx = Ctx(mod, prefix=prefix, poison_flags=poison_flags)
    ctx.uf_float = set(uf_float)
    ctx.loop_contracts = loop_contracts or {}
    if roots is None:
        names = [n for n in mod.order if mod.funcs[n].defined]
    else:
        r = reachable_functions(mod, roots)
        names = [n for n in mod.order if n in r]
    bodies = []
    for n in names:
        fe = FuncEmitter(ctx, mod.funcs[n])
        bodies.append(fe.emit())
    protos = [ctx.signature(mod.funcs[n]) + ';' for n in names]
    # externs
    ext = []
    for kind, n in sorted(ctx.used_ext):
        if kind == 'extern':
            f = mod.funcs[n]
            ext.append('extern ' + ctx.signature(f) + ';')
    globs = []
    dummy = FuncEmitter(ctx, mod.funcs[names[0]]) if names else None
    for kind, n in sorted(ctx.used_ext):
        if kind == 'global':
            globs.append(global_init(ctx, dummy, n, mod.globals[n]))
    head = ['/* generated by ll2c.py - do not edit */', '#include "ll2c_rt.h"', '#include "ll2c_libm.h"']
    if ctx.loop_contracts:
        head.append('#include "spec_loopinv.h"')
    tds = [ctx.typedefs[k] for k in ctx.typedef_order]
    ufd = ['#ifdef LL2C_CBMC'] + sorted(ctx.uf_decls) + ['#endif'] if ctx.uf_decls else []
    text = '\n'.join(head + ufd + tds + protos + ext + globs + bodies) + '\n'
    info = {'functions': names,
            'libm': sorted(n for k, n in ctx.used_ext if k == 'libm'),
            'x86': sorted(n for k, n in ctx.used_ext if k == 'x86'),
            'externs': sorted(n for k, n in ctx.used_ext if k == 'extern'),
            'trusted': sorted(ctx.trusted),
            'cnames': {n: ctx.fname(n) for n in names}}
    return text, info


if __name__ == '__main__':
    import argparse, json
    ap = argparse.ArgumentParser()
    ap.add_argument('ll')
    ap.add_argument('-o', default='-')
    ap.add_argument('--prefix', default='')
    ap.add_argument('--roots', default=None, help='comma separated function names (default all)')
    ap.add_argument('--no-poison-flags', action='store_true')
    ap.add_argument('--info', default=None)
    a = ap.parse_args()
    try:
        mod = parse_module(open(a.ll).read())
        text, info = translate(mod, a.roots.split(',') if a.roots else None, a.prefix, not a.no_poison_flags)
    except Unsupported as e:
        sys.stderr.write('ll2c: unsupported construct: %s\n' % e)
        sys.exit(2)
    if a.o == '-':
        sys.stdout.write(text)
    else:
        open(a.o, 'w').write(text)
    if a.info:
        json.dump(info, open(a.info, 'w'), indent=1)
