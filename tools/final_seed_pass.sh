#!/bin/bash
# final_seed_pass.sh [sid...] : for each kept seeded change apply seeded/<sid>/patch.diff to /repo, run the quick check of its property
# (full quick tier, as `vp check` would), undo the change straight afterwards, and record the outcome in seeded/<sid>/meta.json
# (key "final_pass").  Nothing else may use /repo while this runs.
cd /verif
ids="$@"; [ -z "$ids" ] && ids=$(ls seeded)
for sid in $ids; do
  prop=$(python3 -c "import json;print(json.load(open('seeded/$sid/meta.json'))['property'])")
  # FINAL_WT=<scratch worktree of /repo at HEAD>: apply there and point the check at it (VERIF_REPO) instead of touching /repo - same effect on
  # the check, and other runs against /repo are not disturbed
  tree=${FINAL_WT:-/repo}
  while pgrep -f "check $prop( |\$)" > /dev/null; do sleep 20; done   # never two full runs of one property at a time (shared work directory)
  git -C $tree status --porcelain --untracked-files=no | grep -q . && { echo "$tree not clean"; exit 2; }
  pf=/verif/seeded/$sid/patch.diff; [ -f /verif/seeded/$sid/patch_rebased.diff ] && pf=/verif/seeded/$sid/patch_rebased.diff   # rebased onto the current HEAD where later fix: commits touched the same lines
  git -C $tree apply $pf || { echo "$sid: patch does not apply"; continue; }
  cp evidence/$prop.json .work/evidence_$prop.keep   # evidence of the run against the unchanged /repo is put back afterwards
  t0=$(date +%s)
  VERIF_REPO=$tree ./check $prop > .work/final_$sid.log 2>&1; rc=$?
  t1=$(date +%s)
  git -C $tree checkout -- .
  cp .work/evidence_$prop.keep evidence/$prop.json
  nv=$(grep -c "^VIOLATION" .work/final_$sid.log)
  echo "$(date +%H:%M) $sid ($prop) exit=$rc violations=$nv wall=$((t1-t0))s $(tail -1 .work/final_$sid.log)" | tee -a .work/final_pass.log
  python3 - <<PY
import json
p='seeded/$sid/meta.json'; d=json.load(open(p))
d['final_pass']={'cmd':'git -C $tree apply seeded/$sid/patch.diff; VERIF_REPO=$tree ./check $prop; git -C $tree checkout -- .', 'exit': $rc, 'violation_lines': $nv, 'wall_s': $((t1-t0)),
                 'first_violations':[l.strip() for l in open('.work/final_$sid.log') if l.startswith('VIOLATION')][:5]}
json.dump(d,open(p,'w'),indent=1)
PY
done
