#!/usr/bin/env python3
"""mkreport.py - regenerate the machine-derived appendix of DESIGN.md (between the markers) from known_findings.txt,
seeded/*/meta.json and evidence/*.json"""
import os, re, json, glob, sys
V = os.path.dirname(os.path.dirname(os.path.abspath(__file__)))
sys.path.insert(0, os.path.join(V, 'tools'))
props = [json.loads(l) for l in open(os.path.join(V, 'properties.jsonl'))]
L = ['<!-- BEGIN GENERATED (tools/mkreport.py) -->', '', '## 11. Status per property (from the last committed evidence)', '',
     '| id | claimed | tier | obligations discharged | bounded | known findings | wall s | functions under contract |', '|---|---|---|---|---|---|---|---|']
man = json.load(open(os.path.join(V, 'MANIFEST.json')))
claimed = {c['property_id'] for c in man['checks']}
for p in props:
    f = os.path.join(V, 'evidence', p['id'] + '.json')
    if os.path.exists(f):
        e = json.load(open(f))
        c = e['coverage']
        L.append('| %s | %s | %s | %s / %s | %d | %d | %s | %d |' % (p['id'], 'yes' if p['id'] in claimed else 'no', e['tier'], c.get('discharged'), c.get('obligations'),
                                                               sum((b.get('obligations', 1) if isinstance(b, dict) else 1) for b in c.get('bounded', [])), len(c.get('known_findings', [])), e['wall_s'], (lambda f: f.get('count') or len(f.get('rows') or f))(c.get('functions_under_contract', {}))))
    else:
        L.append('| %s | %s | - | - | - | - | - | - |' % (p['id'], 'yes' if p['id'] in claimed else 'no'))
L += ['', '## 12. Defects of g-truc/glm found by the checks', '', '### 12.1 Repaired (`fix:` commits in /repo; each check passes on the repaired tree and reports the violation again if it returns)', '',
      '| property | commit | what failed |', '|---|---|---|']
findings = []
cur = None
for line in open(os.path.join(V, 'known_findings.txt')):
    if line.startswith('fixed:'):
        m = re.match(r'fixed: property=(\S+) (\S+) (.*)', line.strip())
        if m:
            L.append('| %s | %s | %s |' % (m.group(1), m.group(2), m.group(3).replace('|', '\\|')))
    elif line.startswith('finding:'):
        kv = dict(re.findall(r'(\w+)=(\S+)', line))
        cur = {'prop': kv.get('property'), 'ob': re.search(r'obligation=(.*\S)', line).group(1), 'what': ''}
        findings.append(cur)
    elif cur is not None and line.strip().startswith('what:'):
        cur['what'] = line.strip()[5:].strip()
L += ['', '### 12.2 Recorded, not repaired (known_findings.txt; the check proves the clause outside the recorded input set, pins the behaviour on it where stated, and replays the witness)', '']
groups = {}
for f in findings:
    key = (f['prop'], re.sub(r'\(vector overload.*|component \d+.*', '', f['what'])[:230])
    groups.setdefault(key, []).append(f['ob'])
L += ['| property | obligations | what |', '|---|---|---|']
for (pr, what), obs in sorted(groups.items()):
    L.append('| %s | %d (e.g. `%s`) | %s |' % (pr, len(obs), obs[0], what.replace('|', '\\|')))
L += ['', '## 13. Seeded changes (independent sub-agents, given only the property text and a scratch worktree)', '',
      'Round 1 (`Cxx`) and round 2 (`Cxx_2`, asked for a change of a different nature in a different function).  "final pass" = the patch applied to /repo itself',
      '(`git -C /repo apply`), the full quick check of the property run as registered in MANIFEST.json, the patch undone straight afterwards (`tools/final_seed_pass.sh`).', '',
      '| seeded | breaks | demo orig / changed | suite on changed tree | caught by | violations | final pass on /repo (exit, VIOLATION lines, s) |', '|---|---|---|---|---|---|---|']
for mf in sorted(glob.glob(os.path.join(V, 'seeded', '*', 'meta.json'))):
    m = json.load(open(mf))
    sid = os.path.basename(os.path.dirname(mf))
    vio = m.get('violations', [])
    caught = m.get('caught_by') or ('./check %s (quick)' % m['property'] if m.get('violation_lines') else 'MISSED')
    ex = re.sub(r'.*replay/', '', vio[0].split('replay=')[1]) if vio else ''
    if m.get('strengthened'):
        fa = m.get('first_attempt') or {}
        caught += ' **only after strengthening**: ' + m['strengthened'] + ((' (before: exit %s; %s)' % (fa.get('check_exit', '?'), fa.get('note') or fa.get('caught_by') or '')) if fa else '')
    fp = m.get('final_pass') or {}
    L.append('| %s | %s | %s / %s | %s | %s | %d%s | %s |' % (sid, m['property'], m.get('demo_on_original_exit'), m.get('demo_on_changed_exit'), str(m.get('test_suite_on_changed', ''))[:40],
                                                      caught + ((' - ' + m['note']) if m.get('note') else ''), m.get('violation_lines', 0), (' (e.g. `%s`)' % ex) if ex else '',
                                                      ('exit %s, %s, %s s' % (fp.get('exit'), fp.get('violation_lines'), fp.get('wall_s'))) if fp else '-'))
L += ['', '<!-- END GENERATED -->']
p = os.path.join(V, 'DESIGN.md')
s = open(p).read()
blk = '\n'.join(L) + '\n'
if '<!-- BEGIN GENERATED' in s:
    s = re.sub(r'<!-- BEGIN GENERATED.*<!-- END GENERATED -->\n', lambda m: blk, s, flags=re.S)
else:
    s = s.rstrip('\n') + '\n\n---------------------------------------------------------------------------------\n\n' + blk
open(p, 'w').write(s)
print('DESIGN.md appendix regenerated: %d fixed, %d findings, %d seeded' % (sum(1 for l in L if l.startswith('| C') and 'fix' in ''), len(findings), len(glob.glob(os.path.join(V, 'seeded', '*', 'meta.json')))))
