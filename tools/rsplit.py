"""rsplit.py - optional engine for kind-R goals that the plain portfolio (z3 / Groebner / nlsat) leaves undecided
because the symbolic terms of branching code are nests of if-then-else.

prove(hyps, goal, timeout, consts):
  * exhaustive case split on the atomic conditions of the ite terms (both values of every condition are explored,
    the condition / its negation is added as a hypothesis, the terms are simplified under it): sound, because
    the disjunction of the explored cases is a tautology; a case whose hypotheses z3 refutes is closed (vacuous);
  * an ite-free leaf  H |- g  goes to z3; 'sat' there is a model of the original formula (a real counterexample);
  * a leaf z3 cannot decide goes to the Groebner fallback (rgroebner.prove);
  * before that, H is extended by consequences, each of them checked before it is added:
      - a goal  A => B  (or  not A or B) is proved as  H, A |- B;
      - of a disjunctive hypothesis (the conditional axioms of sqrt/acos/... ) the only disjunct that is not refuted
        (refutation by z3, or syntactically for  not(sum of squares >= 0));
      - lemmas  r == c  for the listed constants r (results of sqrt/sin/... applications), c a candidate value read
        from some model, the lemma itself proved by z3 from H (typical: sqrt(|u|^2 |v|^2) == 1 from |u| = |v| = 1,
        which ideal membership alone cannot see because it needs r >= 0).
Returns (status, model, stats), status 'SUCCESS' | 'FAILURE' (model is a counterexample) | None (undecided).
Enabled per property with the environment variable LL2SMT_ENGINES (see ll2smt.main); not in the default portfolio.
"""
import time, signal
import z3

MAX_DEPTH = 14
# sub-timeouts (seconds, wall clock) as fractions of the clause timeout T, with floors: (prune, each lemma check, leaf z3, final leaf z3)


def _budget(T):
    return {'prune': max(2, T / 100.0), 'each': max(5, T / 40.0), 'leaf': max(5, T / 40.0), 'final': max(15, T / 10.0), 'gb': max(120, T / 2.0)}


class _Alarm(Exception):
    pass


def _atoms(c, acc):
    if z3.is_and(c) or z3.is_or(c) or z3.is_not(c):
        for ch in c.children():
            _atoms(ch, acc)
    elif not any(c.eq(a) for a in acc):
        acc.append(c)


def _ite_conds(e, acc, seen):
    if e.get_id() in seen:
        return
    seen.add(e.get_id())
    if z3.is_app_of(e, z3.Z3_OP_ITE):
        _atoms(e.arg(0), acc)
    for ch in e.children():
        _ite_conds(ch, acc, seen)


def _has_ite(e, seen=None):
    seen = set() if seen is None else seen
    if e.get_id() in seen:
        return False
    seen.add(e.get_id())
    if z3.is_app_of(e, z3.Z3_OP_ITE):
        return True
    return any(_has_ite(ch, seen) for ch in e.children())


def _flatten(H):
    out = []
    for h in H:
        if z3.is_and(h):
            out.extend(_flatten(h.children()))
        elif not z3.is_true(h) and not any(h.eq(o) for o in out):
            out.append(h)
    return out


def _nonneg(e):
    """syntactic: numeral >= 0, p*p, even powers, sums and products of such"""
    if z3.is_rational_value(e):
        return e.numerator_as_long() >= 0
    if z3.is_add(e):
        return all(_nonneg(c) for c in e.children())
    if z3.is_mul(e):
        ch = e.children()
        if len(ch) == 2 and ch[0].eq(ch[1]):
            return True
        return all(_nonneg(c) for c in ch)
    if z3.is_app_of(e, z3.Z3_OP_POWER) and z3.is_rational_value(e.arg(1)):
        n = e.arg(1)
        return n.denominator_as_long() == 1 and n.numerator_as_long() % 2 == 0
    return False


def _z3(H, extra, timeout_s):
    s = z3.Solver()
    s.set('timeout', int(max(0.1, timeout_s) * 1000))
    for h in H:
        s.add(h)
    for h in extra:
        s.add(h)
    r = s.check()
    return r, (s.model() if r == z3.sat else None)


def _split_goal(H, g):
    """H |- (A => B)  as  H, A |- B;   H |- (X or B), B the only conjunction of equalities, as  H, not X |- B"""
    import rgroebner
    while True:
        if z3.is_implies(g) and not _has_ite(g.arg(0)):
            H = _flatten(H + [g.arg(0)])
            g = g.arg(1)
        elif z3.is_or(g):
            eqs = [x for x in g.children() if rgroebner.equalities(x) is not None]
            rest = [x for x in g.children() if not any(x.eq(e) for e in eqs)]
            if len(eqs) != 1 or any(_has_ite(x) for x in rest):
                break
            H = _flatten(H + [z3.simplify(z3.Not(x)) for x in rest])
            g = eqs[0]
        else:
            break
    return H, g


def _enrich(H, consts, t_each):
    """consequences of H; returns (H', infeasible)"""
    H2 = list(H)

    def refuted(x):
        if z3.is_not(x) and z3.is_app_of(x.arg(0), z3.Z3_OP_GE) and z3.is_rational_value(x.arg(0).arg(1)) \
                and x.arg(0).arg(1).numerator_as_long() == 0 and _nonneg(x.arg(0).arg(0)):
            return True     # not (sum of squares >= 0)
        return _z3(H2, [x], t_each)[0] == z3.unsat
    for h in list(H2):
        if _has_ite(h):
            continue
        ds = h.children() if z3.is_or(h) else ([z3.Not(h.arg(0)), h.arg(1)] if z3.is_implies(h) else None)
        if ds:
            rem = [x for x in ds if not refuted(x)]
            if not rem:
                return H2, True      # every disjunct of a hypothesis is refuted
            if len(rem) == 1:
                H2 = _flatten(H2 + [rem[0]])
    easy = [h for h in H2 if not _has_ite(h) and (z3.is_eq(h) or (
        (z3.is_app_of(h, z3.Z3_OP_GE) or z3.is_app_of(h, z3.Z3_OP_LE)) and z3.is_const(h.arg(0))))]
    todo = [rv for rv in consts if not any(z3.is_eq(h) and (h.arg(0).eq(rv) or h.arg(1).eq(rv)) and
                                           (z3.is_rational_value(h.arg(0)) or z3.is_rational_value(h.arg(1))) for h in H2)]
    if todo:
        r1, m0 = _z3(easy, [], t_each)
        if m0 is not None:
            for rv in todo:
                cv = m0.eval(rv, model_completion=False)
                if z3.is_rational_value(cv) and _z3(easy, [rv != cv], t_each)[0] == z3.unsat:
                    H2.append(rv == cv)
                    easy.append(rv == cv)
    return H2, False


def prove(hyps, goal, timeout, consts=()):
    deadline = time.time() + timeout
    stats = {'leaves': 0, 'groebner_leaves': 0, 'closed_infeasible': 0, 'budget': _budget(timeout)}
    H, g = _split_goal(_flatten([z3.simplify(h) for h in hyps]), z3.simplify(goal))
    H, inf = _enrich(H, list(consts), stats['budget']['each'])
    if inf:
        return 'SUCCESS', None, stats
    r, m = _rec(H, g, deadline, 0, list(consts), stats)
    return r, m, stats


def _rec(H, g, deadline, depth, consts, stats):
    if time.time() > deadline:
        return None, None
    if any(z3.is_false(h) for h in H) or z3.is_true(g):
        return 'SUCCESS', None
    H, g = _split_goal(H, g)
    acc = []
    seen = set()
    for e in H + [g]:
        _ite_conds(e, acc, seen)
    acc = [a for a in acc if not _has_ite(a)]
    if not acc or depth >= MAX_DEPTH:
        return _leaf(H, g, deadline, consts, stats)
    c = acc[0]
    for val in (True, False):
        bv = z3.BoolVal(val)

        def sub(e):
            return z3.simplify(z3.substitute(e, (c, bv)))
        Hc = _flatten([sub(h) for h in H] + [c if val else z3.Not(c)])
        if _z3([h for h in Hc if not _has_ite(h)], [], stats['budget']['prune'])[0] == z3.unsat:
            stats['closed_infeasible'] += 1
            continue
        r, m = _rec(Hc, sub(g), deadline, depth + 1, consts, stats)
        if r != 'SUCCESS':
            return r, m
    return 'SUCCESS', None


def _leaf(H, g, deadline, consts, stats):
    stats['leaves'] += 1
    left = deadline - time.time()
    if left <= 0:
        return None, None
    B = stats['budget']
    r, m = _z3(H, [z3.Not(g)], min(left, B['leaf']))
    if r == z3.unsat:
        return 'SUCCESS', None
    if r == z3.sat:
        return 'FAILURE', m
    H2, g2 = _split_goal(H, g)
    H2, inf = _enrich(H2, consts, B['each'])
    if inf or _z3(H2, [], B['each'])[0] == z3.unsat:
        stats['closed_infeasible'] += 1
        return 'SUCCESS', None
    left = deadline - time.time()
    if left <= 1:
        return None, None
    import rgroebner
    if rgroebner.equalities(g2) is None:
        r, m = _z3(H2, [z3.Not(g2)], min(left, B['final']))
        if r == z3.unsat:
            return 'SUCCESS', None
        return ('FAILURE', m) if r == z3.sat else (None, None)
    stats['groebner_leaves'] += 1

    def on_alarm(sig, frm):
        raise _Alarm()
    old = signal.signal(signal.SIGALRM, on_alarm)
    signal.alarm(max(1, int(min(left, B['gb']))))
    try:
        ok = rgroebner.prove(H2, g2, left)
    except _Alarm:
        ok = False
    except Exception:
        ok = False
    finally:
        signal.alarm(0)
        signal.signal(signal.SIGALRM, old)
    if ok:
        return 'SUCCESS', None
    left = deadline - time.time()
    if left <= 1:
        return None, None
    r, m = _z3(H2, [z3.Not(g2)], min(left, B['final']))
    if r == z3.unsat:
        return 'SUCCESS', None
    return ('FAILURE', m) if r == z3.sat else (None, None)
