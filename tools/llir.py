#!/usr/bin/env python3
"""llir.py - parser for the textual LLVM IR (LLVM 14, typed pointers) that clang++-14
emits for the /verif drivers.  Closed vocabulary: anything not recognised raises
Unsupported (callers turn that into exit 2, never into a verdict).

Data model
  Module: datalayout, named types, globals, functions (defined + declared), metadata
  Function: name, ret type, params [(type, name, attrs)], blocks [Block]
  Block: label, instrs [Instr]
  Instr: op, result name (or None), type info, operands, flags, dbg metadata id
Types are tuples:
  ('void',) ('int',N) ('float',) ('double',) ('half',) ('ptr',T) ('array',N,T)
  ('vector',N,T) ('struct',[T...],packed) ('named',name) ('func',ret,[args],vararg)
  ('label',) ('metadata',) ('opaque',)
Values are tuples:
  ('local',name) ('global',name) ('int',value) ('fp',bits,kind) ('null',) ('undef',)
  ('poison',) ('zero',) ('vec',[ (T,V)... ]) ('struct',[ (T,V)... ]) ('array',[ (T,V)...])
  ('cstr',bytes) ('cexpr',op,...)
"""
import re, struct, sys


class Unsupported(Exception):
    pass


TOK = re.compile(r'''
    (?P<ws>\s+)
  | (?P<comment>;[^\n]*)
  | (?P<cstr>c"(?:[^"\\]|\\[0-9A-Fa-f]{2}|\\\\)*")
  | (?P<str>"(?:[^"\\]|\\.)*")
  | (?P<local>%(?:"[^"]*"|[-a-zA-Z$._0-9]+))
  | (?P<global>@(?:"[^"]*"|[-a-zA-Z$._0-9]+))
  | (?P<comdat>\$(?:"[^"]*"|[-a-zA-Z$._0-9]+))
  | (?P<meta>!(?:[-a-zA-Z$._0-9]+|"[^"]*")?)
  | (?P<attrgrp>\#\d+)
  | (?P<hexfp>0x[KLMHR]?[0-9A-Fa-f]+)
  | (?P<fp>[-+]?\d+\.\d*(?:[eE][-+]?\d+)?)
  | (?P<int>-?\d+)
  | (?P<dots>\.\.\.)
  | (?P<word>[a-zA-Z_][a-zA-Z_0-9.]*)
  | (?P<punct>[()\[\]{}<>,=*:|])
''', re.X)


def tokenize(s):
    out = []
    pos = 0
    n = len(s)
    while pos < n:
        m = TOK.match(s, pos)
        if not m:
            raise Unsupported('cannot tokenize: %r' % s[pos:pos + 40])
        pos = m.end()
        k = m.lastgroup
        if k in ('ws', 'comment'):
            continue
        out.append((k, m.group(k)))
    return out


def unq(name):
    """strip sigil and quotes"""
    n = name[1:]
    if n.startswith('"'):
        n = n[1:-1]
    return n


PARAM_ATTRS = {'noundef', 'nonnull', 'nocapture', 'readonly', 'writeonly', 'readnone', 'zeroext',
               'signext', 'noalias', 'returned', 'immarg', 'inreg', 'nest', 'nofree', 'swiftself',
               'noundef', 'nocallback'}
PARAM_ATTRS_ARG = {'align', 'dereferenceable', 'dereferenceable_or_null'}
PARAM_ATTRS_TY = {'sret', 'byval', 'byref', 'inalloca', 'preallocated', 'elementtype'}
FMF = {'fast', 'nnan', 'ninf', 'nsz', 'arcp', 'contract', 'afn', 'reassoc'}
LINKAGE = {'private', 'internal', 'available_externally', 'linkonce', 'weak', 'common', 'appending',
           'extern_weak', 'linkonce_odr', 'weak_odr', 'external', 'dso_local', 'dso_preemptable',
           'default', 'hidden', 'protected', 'unnamed_addr', 'local_unnamed_addr', 'dllimport',
           'dllexport', 'thread_local', 'externally_initialized'}
CCONV = {'ccc', 'fastcc', 'coldcc'}


class P:
    """token cursor"""

    def __init__(self, toks, src=''):
        self.t = toks
        self.i = 0
        self.src = src

    def peek(self, k=0):
        j = self.i + k
        return self.t[j] if j < len(self.t) else ('eof', '')

    def next(self):
        x = self.peek()
        self.i += 1
        return x

    def at(self, val):
        return self.peek()[1] == val

    def accept(self, val):
        if self.peek()[1] == val:
            self.i += 1
            return True
        return False

    def expect(self, val):
        k, v = self.next()
        if v != val:
            raise Unsupported('expected %r got %r in: %s' % (val, v, self.src[:200]))

    def eof(self):
        return self.i >= len(self.t)

    # ---- types
    def type(self):
        k, v = self.next()
        if k == 'word':
            if v == 'void':
                t = ('void',)
            elif re.fullmatch(r'i\d+', v):
                t = ('int', int(v[1:]))
            elif v in ('float', 'double', 'half'):
                t = (v,)
            elif v in ('x86_fp80', 'fp128', 'bfloat', 'ppc_fp128', 'x86_mmx', 'x86_amx', 'token'):
                raise Unsupported('type ' + v)
            elif v == 'label':
                t = ('label',)
            elif v == 'metadata':
                t = ('metadata',)
            elif v == 'opaque':
                t = ('opaque',)
            elif v == 'ptr':
                raise Unsupported('opaque pointers')
            else:
                raise Unsupported('type word %r in %s' % (v, self.src[:200]))
        elif k == 'local':
            t = ('named', unq(v))
        elif v == '[':
            n = int(self.next()[1])
            self.expect('x')
            e = self.type()
            self.expect(']')
            t = ('array', n, e)
        elif v == '<':
            if self.at('{'):
                self.next()
                fs = self._fields('}')
                self.expect('>')
                t = ('struct', tuple(fs), True)
            else:
                n = int(self.next()[1])
                self.expect('x')
                e = self.type()
                self.expect('>')
                t = ('vector', n, e)
        elif v == '{':
            fs = self._fields('}')
            t = ('struct', tuple(fs), False)
        else:
            raise Unsupported('type token %r in %s' % (v, self.src[:200]))
        # suffixes: pointers and function types
        while True:
            if self.at('*'):
                self.next()
                t = ('ptr', t)
            elif self.at('addrspace'):
                raise Unsupported('addrspace')
            elif self.at('(') and self._looks_like_functype():
                self.next()
                args = []
                va = False
                while not self.at(')'):
                    if self.at('...'):
                        self.next()
                        va = True
                    else:
                        args.append(self.type())
                    self.accept(',')
                self.expect(')')
                t = ('func', t, tuple(args), va)
            else:
                break
        return t

    def _looks_like_functype(self):
        # a '(' after a type is a function type only if followed by types and then ')' '*'
        depth = 0
        j = self.i
        while j < len(self.t):
            v = self.t[j][1]
            if v == '(':
                depth += 1
            elif v == ')':
                depth -= 1
                if depth == 0:
                    return j + 1 < len(self.t) and self.t[j + 1][1] == '*'
            j += 1
        return False

    def _fields(self, close):
        fs = []
        while not self.at(close):
            fs.append(self.type())
            self.accept(',')
        self.expect(close)
        return fs

    # ---- values
    def value(self, ty):
        k, v = self.next()
        if k == 'local':
            return ('local', unq(v))
        if k == 'global':
            return ('global', unq(v))
        if k == 'int':
            return ('int', int(v))
        if k == 'fp':
            return fpconst_dec(v, ty)
        if k == 'hexfp':
            return fpconst_hex(v, ty)
        if k == 'cstr':
            return ('cstr', decode_cstr(v))
        if k == 'word':
            if v == 'true':
                return ('int', 1)
            if v == 'false':
                return ('int', 0)
            if v == 'null':
                return ('null',)
            if v == 'undef':
                return ('undef',)
            if v == 'poison':
                return ('poison',)
            if v == 'zeroinitializer':
                return ('zero',)
            if v in ('getelementptr', 'bitcast', 'inttoptr', 'ptrtoint', 'trunc', 'zext', 'sext',
                     'add', 'sub', 'mul', 'and', 'or', 'xor', 'shl', 'lshr', 'ashr', 'icmp', 'select',
                     'addrspacecast', 'fptrunc', 'fpext'):
                return self.cexpr(v)
            raise Unsupported('value word %r in %s' % (v, self.src[:200]))
        if v == '<':
            if self.at('{'):
                self.next()
                el = self._tvlist('}')
                self.expect('>')
                return ('struct', el)
            el = self._tvlist('>')
            return ('vec', el)
        if v == '{':
            return ('struct', self._tvlist('}'))
        if v == '[':
            return ('array', self._tvlist(']'))
        raise Unsupported('value token %r in %s' % (v, self.src[:200]))

    def _tvlist(self, close):
        el = []
        while not self.at(close):
            t = self.type()
            el.append((t, self.value(t)))
            self.accept(',')
        self.expect(close)
        return el

    def tv(self):
        t = self.type()
        return t, self.value(t)

    def cexpr(self, op):
        if op == 'getelementptr':
            inb = self.accept('inbounds')
            self.expect('(')
            bt = self.type()
            self.expect(',')
            pt, pv = self.tv()
            idx = []
            while self.accept(','):
                self.accept('inrange')
                idx.append(self.tv())
            self.expect(')')
            return ('cexpr', 'getelementptr', bt, (pt, pv), idx)
        if op in ('bitcast', 'inttoptr', 'ptrtoint', 'trunc', 'zext', 'sext', 'addrspacecast', 'fptrunc', 'fpext'):
            self.expect('(')
            st, sv = self.tv()
            self.expect('to')
            dt = self.type()
            self.expect(')')
            return ('cexpr', op, (st, sv), dt)
        raise Unsupported('constant expression ' + op)

    def skip_param_attrs(self):
        attrs = []
        while True:
            k, v = self.peek()
            if k == 'word' and v in PARAM_ATTRS:
                self.next()
                attrs.append(v)
            elif k == 'word' and v in PARAM_ATTRS_ARG:
                self.next()
                if self.accept('('):
                    n = self.next()[1]
                    self.expect(')')
                else:
                    n = self.next()[1]
                attrs.append((v, int(n)))
            elif k == 'word' and v in PARAM_ATTRS_TY:
                self.next()
                self.expect('(')
                t = self.type()
                self.expect(')')
                attrs.append((v, t))
            else:
                return attrs


def fpconst_dec(txt, ty):
    kind = ty[0] if ty and ty[0] in ('float', 'double', 'half') else 'double'
    d = float(txt)
    # LLVM prints decimal only if exact as a double
    return ('fp', struct.unpack('<Q', struct.pack('<d', d))[0], kind)


def fpconst_hex(txt, ty):
    if txt[2] in 'KLMHR':
        if txt[2] == 'H':
            return ('fp16bits', int(txt[3:], 16), 'half')
        raise Unsupported('fp constant ' + txt)
    bits = int(txt[2:], 16)
    kind = ty[0] if ty and ty[0] in ('float', 'double', 'half') else 'double'
    if ty and ty[0] == 'int':
        # 0x... used for an integer?  LLVM never prints that
        raise Unsupported('hex integer constant ' + txt)
    return ('fp', bits, kind)  # bits are ALWAYS the double encoding, even for float


def decode_cstr(tok):
    s = tok[2:-1]
    out = bytearray()
    i = 0
    while i < len(s):
        if s[i] == '\\':
            if s[i + 1] == '\\':
                out.append(92)
                i += 2
            else:
                out.append(int(s[i + 1:i + 3], 16))
                i += 3
        else:
            out.append(ord(s[i]))
            i += 1
    return bytes(out)


class Instr:
    __slots__ = ('op', 'res', 'ty', 'ops', 'flags', 'extra', 'dbg', 'src')

    def __init__(self, op, res=None, ty=None, ops=None, flags=None, extra=None, dbg=None, src=''):
        self.op, self.res, self.ty, self.ops = op, res, ty, ops or []
        self.flags, self.extra, self.dbg, self.src = flags or set(), extra, dbg, src

    def __repr__(self):
        return 'Instr(%s %s)' % (self.res, self.op)


class Block:
    def __init__(self, label):
        self.label = label
        self.instrs = []


class Function:
    def __init__(self, name, ret, params, retattrs=None, vararg=False):
        self.name, self.ret, self.params = name, ret, params
        self.blocks = []
        self.defined = False
        self.retattrs = retattrs or []
        self.vararg = vararg
        self.src_line = 0

    def succs(self, b):
        t = b.instrs[-1]
        if t.op == 'br':
            return [t.extra['dest']] if 'dest' in t.extra else [t.extra['t'], t.extra['f']]
        if t.op == 'switch':
            return [t.extra['default']] + [l for _, l in t.extra['cases']]
        return []


class Module:
    def __init__(self):
        self.datalayout = ''
        self.types = {}
        self.globals = {}
        self.funcs = {}
        self.meta = {}
        self.order = []

    # ------------- layout per x86-64 SysV datalayout
    def resolve(self, t):
        while t[0] == 'named':
            if t[1] not in self.types:
                raise Unsupported('unknown named type %' + t[1])
            t = self.types[t[1]]
        return t

    def sizeof(self, t):
        return self.layout(t)[0]

    def alignof(self, t):
        return self.layout(t)[1]

    def layout(self, t):
        t = self.resolve(t)
        k = t[0]
        if k == 'int':
            n = t[1]
            sz = (n + 7) // 8
            # storage size rounds to power of two up to 8; i128 -> 16
            p = 1
            while p < sz:
                p *= 2
            al = min(p, 8) if n <= 64 else 16
            if n > 128:
                raise Unsupported('int width %d' % n)
            return (p, al)
        if k == 'float':
            return (4, 4)
        if k == 'double':
            return (8, 8)
        if k == 'half':
            return (2, 2)
        if k == 'ptr':
            return (8, 8)
        if k == 'array':
            s, a = self.layout(t[2])
            return (s * t[1], a)
        if k == 'vector':
            s, a = self.layout(t[2])
            if t[2][0] == 'int' and t[2][1] == 1:
                raise Unsupported('vector of i1 in memory')
            tot = s * t[1]
            p = 1
            while p < tot:
                p *= 2
            return (p, p)
        if k == 'struct':
            off = 0
            al = 1
            for f in t[1]:
                s, a = self.layout(f)
                if t[2]:
                    a = 1
                off = (off + a - 1) // a * a
                off += s
                al = max(al, a)
            off = (off + al - 1) // al * al
            return (off, al)
        raise Unsupported('layout of %r' % (t,))

    def field_offset(self, t, i):
        t = self.resolve(t)
        assert t[0] == 'struct'
        off = 0
        for j, f in enumerate(t[1]):
            s, a = self.layout(f)
            if t[2]:
                a = 1
            off = (off + a - 1) // a * a
            if j == i:
                return off
            off += s
        raise Unsupported('field index')


CAST_OPS = {'trunc', 'zext', 'sext', 'fptrunc', 'fpext', 'fptoui', 'fptosi', 'uitofp', 'sitofp', 'bitcast',
            'ptrtoint', 'inttoptr', 'addrspacecast'}
BIN_OPS = {'add', 'sub', 'mul', 'udiv', 'sdiv', 'urem', 'srem', 'shl', 'lshr', 'ashr', 'and', 'or', 'xor',
           'fadd', 'fsub', 'fmul', 'fdiv', 'frem'}


def parse_instr(line, mod):
    if '@llvm.dbg.' in line:
        return Instr('call', None, ty=('void',), ops=[('global', 'llvm.dbg.value')], extra={'args': []}, src='llvm.dbg')
    toks = tokenize(line)
    p = P(toks, line)
    res = None
    if p.peek()[0] == 'local' and p.peek(1)[1] == '=':
        res = unq(p.next()[1])
        p.next()
    # trailing metadata:  , !dbg !12, !tbaa !5
    dbg = None
    md = {}
    # find first top-level ', !name' sequence at the end
    j = len(toks)
    while j >= 3 and toks[j - 1][0] == 'meta' and toks[j - 2][0] == 'meta' and toks[j - 3][1] == ',':
        md[toks[j - 2][1]] = toks[j - 1][1]
        j -= 3
    p.t = toks[:j]
    dbg = md.get('!dbg')
    k, op = p.next()
    ins = Instr(op, res, dbg=dbg, src=line.strip())
    ins.extra = {}
    if md:
        ins.extra['md'] = md
    if op in ('tail', 'musttail', 'notail'):
        k, op2 = p.next()
        if op2 != 'call':
            raise Unsupported(line)
        op = ins.op = 'call'
    if op in BIN_OPS:
        while p.peek()[1] in ('nuw', 'nsw', 'exact') or p.peek()[1] in FMF:
            ins.flags.add(p.next()[1])
        t = p.type()
        a = p.value(t)
        p.expect(',')
        b = p.value(t)
        ins.ty = t
        ins.ops = [a, b]
    elif op == 'fneg':
        while p.peek()[1] in FMF:
            ins.flags.add(p.next()[1])
        t = p.type()
        ins.ty = t
        ins.ops = [p.value(t)]
    elif op in ('icmp', 'fcmp'):
        while p.peek()[1] in FMF:
            ins.flags.add(p.next()[1])
        pred = p.next()[1]
        t = p.type()
        a = p.value(t)
        p.expect(',')
        b = p.value(t)
        ins.ty = t
        ins.ops = [a, b]
        ins.extra['pred'] = pred
    elif op in CAST_OPS:
        st, sv = p.tv()
        p.expect('to')
        dt = p.type()
        ins.ty = dt
        ins.ops = [sv]
        ins.extra['src_ty'] = st
    elif op == 'select':
        while p.peek()[1] in FMF:
            ins.flags.add(p.next()[1])
        ct, cv = p.tv()
        p.expect(',')
        t, a = p.tv()
        p.expect(',')
        t2, b = p.tv()
        ins.ty = t
        ins.ops = [cv, a, b]
        ins.extra['cond_ty'] = ct
    elif op == 'freeze':
        t, v = p.tv()
        ins.ty = t
        ins.ops = [v]
    elif op == 'ret':
        t = p.type()
        ins.ty = t
        if t != ('void',):
            ins.ops = [p.value(t)]
    elif op == 'br':
        if p.at('label'):
            p.next()
            ins.extra['dest'] = unq(p.next()[1])
        else:
            t, c = p.tv()
            p.expect(',')
            p.expect('label')
            a = unq(p.next()[1])
            p.expect(',')
            p.expect('label')
            b = unq(p.next()[1])
            ins.ops = [c]
            ins.extra['t'] = a
            ins.extra['f'] = b
    elif op == 'switch':
        t, v = p.tv()
        p.expect(',')
        p.expect('label')
        d = unq(p.next()[1])
        p.expect('[')
        cases = []
        while not p.at(']'):
            ct, cv = p.tv()
            p.expect(',')
            p.expect('label')
            cases.append((cv, unq(p.next()[1])))
        p.expect(']')
        ins.ty = t
        ins.ops = [v]
        ins.extra['default'] = d
        ins.extra['cases'] = cases
    elif op == 'unreachable':
        pass
    elif op == 'alloca':
        t = p.type()
        ins.ty = t
        ins.extra['count'] = None
        ins.extra['align'] = None
        while p.accept(','):
            if p.accept('align'):
                ins.extra['align'] = int(p.next()[1])
            else:
                ct, cv = p.tv()
                ins.extra['count'] = (ct, cv)
    elif op == 'load':
        if p.accept('atomic'):
            raise Unsupported('atomic')
        if p.accept('volatile'):
            ins.flags.add('volatile')
        t = p.type()
        p.expect(',')
        pt, pv = p.tv()
        ins.ty = t
        ins.ops = [pv]
        if p.accept(','):
            p.expect('align')
            ins.extra['align'] = int(p.next()[1])
    elif op == 'store':
        if p.accept('atomic'):
            raise Unsupported('atomic')
        if p.accept('volatile'):
            ins.flags.add('volatile')
        t, v = p.tv()
        p.expect(',')
        pt, pv = p.tv()
        ins.ty = t
        ins.ops = [v, pv]
        if p.accept(','):
            p.expect('align')
            ins.extra['align'] = int(p.next()[1])
    elif op == 'getelementptr':
        if p.accept('inbounds'):
            ins.flags.add('inbounds')
        bt = p.type()
        p.expect(',')
        pt, pv = p.tv()
        idx = []
        while p.accept(','):
            idx.append(p.tv())
        ins.ty = ('ptr', None)
        ins.ops = [pv]
        ins.extra['base_ty'] = bt
        ins.extra['idx'] = idx
        ins.extra['ptr_ty'] = pt
    elif op == 'phi':
        while p.peek()[1] in FMF:
            ins.flags.add(p.next()[1])
        t = p.type()
        inc = []
        while True:
            p.expect('[')
            v = p.value(t)
            p.expect(',')
            l = unq(p.next()[1])
            p.expect(']')
            inc.append((v, l))
            if not p.accept(','):
                break
        ins.ty = t
        ins.extra['inc'] = inc
    elif op == 'call':
        while p.peek()[1] in FMF:
            ins.flags.add(p.next()[1])
        while p.peek()[1] in CCONV:
            p.next()
        p.skip_param_attrs()
        rt = p.type()
        # rt may be a full function type (pointer-to-func printed) for varargs
        callee = p.value(None)
        p.expect('(')
        args = []
        while not p.at(')'):
            t = p.type()
            at = p.skip_param_attrs()
            if t == ('metadata',):
                # debug intrinsics etc.: swallow tokens up to , or )
                depth = 0
                while not ((p.at(',') or p.at(')')) and depth == 0):
                    v = p.next()[1]
                    if v == '(':
                        depth += 1
                    elif v == ')':
                        depth -= 1
                args.append((t, ('undef',), at))
            else:
                v = p.value(t)
                args.append((t, v, at))
            p.accept(',')
        p.expect(')')
        if rt[0] == 'ptr' and rt[1] and rt[1][0] == 'func':
            rt = rt[1][1]
        elif rt[0] == 'func':
            rt = rt[1]
        ins.ty = rt
        ins.ops = [callee]
        ins.extra['args'] = args
    elif op == 'extractvalue':
        t, v = p.tv()
        idx = []
        while p.accept(','):
            idx.append(int(p.next()[1]))
        ins.ops = [v]
        ins.extra['agg_ty'] = t
        ins.extra['idx'] = idx
    elif op == 'insertvalue':
        t, v = p.tv()
        p.expect(',')
        et, ev = p.tv()
        idx = []
        while p.accept(','):
            idx.append(int(p.next()[1]))
        ins.ty = t
        ins.ops = [v, ev]
        ins.extra['el_ty'] = et
        ins.extra['idx'] = idx
    elif op == 'extractelement':
        t, v = p.tv()
        p.expect(',')
        it, iv = p.tv()
        ins.ops = [v, iv]
        ins.extra['vec_ty'] = t
    elif op == 'insertelement':
        t, v = p.tv()
        p.expect(',')
        et, ev = p.tv()
        p.expect(',')
        it, iv = p.tv()
        ins.ty = t
        ins.ops = [v, ev, iv]
    elif op == 'shufflevector':
        t, a = p.tv()
        p.expect(',')
        t2, b = p.tv()
        p.expect(',')
        mt, mv = p.tv()
        ins.ops = [a, b]
        ins.extra['vec_ty'] = t
        ins.extra['mask'] = (mt, mv)
    else:
        raise Unsupported('instruction %r: %s' % (op, line.strip()))
    return ins


def parse_module(text):
    mod = Module()
    lines = text.split('\n')
    i = 0
    n = len(lines)
    cur = None
    blk = None
    while i < n:
        raw = lines[i]
        i += 1
        line = raw.strip()
        if not line or line.startswith(';'):
            continue
        if cur is None:
            if line.startswith('target datalayout'):
                mod.datalayout = line.split('"')[1]
                if not mod.datalayout.startswith('e-m:e-'):
                    raise Unsupported('datalayout ' + mod.datalayout)
                continue
            if line.startswith(('target ', 'source_filename', 'attributes ', '$', 'module asm')):
                if line.startswith('module asm'):
                    raise Unsupported('module asm')
                continue
            if line.startswith('!'):
                m = re.match(r'(![-\w.]+)\s*=\s*(.*)$', line)
                if m:
                    mod.meta[m.group(1)] = m.group(2)
                continue
            if line.startswith('%'):
                m = re.match(r'(%(?:"[^"]*"|[-\w$.]+))\s*=\s*type\s+(.*)$', line)
                if not m:
                    raise Unsupported(line)
                p = P(tokenize(m.group(2)), line)
                mod.types[unq(m.group(1))] = p.type()
                continue
            if line.startswith('@'):
                parse_global(line, mod)
                continue
            if line.startswith('declare') or line.startswith('define'):
                f = parse_header(line, mod)
                if line.startswith('define'):
                    f.defined = True
                    f.src_line = i
                    cur = f
                    blk = Block(None)  # entry; label filled below
                    cur.blocks.append(blk)
                continue
            raise Unsupported('top-level: ' + line[:120])
        else:
            if line == '}':
                # name the entry block: first unnamed value number after params
                cur = None
                blk = None
                continue
            m = re.match(r'^((?:"[^"]*"|[-\w$.]+)):', line)
            if m and not line.startswith('%'):
                lab = m.group(1)
                if lab.startswith('"'):
                    lab = lab[1:-1]
                if not blk.instrs and blk.label is None and len(cur.blocks) == 1:
                    blk.label = lab
                else:
                    blk = Block(lab)
                    cur.blocks.append(blk)
                continue
            # multi-line switch
            if re.search(r'\bswitch\b', line) and line.rstrip().endswith('['):
                while not lines[i].strip().startswith(']'):
                    line += ' ' + lines[i].strip()
                    i += 1
                line += ' ' + lines[i].strip()
                i += 1
            blk.instrs.append(parse_instr(line, mod))
    # entry labels: unnamed entry block gets implicit number = count of unnamed params
    for f in mod.funcs.values():
        if f.defined and f.blocks[0].label is None:
            k = sum(1 for (_, nm, _) in f.params if nm.isdigit())
            f.blocks[0].label = str(k)
    return mod


def parse_header(line, mod):
    toks = tokenize(line)
    p = P(toks, line)
    p.next()  # define/declare
    while p.peek()[1] in LINKAGE or p.peek()[1] in CCONV:
        p.next()
    ra = p.skip_param_attrs()
    rt = p.type()
    k, name = p.next()
    if k != 'global':
        raise Unsupported('function header: ' + line[:160])
    name = unq(name)
    p.expect('(')
    params = []
    va = False
    idx = 0
    while not p.at(')'):
        if p.at('...'):
            p.next()
            va = True
            continue
        t = p.type()
        at = p.skip_param_attrs()
        if p.peek()[0] == 'local':
            nm = unq(p.next()[1])
        else:
            nm = str(idx)
        params.append((t, nm, at))
        idx += 1
        p.accept(',')
    # unnamed params are numbered consecutively among unnamed values
    num = 0
    fixed = []
    for (t, nm, at) in params:
        fixed.append((t, nm, at))
    f = Function(name, rt, fixed, ra, va)
    # renumber unnamed: LLVM numbers unnamed args 0..k-1 in order, skipping named ones
    cnt = 0
    out = []
    for (t, nm, at) in params:
        if nm.isdigit():
            out.append((t, str(cnt), at))
            cnt += 1
        else:
            out.append((t, nm, at))
    f.params = out
    mod.funcs[name] = f
    mod.order.append(name)
    return f


def parse_global(line, mod):
    m = re.match(r'(@(?:"[^"]*"|[-\w$.]+))\s*=\s*(.*)$', line)
    name = unq(m.group(1))
    toks = tokenize(m.group(2))
    p = P(toks, line)
    const = False
    external = False
    while True:
        k, v = p.peek()
        if v in LINKAGE:
            if v in ('external', 'extern_weak'):
                external = True
            p.next()
        elif v in ('global', 'constant'):
            const = (v == 'constant')
            p.next()
            break
        elif v == 'alias' or v == 'ifunc':
            raise Unsupported('alias')
        else:
            raise Unsupported('global: ' + line[:160])
    t = p.type()
    init = None
    if not external and not p.eof() and not p.at(','):
        init = p.value(t)
    al = None
    while p.accept(','):
        if p.accept('align'):
            al = int(p.next()[1])
        elif p.accept('comdat'):
            if p.accept('('):
                p.next()
                p.expect(')')
        elif p.accept('section'):
            p.next()
        elif p.peek()[0] == 'meta':
            p.next()
            p.next()
        else:
            break
    mod.globals[name] = {'ty': t, 'init': init, 'const': const, 'align': al, 'external': external}


def dbg_location(mod, dbgid):
    """!DILocation(line: 433, column: 17, scope: !123) -> (file, line)"""
    s = mod.meta.get(dbgid)
    if not s:
        return None
    m = re.search(r'line: (\d+)', s)
    line = int(m.group(1)) if m else 0
    # climb scopes to find a file
    seen = 0
    cur = s
    fname = None
    while cur and seen < 50:
        seen += 1
        mf = re.search(r'file: (!\d+)', cur)
        if mf:
            fs = mod.meta.get(mf.group(1), '')
            m2 = re.search(r'filename: "([^"]*)"', fs)
            if m2:
                fname = m2.group(1)
                break
        ms = re.search(r'scope: (!\d+)', cur)
        if not ms:
            break
        cur = mod.meta.get(ms.group(1))
    ia = re.search(r'inlinedAt: (!\d+)', s)
    return (fname, line, ia.group(1) if ia else None)


if __name__ == '__main__':
    m = parse_module(open(sys.argv[1]).read())
    for name in m.order:
        f = m.funcs[name]
        print(('define ' if f.defined else 'declare '), name, len(f.blocks), 'blocks',
              sum(len(b.instrs) for b in f.blocks), 'instrs')
