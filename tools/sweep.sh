#!/bin/bash
# sweep.sh <ids...> : run the quick check of each property sequentially, log exit code and wall time
cd /verif
for id in "$@"; do
  t0=$(date +%s)
  ./check $id > .work/sweep_$id.log 2>&1; rc=$?
  t1=$(date +%s)
  echo "$(date +%H:%M) $id exit=$rc wall=$((t1-t0))s $(tail -1 .work/sweep_$id.log)" >> .work/sweep.log
done
