#!/bin/bash
# confirm_seed.sh <Cxx> [check-args...] : confirm a seeded breaking change produced by an independent agent in /tmp/seed_Cxx(+_out):
#   demo passes on the unchanged /repo, fails on the changed tree, the unedited test suite passes on the changed tree,
#   then run ./check Cxx against the changed tree.  SEEDPFX=/tmp/seed2_ SEEDDST=Cxx_2 select a second-round seed.  Keeps it as /verif/seeded/Cxx/ (patch.diff, demo.cpp, README.md, meta.json).
id=$1; shift
pfx=${SEEDPFX:-/tmp/seed_}; wt=${pfx}$id; out=${pfx}${id}_out; dst=/verif/seeded/${SEEDDST:-$id}
[ -f $out/patch.diff ] || { echo "no patch"; exit 2; }
mkdir -p $dst
flags=$(grep -m1 'g++' $out/demo.cpp | grep -oE '(^| )-(D|m)[A-Za-z0-9_=.+-]+' | tr '\n' ' ')
echo "demo flags: $flags"
g++ -std=c++17 $flags -I/repo $out/demo.cpp -o /tmp/demo_${id}_orig 2>/tmp/demo_${id}_orig.err; /tmp/demo_${id}_orig >/tmp/demo_${id}_orig.out 2>&1; r0=$?
g++ -std=c++17 $flags -I$wt $out/demo.cpp -o /tmp/demo_${id}_chg 2>/tmp/demo_${id}_chg.err; /tmp/demo_${id}_chg >/tmp/demo_${id}_chg.out 2>&1; r1=$?
echo "demo on original: exit $r0 ; demo on changed: exit $r1"
if [ "$SKIP_TESTS" != "1" ]; then
  cmake -G Ninja -DGLM_BUILD_TESTS=ON -S $wt -B ${wt}_build >/dev/null 2>&1 && nice cmake --build ${wt}_build -j${JOBS:-8} >/tmp/seed_${id}_build.log 2>&1
  tests=$(ctest --test-dir ${wt}_build -j8 --timeout 900 2>&1 | grep "tests passed" )
  rm -rf ${wt}_build
else tests="(skipped)"; fi
echo "tests on changed tree: $tests"
cd /verif
cp evidence/$id.json /tmp/evidence_$id.keep 2>/dev/null   # a full run against the changed tree must not replace the evidence of the run against /repo
VERIF_REPO=$wt ./check $id "$@" > /tmp/seed_${id}_check.log 2>&1; rc=$?
cp /tmp/evidence_$id.keep evidence/$id.json 2>/dev/null
nv=$(grep -c "^VIOLATION" /tmp/seed_${id}_check.log)
echo "check exit $rc, $nv VIOLATION lines"; grep "^VIOLATION" /tmp/seed_${id}_check.log | head -5; tail -1 /tmp/seed_${id}_check.log
cp $out/patch.diff $out/demo.cpp $out/README.md $dst/ 2>/dev/null
python3 - <<PY
import json
json.dump({"property": "$id", "demo_on_original_exit": $r0, "demo_on_changed_exit": $r1, "test_suite_on_changed": "$tests",
 "check_cmd": "VERIF_REPO=<tree with patch.diff applied> ./check $id $*", "check_exit": $rc, "violation_lines": $nv,
 "violations": [l.strip() for l in open("/tmp/seed_${id}_check.log") if l.startswith("VIOLATION")][:12],
 "needs_to_manifest": "see README.md", "source": "independent sub-agent given only the property text and a scratch worktree"}, open("$dst/meta.json","w"), indent=1)
PY
