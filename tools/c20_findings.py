#!/usr/bin/env python3
"""Generate the proposed known_findings.txt entries of property C20 (kind U: UBSan-trap / GLM-assert reachability).

    python3 tools/c20_findings.py [observed.txt] > proposed/C20_known_findings.txt

`observed.txt` (default proposed/C20_refuted_obligations.txt): the refuted obligation ids of a run of ./check C20 on the
unchanged tree, one per line (`<fn>.safety:<key>`).  Entries are written only for observed obligations (an entry for a key
that does not exist would still add its !S to the "outside S" job of that contract); observed obligations without a rule
are listed on stderr - they need a repair or a rule.

One RULE per genuine defect that is recorded rather than repaired (see proposed/C20_report.md): a regular expression
on the shim name, the stable key of the generated safety obligation (`ubsan:<kind> <file>`, no line numbers), and
functions that build, from the shim's parameter list, the input set S on which the trap is reachable (a C expression in
the C view of the parameters: integers unsigned, floats as floats), one witness inside S (bit patterns) and the text.
The entries are generated for every instantiation (scalar / vector shapes, element types) of the contract list of
props/C20.py, so re-importing a value module keeps the findings in step with its shims.

The engine proves, per entry, that the site is unreachable under REQUIRES && !S and replays the witness under clang's
UBSan (must print a runtime error); nothing is suppressed outside S.
"""
import os, re, sys
HERE = os.path.dirname(os.path.abspath(__file__))
sys.path[:0] = [HERE, os.path.join(os.path.dirname(HERE), 'props')]


def params(P, c):
    """[(view type, name)] of the scalar inputs of the shim under contract c"""
    b = P.builds[c.build]
    return b.driver.shims[c.fn].view_sig()['ins']


# (fn regex, safety key regex, S(fn, ins) -> C expr, witness(fn, ins) -> {name: int}, what(fn, ins) -> text)
RULES = []


def rule(fn_re, key_re, S, witness, what):
    RULES.append((re.compile(fn_re), re.compile(key_re), S, witness, what))


# ---------------------------------------------------------------------------------------------------------------------------
# C11: iround / uround - "@param x The values of the argument must be greater or equal to zero" is the whole documented
# domain; the nearest integer of x >= 2^31 - 0.5 (2^32 - 0.5) and of +Inf does not fit the result type and the conversion
# static_cast<int>(round(x)) is undefined.  No repair: every value that could be returned is an invention (the doc comment
# promises "a value equal to the nearest integer to x").
def _f_bits(t, v32, v64):
    return v32 if t == 'float' else v64


rule(r'^glm_iround_f(32|64)$', r'^ubsan:float-cast-overflow glm/\./ext/scalar_common\.inl$',
     lambda fn, ins: '!(x < 2147483647.5)',
     lambda fn, ins: {'x': _f_bits(ins[0][0], 0x4f000000, 0x41e0000000000000)},
     lambda fn, ins: 'iround(x) = static_cast<int>(round(x)) for x >= 2^31 - 0.5 (and +Inf): the nearest integer is not representable in int and '
                     'the float-to-int conversion is undefined; the only documented precondition is x >= 0 (glm/ext/scalar_common.hpp); witness x = 2^31')
rule(r'^glm_uround_f(32|64)$', r'^ubsan:float-cast-overflow glm/\./ext/scalar_common\.inl$',
     lambda fn, ins: '!(x < 4294967295.5)',
     lambda fn, ins: {'x': _f_bits(ins[0][0], 0x4f800000, 0x41f0000000000000)},
     lambda fn, ins: 'uround(x) = static_cast<uint>(round(x)) for x >= 2^32 - 0.5 (and +Inf): the nearest integer is not representable in uint and '
                     'the float-to-int conversion is undefined; the only documented precondition is x >= 0 (glm/ext/scalar_common.hpp); witness x = 2^32')



# ---------------------------------------------------------------------------------------------------------------------------
# C18: bitfieldRotateRight(In, Shift) = (In << Shift) | (In >> (BitSize - Shift)), bitfieldRotateLeft the mirror image
# (glm/gtc/bitfield.inl).  Undefined: the shift by BitSize - Shift == width for Shift == 0 (types of 32 and 64 bits; the narrow
# types are promoted to int), and - C++17 rules, clang -fsanitize=shift - the left shift of a signed value that is negative
# or whose product does not fit the unsigned type.  Not repaired: the functions also rotate in the direction opposite to
# their name and test/gtc/gtc_bitfield.cpp only passes while they do (C18 finding), so no repair keeps the unedited
# suite green; a UB-only patch would have to re-create the sign smearing of the arithmetic right shift.
ROT = r'^glm_bitfieldRotate(Left|Right)_(i|u)(8|16|32|64)_(s|v[1-4])$'


def _rot(fn):
    m = re.match(ROT, fn)
    return m.group(1), m.group(2) == 'i', int(m.group(3))


def _rot_S(fn, ins):
    side, signed, n = _rot(fn)
    xs = [nm for t, nm in ins if nm != 's']
    per = []
    for x in xs:
        if signed and n <= 16:
            per.append('(s%d)%s < 0' % (n, x))
        elif signed:
            lost = '(%s >> (%d - s)) != 0' % (x, n) if side == 'Right' else '(%s >> s) != 0' % x
            per.append('(s%d)%s < 0 || %s' % (n, x, lost))
    if n >= 32:
        per.insert(0, 's == 0')
    return ' || '.join(per)


def _rot_wit(fn, ins):
    side, signed, n = _rot(fn)
    w = {nm: 0 for t, nm in ins}
    first = [nm for t, nm in ins if nm != 's'][0]
    if n >= 32:
        w[first], w['s'] = 1, 0
    else:
        w[first], w['s'] = (1 << n) - 1, 1
    return w


def _rot_what(fn, ins):
    side, signed, n = _rot(fn)
    a = ('(In << Shift) | (In >> (BitSize - Shift))' if side == 'Right' else '(In >> Shift) | (In << (BitSize - Shift))')
    why = []
    if n >= 32:
        why.append('shifts by the full width when Shift == 0')
    if signed:
        why.append('left-shifts a signed value that is negative or whose bits leave the value range (undefined before C++20)')
    return ('bitfieldRotate%s<%s%d> computes %s: %s; recorded, not repaired: the rotation direction is also wrong and '
            'test/gtc/gtc_bitfield.cpp only passes while it is (C18 finding)' % (side, 'int' if signed else 'uint', n, a, ' and '.join(why)))


rule(ROT, r'^ubsan:shift-out-of-bounds glm/(gtc/bitfield\.inl|detail/type_vec[1-4]\.inl|detail/compute_vector_decl\.hpp)$', _rot_S, _rot_wit, _rot_what)


def main():
    import C20
    P = C20.P
    default = os.path.join(os.path.dirname(HERE), 'proposed', 'C20_refuted_obligations.txt')
    path = sys.argv[1] if len(sys.argv) > 1 else default
    observed = [l.strip() for l in open(path) if l.strip() and not l.startswith('#')]
    out = ['# proposed known_findings.txt entries for C20 (generated by tools/c20_findings.py; see proposed/C20_report.md).',
           '# Safety obligations are keyed by sanitizer check + source file (no line numbers).', '']
    byfn = {}
    for c in P.contracts:
        byfn.setdefault(c.fn, []).append(c)
    norule = []
    for ob in observed:
        head, key = ob.split('.safety:', 1)
        fn = re.sub(r'\[.*\]$', '', head)
        cs = byfn.get(fn, [])
        if '[' in head:
            cs = [c for c in cs if head.endswith('[%s]' % c.build)]
        hit = [r for r in RULES if r[0].search(fn) and r[1].search(key)]
        if not cs or not hit:
            norule.append(ob)
            continue
        c = cs[0]
        fn_re, key_re, S, wit, what = hit[0]
        ins = params(P, c)
        w = wit(fn, ins)
        out.append('finding: property=C20 obligation=%s' % ob)
        out.append('         inputs: %s' % S(fn, ins))
        out.append('         witness: %s' % ' '.join('%s=0x%x' % (k, v) for k, v in w.items()))
        out.append('         what: %s' % what(fn, ins))
    print('\n'.join(out))
    if norule:
        sys.stderr.write('%d observed obligations without a finding rule (repaired by a patch, or still to do):\n' % len(norule))
        for ob in norule:
            sys.stderr.write('  ' + ob + '\n')


if __name__ == '__main__':
    main()
