#!/usr/bin/env python3
"""reconfirm_seed.py <Cxx> <dst> <pfx> <strengthened text> [<note on the first attempt>] [check args...]
re-runs the check of a kept seeded change after the check was strengthened; the first attempt is kept in meta.json (first_attempt)."""
import json, os, subprocess, sys
pid, dst, pfx, strengthened, note = sys.argv[1:6]
extra = sys.argv[6:]
mp = '/verif/seeded/%s/meta.json' % dst
old = json.load(open(mp))
env = dict(os.environ, SEEDPFX=pfx, SEEDDST=dst, SKIP_TESTS='1')
subprocess.run(['/verif/tools/confirm_seed.sh', pid] + extra, env=env)
new = json.load(open(mp))
new['test_suite_on_changed'] = old.get('test_suite_on_changed')
new['first_attempt'] = old.get('first_attempt') or {'check_cmd': old.get('check_cmd'), 'check_exit': old.get('check_exit'), 'violation_lines': old.get('violation_lines'), 'note': note}
new['strengthened'] = strengthened
json.dump(new, open(mp, 'w'), indent=1)
print(dst, 'exit', new['check_exit'], 'violations', new['violation_lines'])
