"""rgroebner.py - fallback decision procedure for kind-R goals that are conjunctions of rational-function
equalities:  hypotheses h_i = 0 (polynomial, after clearing denominators)  |-  g = 0.
 * no equality hypotheses: g is proved iff the numerator of together(lhs - rhs) expands to the zero polynomial
   (valid wherever the denominators are non-zero; the denominators are separate 'denominator_nonzero' obligations)
 * otherwise: ideal membership via sympy groebner + reduced (sound, incomplete; a non-zero remainder is never a
   refutation).
Conditional axioms  Implies(p, And(eqs))  are used only if z3 proves p from the hypotheses.
"""
import z3, sympy, time


class NoConv(Exception):
    pass


def to_sympy(e, cache):
    k = e.get_id()
    if k in cache:
        return cache[k]
    r = _conv(e, cache)
    cache[k] = r
    return r


def _conv(e, cache):
    if z3.is_rational_value(e):
        return sympy.Rational(e.numerator_as_long(), e.denominator_as_long())
    if z3.is_int_value(e):
        return sympy.Integer(e.as_long())
    if z3.is_const(e) and e.decl().kind() == z3.Z3_OP_UNINTERPRETED:
        return sympy.Symbol(str(e).replace('!', '_'))
    kind = e.decl().kind()
    ch = [to_sympy(c, cache) for c in e.children()]
    if kind == z3.Z3_OP_ADD:
        return sympy.Add(*ch)
    if kind == z3.Z3_OP_MUL:
        return sympy.Mul(*ch)
    if kind == z3.Z3_OP_SUB:
        r = ch[0]
        for c in ch[1:]:
            r = r - c
        return r
    if kind == z3.Z3_OP_UMINUS:
        return -ch[0]
    if kind in (z3.Z3_OP_DIV, z3.Z3_OP_IDIV):
        return ch[0] / ch[1]
    if kind == z3.Z3_OP_POWER:
        return ch[0] ** ch[1]
    if kind == z3.Z3_OP_TO_REAL:
        return ch[0]
    raise NoConv('z3 op %s' % e.decl().name())


def equalities(f):
    """f is And(...) of equalities / a single equality -> list of (lhs, rhs); else None"""
    if z3.is_and(f):
        out = []
        for c in f.children():
            r = equalities(c)
            if r is None:
                return None
            out.extend(r)
        return out
    if z3.is_eq(f) and not z3.is_bool(f.arg(0)):
        return [(f.arg(0), f.arg(1))]
    if z3.is_true(f):
        return []
    return None


def numer(lhs, rhs, cache):
    ex = sympy.together(to_sympy(lhs, cache) - to_sympy(rhs, cache))
    n, d = sympy.fraction(ex)
    return sympy.expand(n)


def prove(hyps, goal, timeout):
    t0 = time.time()
    cache = {}
    geqs = equalities(goal)
    if geqs is None:
        return False
    # equality hypotheses
    H = []
    plain = []
    for h in hyps:
        e = equalities(h)
        if e is not None:
            H.extend(e)
            plain.append(h)
        elif z3.is_implies(h):
            concl = h.arg(1)
            ce = None
            if z3.is_and(concl):
                ce = [c for c in concl.children() if z3.is_eq(c) and not z3.is_bool(c.arg(0))]
            elif z3.is_eq(concl):
                ce = [concl]
            if ce:
                s = z3.Solver()
                s.set('timeout', 5000)
                for p in hyps:
                    if p is not h:
                        s.add(p)
                s.add(z3.Not(h.arg(0)))
                if s.check() == z3.unsat:
                    H.extend((c.arg(0), c.arg(1)) for c in ce)
    try:
        gs = [numer(l, r, cache) for l, r in geqs]
        if all(g == 0 for g in gs):
            return True
        if not H:
            return False
        hs = [numer(l, r, cache) for l, r in H]
        hs = [h for h in hs if h != 0]
        syms = sorted(set().union(*[g.free_symbols for g in gs + hs]), key=str)
        G = sympy.groebner(hs, *syms, order='grevlex')
        for g in gs:
            if g == 0:
                continue
            if time.time() - t0 > timeout:
                return False
            q, r = sympy.reduced(g, list(G), *syms, order='grevlex')
            if r != 0:
                return False
        return True
    except NoConv:
        return False
