#!/usr/bin/env python3
"""mkmanifest.py - regenerate MANIFEST.json from the property modules in /verif/props"""
import os, sys, json, importlib
HERE = os.path.dirname(os.path.abspath(__file__))
VERIF = os.path.dirname(HERE)
sys.path.insert(0, HERE)
sys.path.insert(0, os.path.join(VERIF, 'props'))
props = [json.loads(l) for l in open(os.path.join(VERIF, 'properties.jsonl'))]
NA = json.load(open(os.path.join(VERIF, 'not_applicable.json')))
checks = []
na = []
for p in props:
    pid = p['id']
    if os.path.exists(os.path.join(VERIF, 'props', pid + '.py')) and pid not in NA:
        m = importlib.import_module(pid)
        P = m.P
        checks.append({
            'property_id': pid,
            'quick_cmd': './check %s --tier quick' % pid,
            'thorough_cmd': './check %s --tier thorough' % pid,
            'evidence_file': 'evidence/%s.json' % pid,
            'replay_cmd_template': './check %s --replay {path}' % pid,
            'engine': 'contracts',
            'level_claimed': {'category': 'proof', 'text': P.level_text, 'design_ref': P.design_ref},
            'level_note': P.level_note + ' | not covered: ' + '; '.join(P.not_covered),
            'technique': P.technique,
        })
    else:
        na.append({'property_id': pid, 'reason': NA.get(pid, 'contract machinery for this property not built yet; see DESIGN.md section 6')})
man = {
    'version': 1,
    'setup_cmd': 'true',
    'hooks': {'guard': 'GLM_VERIF', 'enable': 'none needed: contracts live in /verif/props keyed by function name; /repo carries no hooks',
              'baseline_off_cmd': 'cmake -G Ninja -S /repo -B /repo/_build >/dev/null && cmake --build /repo/_build >/dev/null && ctest --test-dir /repo/_build -j8 --timeout 900',
              'source_commits': [], 'add_only': True},
    'engines': [{'name': 'contracts', 'path': 'tools/engine.py', 'serves_properties': [c['property_id'] for c in checks],
                 'kind_free_text': 'clang++-14 LLVM IR of real GLM instantiations -> ll2c (mechanical C) -> CBMC 6.11 code contracts via goto-instrument --dfcc; native replay of counterexamples with g++'}],
    'checks': checks,
    'notes': 'see DESIGN.md; known_findings.txt lists recorded and fixed defects',
    'not_applicable': na,
}
json.dump(man, open(os.path.join(VERIF, 'MANIFEST.json'), 'w'), indent=1)
print('claimed:', [c['property_id'] for c in checks])
