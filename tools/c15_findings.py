#!/usr/bin/env python3
"""Generate the C15 known-finding entries from saved replay records (directories given on the command line).
Only the exp2/log2/fma fallbacks of the pre-C++11 language levels are recorded: they cannot be made bit-identical to
std::exp2/std::log2/std::fma with C++98 library calls only.  Output: known_findings.txt entries on stdout."""
import sys, json, glob, re
WHAT = {
    'exp2': 'pre-C++11 fallback exp2(x) = std::exp(ln2 * x) rounds differently from std::exp2 used by the default build; C++98 <cmath> has no exp2',
    'log2': 'pre-C++11 fallback log2(x) = std::log(x) * 1.4426950408889634 rounds differently from std::log2 used by the default build; C++98 <cmath> has no log2',
    'fma': 'pre-C++11 fallback fma(a, b, c) = a * b + c rounds twice, std::fma of the default build rounds once; C++98 <cmath> has no fma',
}
seen = set()
for d in sys.argv[1:]:
    for f in sorted(glob.glob(d + '/C15_*.json')):
        j = json.load(open(f))
        m = re.match(r'glm_(exp2|log2|fma)_', j['function'])
        if not m or not j.get('reproduced_on_real_code'):
            continue
        ob = '%s[%s].%s' % (j['function'], j['build'], j['obligation'].split('.', 1)[1])
        if ob in seen:
            continue
        seen.add(ob)
        print('finding: property=C15 obligation=%s' % ob)
        print('         inputs: 1')
        print('         witness: %s' % ' '.join('%s=%d' % kv for kv in j['inputs'].items()))
        print('         what: %s (configuration %s)' % (WHAT[m.group(1)], j['build'][4:]))
